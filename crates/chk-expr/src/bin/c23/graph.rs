//! `ExprIntervalGraph::{evaluate_bounds, update_ranges}` and `analysis::analyze`
//! on small expression trees over two Int8 columns: every assignment of the
//! column ranges is evaluated by an independent evaluator.
use super::dom::{Arith, C, D, Iv};
use super::num::{Stat, arith_of, bool_in, bool_iv, cmp_truth, mk, operator, rd, rd_bool};
use arrow::datatypes::{DataType, Field, Schema};
use datafusion_common::ScalarValue;
use datafusion_common::stats::Precision;
use datafusion_physical_expr::PhysicalExpr;
use datafusion_physical_expr::analysis::{AnalysisContext, ExprBoundaries, analyze};
use datafusion_physical_expr::expressions::{BinaryExpr, Column, Literal};
use datafusion_physical_expr::intervals::cp_solver::{ExprIntervalGraph, PropagationResult};
use serde::{Deserialize, Serialize};
use std::sync::Arc;

pub const DOM: D = D::I8;

#[derive(Serialize, Deserialize, Clone, Hash, Debug, PartialEq, Eq)]
pub enum E {
    Col(u8),
    Lit(i64),
    Bin(Box<E>, String, Box<E>),
}

#[derive(Clone, Copy, Debug, PartialEq)]
pub enum Val {
    I(C),
    B(bool),
}

impl E {
    pub fn bin(l: E, op: &str, r: E) -> E {
        E::Bin(Box::new(l), op.to_string(), Box::new(r))
    }
    pub fn has_col(&self, c: u8) -> bool {
        match self {
            E::Col(x) => *x == c,
            E::Lit(_) => false,
            E::Bin(l, _, r) => l.has_col(c) || r.has_col(c),
        }
    }
    pub fn is_leaf(&self) -> bool {
        !matches!(self, E::Bin(..))
    }
    pub fn is_bool(&self) -> bool {
        match self {
            E::Bin(_, op, _) => arith_of(op).is_none(),
            _ => false,
        }
    }
    pub fn size(&self) -> usize {
        match self {
            E::Bin(l, _, r) => 1 + l.size() + r.size(),
            _ => 1,
        }
    }
    pub fn show(&self) -> String {
        match self {
            E::Col(0) => "a".into(),
            E::Col(_) => "b".into(),
            E::Lit(v) => format!("{v}"),
            E::Bin(l, op, r) => format!("({} {} {})", l.show(), op, r.show()),
        }
    }
    pub fn phys(&self) -> Result<Arc<dyn PhysicalExpr>, String> {
        Ok(match self {
            E::Col(0) => Arc::new(Column::new("a", 0)),
            E::Col(_) => Arc::new(Column::new("b", 1)),
            E::Lit(v) => Arc::new(Literal::new(ScalarValue::Int8(Some(*v as i8)))),
            E::Bin(l, op, r) => Arc::new(BinaryExpr::new(l.phys()?, operator(op)?, r.phys()?)),
        })
    }
    /// Independent evaluation; `None` when some arithmetic step has no
    /// representable Int8 result (overflow, division by zero).
    pub fn eval(&self, a: C, b: C) -> Option<Val> {
        Some(match self {
            E::Col(0) => Val::I(a),
            E::Col(_) => Val::I(b),
            E::Lit(v) => Val::I(*v as C),
            E::Bin(l, op, r) => {
                let (x, y) = (l.eval(a, b)?, r.eval(a, b)?);
                match (x, y) {
                    (Val::I(x), Val::I(y)) => match arith_of(op) {
                        Some(ar) => {
                            let _: Arith = ar;
                            Val::I(DOM.arith(ar, x, y)?)
                        }
                        None => Val::B(cmp_truth(DOM, op, x, y)),
                    },
                    (Val::B(x), Val::B(y)) => match op.as_str() {
                        "And" => Val::B(x && y),
                        "Or" => Val::B(x || y),
                        _ => return None,
                    },
                    _ => return None,
                }
            }
        })
    }
}

pub fn schema() -> Schema {
    Schema::new(vec![Field::new("a", DataType::Int8, true), Field::new("b", DataType::Int8, true)])
}

/// What the root is constrained to.
#[derive(Serialize, Deserialize, Clone, Hash, Debug, PartialEq, Eq)]
pub enum Given {
    Bool(bool),
    Range(Iv),
}

fn satisfies(v: Val, g: &Given) -> bool {
    match (v, g) {
        (Val::B(b), Given::Bool(t)) => b == *t,
        (Val::I(x), Given::Range(iv)) => DOM.member(iv, x),
        _ => false,
    }
}

fn in_iv(i: &datafusion_expr_common::interval_arithmetic::Interval, v: C) -> Result<bool, String> {
    let (d, iv) = rd(i)?;
    Ok(d.within(iv.lo, iv.hi, v))
}

pub fn run_graph(mode: &str, e: &E, ra: &Iv, rb: &Iv, given: &Given, all: bool) -> Result<Stat, String> {
    let sch = schema();
    let phys = e.phys()?;
    let cols: Vec<u8> = [0u8, 1u8].into_iter().filter(|c| e.has_col(*c)).collect();
    let col_exprs: Vec<Arc<dyn PhysicalExpr>> = cols.iter().map(|c| E::Col(*c).phys().unwrap()).collect();
    let ranges = [ra, rb];
    let (ma, mb) = (
        if e.has_col(0) { DOM.members(ra, all) } else { vec![0] },
        if e.has_col(1) { DOM.members(rb, all) } else { vec![0] },
    );
    let mut st = Stat::default();
    let head = || format!("{mode} of {} with a in {}, b in {}", e.show(), DOM.show_iv(ra), DOM.show_iv(rb));

    if mode == "analyze" {
        let bounds = vec![
            ExprBoundaries { column: Column::new("a", 0), interval: Some(mk(DOM, ra)?), distinct_count: Precision::Absent },
            ExprBoundaries { column: Column::new("b", 1), interval: Some(mk(DOM, rb)?), distinct_count: Precision::Absent },
        ];
        let out = match analyze(&phys, AnalysisContext::new(bounds), &sch) {
            Ok(o) => o,
            Err(_) => return Ok(Stat { impl_err: true, ..Default::default() }),
        };
        let ia = out.boundaries[0].interval.clone();
        let ib = out.boundaries[1].interval.clone();
        st.claim = ia.as_ref() != Some(&mk(DOM, ra)?) || ib.as_ref() != Some(&mk(DOM, rb)?);
        for &a in &ma {
            for &b in &mb {
                if e.eval(a, b) != Some(Val::B(true)) {
                    continue;
                }
                st.checks += 1;
                for (name, i, v, used) in [("a", &ia, a, e.has_col(0)), ("b", &ib, b, e.has_col(1))] {
                    if !used {
                        continue;
                    }
                    match i {
                        None => return Err(format!("{} answers 'no row can pass' (interval None) but a={a}, b={b} satisfies the predicate", head())),
                        Some(i) => {
                            if !in_iv(i, v)? {
                                return Err(format!("{} shrinks {name} to {i} but a={a}, b={b} satisfies the predicate", head()));
                            }
                        }
                    }
                }
            }
        }
        return Ok(st);
    }

    let mut graph = match ExprIntervalGraph::try_new(Arc::clone(&phys), &sch) {
        Ok(g) => g,
        Err(_) => return Ok(Stat { impl_err: true, ..Default::default() }),
    };
    let idx = graph.gather_node_indices(&col_exprs);
    let mut leaf: Vec<(usize, datafusion_expr_common::interval_arithmetic::Interval)> = vec![];
    for (k, c) in cols.iter().enumerate() {
        if idx[k].1 == usize::MAX {
            return Err(format!("harness: column {c} not found in graph of {}", e.show()));
        }
        leaf.push((idx[k].1, mk(DOM, ranges[*c as usize])?));
    }
    match mode {
        "bounds" => {
            graph.assign_intervals(&leaf);
            let res = match graph.evaluate_bounds() {
                Ok(r) => r.clone(),
                Err(_) => return Ok(Stat { impl_err: true, ..Default::default() }),
            };
            if e.is_bool() {
                let rb_ = rd_bool(&res)?;
                st.claim = rb_.0 == rb_.1;
                for &a in &ma {
                    for &b in &mb {
                        let Some(Val::B(t)) = e.eval(a, b) else { continue };
                        st.checks += 1;
                        if !bool_in(rb_, t) {
                            return Err(format!("{} = {res} but a={a}, b={b} gives {t}", head()));
                        }
                    }
                }
            } else {
                let (dm, iv) = rd(&res)?;
                st.claim = iv.lo.is_some() || iv.hi.is_some();
                for &a in &ma {
                    for &b in &mb {
                        let Some(Val::I(v)) = e.eval(a, b) else { continue };
                        st.checks += 1;
                        if !dm.within(iv.lo, iv.hi, v) {
                            return Err(format!("{} = {res} but a={a}, b={b} gives {v}", head()));
                        }
                    }
                }
            }
        }
        "update_ranges" => {
            let gi = match given {
                Given::Bool(t) => bool_iv(*t as u8),
                Given::Range(iv) => mk(DOM, iv)?,
            };
            let before = leaf.clone();
            let res = match graph.update_ranges(&mut leaf, gi) {
                Ok(r) => r,
                Err(_) => return Ok(Stat { impl_err: true, ..Default::default() }),
            };
            st.claim = res == PropagationResult::Infeasible || leaf != before;
            for &a in &ma {
                for &b in &mb {
                    let Some(v) = e.eval(a, b) else { continue };
                    if !satisfies(v, given) {
                        continue;
                    }
                    st.checks += 1;
                    if res == PropagationResult::Infeasible {
                        return Err(format!("{} constrained to {given:?} = Infeasible but a={a}, b={b} satisfies it", head()));
                    }
                    for (k, c) in cols.iter().enumerate() {
                        let v = if *c == 0 { a } else { b };
                        if !in_iv(&leaf[k].1, v)? {
                            return Err(format!(
                                "{} constrained to {given:?} = {res:?} shrinks column {} to {} but a={a}, b={b} satisfies it",
                                head(),
                                if *c == 0 { "a" } else { "b" },
                                leaf[k].1
                            ));
                        }
                    }
                }
            }
        }
        _ => return Err(format!("harness: unknown graph mode {mode}")),
    }
    Ok(st)
}

/// Expression menu. Returns (boolean-rooted, arithmetic-rooted), simplest first.
pub fn exprs(thorough: bool) -> (Vec<E>, Vec<E>) {
    let lits: Vec<i64> = if thorough { vec![0, 1, -2, 100] } else { vec![0, 1, -2] };
    let ar_ops: Vec<&str> = if thorough { vec!["Plus", "Minus", "Multiply", "Divide"] } else { vec!["Plus", "Minus"] };
    let cmp_ops: Vec<&str> = if thorough { vec!["Lt", "LtEq", "Eq", "Gt", "GtEq"] } else { vec!["Lt", "LtEq", "Eq"] };
    let mut t0 = vec![E::Col(0), E::Col(1)];
    t0.extend(lits.iter().map(|v| E::Lit(*v)));
    let anycol = |e: &E| e.has_col(0) || e.has_col(1);
    let mut t1n = vec![]; // non-leaf terms of depth 1
    for l in &t0 {
        for r in &t0 {
            for op in &ar_ops {
                let e = E::bin(l.clone(), op, r.clone());
                if anycol(&e) {
                    t1n.push(e);
                }
            }
        }
    }
    let mut t1 = t0.clone();
    t1.extend(t1n.iter().cloned());
    let mut cmp1 = vec![];
    for l in &t0 {
        for r in &t0 {
            for op in &cmp_ops {
                let e = E::bin(l.clone(), op, r.clone());
                if anycol(&e) {
                    cmp1.push(e);
                }
            }
        }
    }
    let mut cmp2 = vec![];
    for l in &t1 {
        for r in &t1 {
            if l.is_leaf() && r.is_leaf() {
                continue;
            }
            for op in &cmp_ops {
                let e = E::bin(l.clone(), op, r.clone());
                if anycol(&e) {
                    cmp2.push(e);
                }
            }
        }
    }
    let mut and2 = vec![];
    let logic: Vec<&str> = if thorough { vec!["And", "Or"] } else { vec!["And"] };
    for l in &cmp1 {
        for r in &cmp1 {
            for op in &logic {
                and2.push(E::bin(l.clone(), op, r.clone()));
            }
        }
    }
    let mut bools = cmp1;
    bools.extend(cmp2);
    bools.extend(and2);
    let mut ariths = t1n.clone();
    // depth-2 arithmetic: (non-leaf) op leaf and leaf op (non-leaf)
    for l in &t1n {
        for r in &t0 {
            for op in &ar_ops {
                ariths.push(E::bin(l.clone(), op, r.clone()));
                ariths.push(E::bin(r.clone(), op, l.clone()));
            }
        }
    }
    bools.sort_by_key(|e| e.size());
    ariths.sort_by_key(|e| e.size());
    (bools, ariths)
}

pub fn range_menu(thorough: bool) -> Vec<Iv> {
    let mut v = vec![
        Iv::new(Some(0), Some(1)),
        Iv::new(Some(-2), Some(2)),
        Iv::new(Some(126), Some(127)),
        Iv::new(Some(-128), Some(-127)),
        Iv::new(None, Some(0)),
        Iv::new(None, None),
    ];
    if thorough {
        v.extend([Iv::new(Some(1), Some(1)), Iv::new(Some(-1), None), Iv::new(Some(-5), Some(64)), Iv::new(Some(-128), Some(127))]);
    }
    v
}
