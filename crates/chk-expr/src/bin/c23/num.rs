//! Interval × Interval operators, set operations and unary functions on
//! numeric intervals, checked member by member against the model in `dom.rs`.
use super::dom::{Arith, C, D, Iv, meet, norm, norm_inf, subset};
use datafusion_common::ScalarValue;
use datafusion_expr_common::interval_arithmetic::{Interval, apply_operator};
use datafusion_expr_common::operator::Operator;
use std::cmp::Ordering;

#[derive(Default, Debug)]
pub struct Stat {
    /// membership / implication checks performed
    pub checks: u64,
    /// the implementation made a falsifiable claim (a bounded end, a definite
    /// truth value, "infeasible", a shrunk range …)
    pub claim: bool,
    /// the implementation returned `Err` (no claim, never a violation)
    pub impl_err: bool,
    /// results that are contained numerically but not in the engine's total
    /// order (signed zero)
    pub zero_gap: u64,
}

pub fn mk(d: D, iv: &Iv) -> Result<Interval, String> {
    Interval::try_new(d.sv(iv.lo), d.sv(iv.hi)).map_err(|e| format!("harness: cannot construct {}: {e}", d.show_iv(iv)))
}

/// Read an implementation interval back into the model.
pub fn rd(i: &Interval) -> Result<(D, Iv), String> {
    let (dl, lo) = D::of_sv(i.lower()).ok_or_else(|| format!("unexpected endpoint type in {i}"))?;
    let (dh, hi) = D::of_sv(i.upper()).ok_or_else(|| format!("unexpected endpoint type in {i}"))?;
    if dl != dh {
        return Err(format!("result interval {i} has endpoints of different types"));
    }
    Ok((dl, Iv { lo, hi }))
}

pub fn rd_bool(i: &Interval) -> Result<(bool, bool), String> {
    match (i.lower(), i.upper()) {
        (ScalarValue::Boolean(Some(l)), ScalarValue::Boolean(Some(h))) => Ok((*l, *h)),
        _ => Err(format!("expected a boolean interval, got {i}")),
    }
}

pub fn bool_in(b: (bool, bool), t: bool) -> bool {
    // the boolean interval [l, h] denotes {l, h} (false <= true)
    if b.0 && !b.1 {
        return false; // [true,false]: empty/invalid, contains nothing
    }
    t == b.0 || t == b.1
}

pub fn operator(op: &str) -> Result<Operator, String> {
    Ok(match op {
        "Plus" => Operator::Plus,
        "Minus" => Operator::Minus,
        "Multiply" => Operator::Multiply,
        "Divide" => Operator::Divide,
        "Eq" => Operator::Eq,
        "NotEq" => Operator::NotEq,
        "Lt" => Operator::Lt,
        "LtEq" => Operator::LtEq,
        "Gt" => Operator::Gt,
        "GtEq" => Operator::GtEq,
        "And" => Operator::And,
        "Or" => Operator::Or,
        "IsDistinctFrom" => Operator::IsDistinctFrom,
        "IsNotDistinctFrom" => Operator::IsNotDistinctFrom,
        _ => return Err(format!("harness: unknown operator {op}")),
    })
}

pub const ARITH_OPS: [&str; 4] = ["Plus", "Minus", "Multiply", "Divide"];
pub const CMP_OPS: [&str; 6] = ["Eq", "NotEq", "Lt", "LtEq", "Gt", "GtEq"];

pub fn arith_of(op: &str) -> Option<Arith> {
    Some(match op {
        "Plus" => Arith::Add,
        "Minus" => Arith::Sub,
        "Multiply" => Arith::Mul,
        "Divide" => Arith::Div,
        _ => return None,
    })
}

/// Truth of `a op b` in the engine's ordering.
pub fn cmp_truth(d: D, op: &str, a: C, b: C) -> bool {
    let o = d.cmp(a, b);
    match op {
        "Eq" => o == Ordering::Equal,
        "NotEq" => o != Ordering::Equal,
        "Lt" => o == Ordering::Less,
        "LtEq" => o != Ordering::Greater,
        "Gt" => o == Ordering::Greater,
        "GtEq" => o != Ordering::Less,
        _ => unreachable!(),
    }
}

/// The value of `a op b` as the engine's operator would produce it, and the
/// domain it lives in; `None` when there is no representable ordinary result
/// (integer overflow w.r.t. the result type `rd`, division by zero, NaN).
pub fn arith_value(dl: D, dr: D, rd: D, ar: Arith, a: C, b: C) -> Option<C> {
    if dl.is_float() {
        if dl != dr || rd != dl {
            return None;
        }
        dl.arith(ar, a, b)
    } else {
        if dr.is_float() || rd.is_float() {
            return None;
        }
        let v = D::int_arith(ar, a, b)?;
        rd.fits(v).then_some(v)
    }
}

pub fn run_bin(dl: D, dr: D, op: &str, l: &Iv, r: &Iv, all: bool) -> Result<Stat, String> {
    let (li, ri) = (mk(dl, l)?, mk(dr, r)?);
    let opr = operator(op)?;
    let res = match apply_operator(&opr, &li, &ri) {
        Ok(x) => x,
        Err(_) => return Ok(Stat { impl_err: true, ..Default::default() }),
    };
    let (ml, mr) = (dl.members(l, all), dr.members(r, all));
    let mut st = Stat::default();
    if let Some(ar) = arith_of(op) {
        let (rdm, riv) = rd(&res)?;
        st.claim = riv.lo.is_some() || riv.hi.is_some();
        for &a in &ml {
            for &b in &mr {
                let Some(v) = arith_value(dl, dr, rdm, ar, a, b) else { continue };
                st.checks += 1;
                if !rdm.within(riv.lo, riv.hi, v) {
                    return Err(format!(
                        "apply_operator({op}, {}, {}) = {} (i.e. {}) does not contain {} {op} {} = {}",
                        dl.show_iv(l),
                        dr.show_iv(r),
                        res,
                        rdm.show_iv(&riv),
                        dl.show(a),
                        dr.show(b),
                        rdm.show(v)
                    ));
                }
                if rdm.is_float() && !rdm.within_total(riv.lo, riv.hi, v) {
                    st.zero_gap += 1;
                }
            }
        }
    } else {
        let rb = rd_bool(&res)?;
        st.claim = rb.0 == rb.1;
        if dl.is_float() != dr.is_float() {
            return Err("harness: mixed float/int comparison not modelled".into());
        }
        for &a in &ml {
            for &b in &mr {
                let t = cmp_truth(dl, op, a, b);
                st.checks += 1;
                if !bool_in(rb, t) {
                    return Err(format!(
                        "apply_operator({op}, {}, {}) = {} but {} {op} {} is {t}",
                        dl.show_iv(l),
                        dr.show_iv(r),
                        res,
                        dl.show(a),
                        dr.show(b)
                    ));
                }
            }
        }
    }
    Ok(st)
}

pub const SET_FNS: [&str; 5] = ["intersect", "union", "contains", "superset", "superset_strict"];

pub fn run_set(dl: D, dr: D, f: &str, l: &Iv, r: &Iv) -> Result<Stat, String> {
    if dl.is_float() != dr.is_float() || (dl.is_float() && dl != dr) {
        return Err("harness: mixed float set operation not modelled".into());
    }
    let (li, ri) = (mk(dl, l)?, mk(dr, r)?);
    // Two readings of an unbounded integer end: (A) the type extreme of the
    // interval's own type, (B) genuinely infinite.  They differ only when an
    // unbounded interval meets one whose end sits exactly at a type extreme, or
    // across types.  A violation is reported only if the answer is wrong under
    // BOTH readings.
    type N = fn(D, &Iv) -> Iv;
    let readings: [N; 2] = [norm, norm_inf];
    let mut st = Stat { checks: 1, ..Default::default() };
    let ctx = |res: &dyn std::fmt::Display| format!("{}.{f}({}) = {res}", dl.show_iv(l), dr.show_iv(r));
    let mut verdicts: Vec<Option<String>> = vec![];
    macro_rules! call {
        ($e:expr) => {
            match $e {
                Ok(x) => x,
                Err(_) => return Ok(Stat { impl_err: true, ..Default::default() }),
            }
        };
    }
    match f {
        "intersect" => {
            let res = call!(li.intersect(&ri));
            for n in readings {
                let (nl, nr) = (n(dl, l), n(dr, r));
                let m = meet(dl, &nl, &nr);
                verdicts.push(match &res {
                    None => {
                        st.claim = true;
                        m.map(|m| format!("{} but both contain e.g. {}", ctx(&"None"), dl.show_o(m.lo.or(m.hi).or(Some(0)))))
                    }
                    Some(res) => {
                        let (rdm, riv) = rd(res)?;
                        let nres = n(rdm, &riv);
                        st.claim |= !subset(rdm, &nl, &nres) || !subset(rdm, &nr, &nres);
                        match m {
                            Some(m) if !subset(rdm, &m, &nres) => Some(format!("{} does not contain the common values {}", ctx(res), dl.show_iv(&m))),
                            _ => None,
                        }
                    }
                });
            }
        }
        "union" => {
            let res = call!(li.union(&ri));
            let (rdm, riv) = rd(&res)?;
            st.claim = riv.lo.is_some() || riv.hi.is_some();
            for n in readings {
                let (nl, nr, nres) = (n(dl, l), n(dr, r), n(rdm, &riv));
                verdicts.push((!subset(rdm, &nl, &nres) || !subset(rdm, &nr, &nres)).then(|| format!("{} does not contain both operands", ctx(&res))));
            }
        }
        "contains" => {
            let res = call!(li.contains(&ri));
            let rb = rd_bool(&res)?;
            st.claim = rb.0 == rb.1;
            for n in readings {
                let (nl, nr) = (n(dl, l), n(dr, r));
                verdicts.push(if rb == (true, true) && !subset(dl, &nr, &nl) {
                    Some(format!("{} (certainly a superset) but the right operand has values outside the left", ctx(&res)))
                } else if rb == (false, false) && meet(dl, &nl, &nr).is_some() {
                    Some(format!("{} (certainly disjoint) but the operands share values", ctx(&res)))
                } else {
                    None
                });
            }
        }
        "superset" | "superset_strict" => {
            let res = call!(li.is_superset(&ri, f == "superset_strict"));
            st.claim = res;
            for n in readings {
                let (nl, nr) = (n(dl, l), n(dr, r));
                verdicts.push((res && !subset(dl, &nr, &nl)).then(|| format!("{} but the right operand has values outside the left", ctx(&res))));
            }
        }
        _ => return Err(format!("harness: unknown set fn {f}")),
    }
    if verdicts.iter().all(|v| v.is_some()) {
        return Err(verdicts.swap_remove(0).unwrap());
    }
    Ok(st)
}

pub const UN_FNS: [&str; 3] = ["cardinality", "negate", "contains_value"];

fn ford(d: D, c: C) -> i128 {
    // monotone map of float codes to integers following totalOrder
    let bits = d.bits();
    let sign = 1i128 << (bits - 1);
    if c & sign != 0 { -((c & (sign - 1)) + 1) } else { c }
}

pub fn run_un(d: D, f: &str, x: &Iv, all: bool) -> Result<Stat, String> {
    let xi = mk(d, x)?;
    let mut st = Stat::default();
    match f {
        "cardinality" => {
            let res = xi.cardinality();
            st.checks = 1;
            if let Some(n) = res {
                st.claim = true;
                let nx = norm(d, x);
                let expect: Option<i128> = match (nx.lo, nx.hi) {
                    (Some(l), Some(h)) => Some(if d.is_float() { ford(d, h) - ford(d, l) + 1 } else { h - l + 1 }),
                    _ => None,
                };
                match expect {
                    // an unbounded float interval has no finite count in the model: no demand
                    None => {}
                    Some(e) => {
                        if e != n as i128 {
                            return Err(format!("{}.cardinality() = Some({n}) but the interval has {e} distinct values", d.show_iv(x)));
                        }
                    }
                }
            }
        }
        "negate" => {
            let res = match xi.arithmetic_negate() {
                Ok(r) => r,
                Err(_) => return Ok(Stat { impl_err: true, ..Default::default() }),
            };
            let (rdm, riv) = rd(&res)?;
            st.claim = riv.lo.is_some() || riv.hi.is_some();
            for a in d.members(x, all) {
                let Some(v) = d.neg(a) else { continue };
                if !rdm.fits(v) {
                    continue;
                }
                st.checks += 1;
                if !rdm.within(riv.lo, riv.hi, v) {
                    return Err(format!("{}.arithmetic_negate() = {} does not contain -({}) = {}", d.show_iv(x), res, d.show(a), rdm.show(v)));
                }
            }
        }
        "contains_value" => {
            st.claim = true;
            let mut probes = d.members(&Iv { lo: None, hi: None }, false);
            if d.is_float() {
                probes.extend(d.members(x, false));
            } else {
                for e in [x.lo, x.hi].into_iter().flatten() {
                    for k in -3..=3 {
                        if d.fits(e + k) {
                            probes.push(e + k);
                        }
                    }
                }
            }
            probes.sort();
            probes.dedup();
            for v in probes {
                let got = match xi.contains_value(d.sv(Some(v))) {
                    Ok(g) => g,
                    Err(_) => return Ok(Stat { impl_err: true, ..Default::default() }),
                };
                st.checks += 1;
                if got != d.member(x, v) {
                    return Err(format!("{}.contains_value({}) = {got}", d.show_iv(x), d.show(v)));
                }
            }
        }
        _ => return Err(format!("harness: unknown unary fn {f}")),
    }
    Ok(st)
}

/// `cast_to` between integer domains and from integers to floats.
pub fn run_cast(d: D, to: D, x: &Iv, all: bool) -> Result<Stat, String> {
    use arrow::compute::CastOptions;
    let xi = mk(d, x)?;
    let dt = to.sv(None).data_type();
    let res = match xi.cast_to(&dt, &CastOptions::default()) {
        Ok(r) => r,
        Err(_) => return Ok(Stat { impl_err: true, ..Default::default() }),
    };
    let (rdm, riv) = rd(&res)?;
    if rdm != to {
        return Err(format!("cast_to({to:?}) returned an interval of {rdm:?}"));
    }
    let mut st = Stat { claim: riv.lo.is_some() || riv.hi.is_some(), ..Default::default() };
    for a in d.members(x, all) {
        let v: C = if to.is_float() {
            if d.is_float() {
                return Err("harness: float source cast not modelled".into());
            }
            match to {
                D::F32 => D::of_f32(a as f32),
                _ => D::of_f64(a as f64),
            }
        } else {
            if !to.fits(a) {
                continue; // not representable in the target type
            }
            a
        };
        st.checks += 1;
        if !to.within(riv.lo, riv.hi, v) {
            return Err(format!("{}.cast_to({to:?}) = {} does not contain CAST({}) = {}", d.show_iv(x), res, d.show(a), to.show(v)));
        }
    }
    Ok(st)
}

// ---- boolean intervals ----

pub fn bool_iv(code: u8) -> Interval {
    match code {
        0 => Interval::FALSE,
        1 => Interval::TRUE,
        _ => Interval::TRUE_OR_FALSE,
    }
}
pub fn bool_members(code: u8) -> Vec<bool> {
    match code {
        0 => vec![false],
        1 => vec![true],
        _ => vec![false, true],
    }
}

pub fn run_bool(f: &str, l: u8, r: u8) -> Result<Stat, String> {
    let (li, ri) = (bool_iv(l), bool_iv(r));
    let res = match f {
        "and" => li.and(&ri),
        "or" => li.or(&ri),
        "not" => li.not(),
        "apply_and" => apply_operator(&Operator::And, &li, &ri),
        "apply_or" => apply_operator(&Operator::Or, &li, &ri),
        "equal" => li.equal(&ri),
        _ => return Err(format!("harness: unknown bool fn {f}")),
    };
    let res = match res {
        Ok(r) => r,
        Err(_) => return Ok(Stat { impl_err: true, ..Default::default() }),
    };
    let rb = rd_bool(&res)?;
    let mut st = Stat { claim: rb.0 == rb.1, ..Default::default() };
    for a in bool_members(l) {
        for b in bool_members(r) {
            let t = match f {
                "and" | "apply_and" => a && b,
                "or" | "apply_or" => a || b,
                "not" => !a,
                "equal" => a == b,
                _ => unreachable!(),
            };
            st.checks += 1;
            if !bool_in(rb, t) {
                return Err(format!("{f}({li}, {ri}) = {res} does not contain {f}({a}, {b}) = {t}"));
            }
        }
    }
    Ok(st)
}
