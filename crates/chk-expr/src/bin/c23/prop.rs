//! `satisfy_greater`, `propagate_comparison`, `propagate_arithmetic` called
//! directly: no assignment that satisfies the constraint may be removed, and
//! "infeasible" may only be answered when no assignment satisfies it.
use super::dom::{C, D, Iv};
use super::num::{Stat, arith_of, bool_iv, bool_members, cmp_truth, mk, operator, rd};
use datafusion_expr_common::interval_arithmetic::{Interval, satisfy_greater};
use datafusion_physical_expr::intervals::cp_solver::{propagate_arithmetic, propagate_comparison};

fn retained(
    head: &dyn Fn() -> String,
    d: D,
    res: &Option<(Interval, Interval)>,
    a: C,
    b: C,
    why: &str,
) -> Result<(), String> {
    match res {
        None => Err(format!("{} = None (infeasible) but {why}", head())),
        Some((nl, nr)) => {
            let (dl, il) = rd(nl)?;
            let (dr, ir) = rd(nr)?;
            if dl != d || dr != d {
                return Err(format!("{} changed the data type", head()));
            }
            if !d.within(il.lo, il.hi, a) {
                return Err(format!("{} = ({nl}, {nr}) removes left value {} although {why}", head(), d.show(a)));
            }
            if !d.within(ir.lo, ir.hi, b) {
                return Err(format!("{} = ({nl}, {nr}) removes right value {} although {why}", head(), d.show(b)));
            }
            Ok(())
        }
    }
}

fn shrunk(d: D, res: &Option<(Interval, Interval)>, l: &Iv, r: &Iv) -> bool {
    match res {
        None => true,
        Some((nl, nr)) => {
            let same = |x: &Interval, m: &Iv| mk(d, m).map(|mi| &mi == x).unwrap_or(false);
            !(same(nl, l) && same(nr, r))
        }
    }
}

pub fn run_sat(d: D, l: &Iv, r: &Iv, strict: bool, all: bool) -> Result<Stat, String> {
    let (li, ri) = (mk(d, l)?, mk(d, r)?);
    let res = match satisfy_greater(&li, &ri, strict) {
        Ok(x) => x,
        Err(_) => return Ok(Stat { impl_err: true, ..Default::default() }),
    };
    let mut st = Stat { claim: shrunk(d, &res, l, r), ..Default::default() };
    let op = if strict { "Gt" } else { "GtEq" };
    let head = || format!("satisfy_greater({}, {}, strict={strict})", d.show_iv(l), d.show_iv(r));
    for a in d.members(l, all) {
        for b in d.members(r, all) {
            if cmp_truth(d, op, a, b) {
                st.checks += 1;
                retained(&head, d, &res, a, b, &format!("{} {} {}", d.show(a), if strict { ">" } else { ">=" }, d.show(b)))?;
            }
        }
    }
    Ok(st)
}

pub const PC_OPS: [&str; 5] = ["Eq", "Lt", "LtEq", "Gt", "GtEq"];

/// parent: 0 = FALSE, 1 = TRUE.  (For an uncertain parent, and for `=` under a
/// FALSE parent, the function documents `None` as "cannot propagate"; those
/// are observed through the expression graph instead, where `None` is
/// unambiguous.)
pub fn run_pcmp(d: D, op: &str, parent: u8, l: &Iv, r: &Iv, all: bool) -> Result<Stat, String> {
    let (li, ri) = (mk(d, l)?, mk(d, r)?);
    let opr = operator(op)?;
    if parent > 1 || (parent == 0 && op == "Eq") {
        return Err("harness: this parent/operator combination has no infeasibility reading".into());
    }
    let res = match propagate_comparison(&opr, &bool_iv(parent), &li, &ri) {
        Ok(x) => x,
        Err(_) => return Ok(Stat { impl_err: true, ..Default::default() }),
    };
    let mut st = Stat { claim: shrunk(d, &res, l, r), ..Default::default() };
    let head = || format!("propagate_comparison({op}, parent={}, {}, {})", bool_iv(parent), d.show_iv(l), d.show_iv(r));
    let want = bool_members(parent);
    for a in d.members(l, all) {
        for b in d.members(r, all) {
            let t = cmp_truth(d, op, a, b);
            if want.contains(&t) {
                st.checks += 1;
                retained(&head, d, &res, a, b, &format!("({} {op} {}) is {t}", d.show(a), d.show(b)))?;
            }
        }
    }
    Ok(st)
}

pub fn run_parith(d: D, op: &str, parent: &Iv, l: &Iv, r: &Iv, all: bool) -> Result<Stat, String> {
    let (pi, li, ri) = (mk(d, parent)?, mk(d, l)?, mk(d, r)?);
    let opr = operator(op)?;
    let ar = arith_of(op).ok_or("harness: not arithmetic")?;
    let res = match propagate_arithmetic(&opr, &pi, &li, &ri) {
        Ok(x) => x,
        Err(_) => return Ok(Stat { impl_err: true, ..Default::default() }),
    };
    let mut st = Stat { claim: shrunk(d, &res, l, r), ..Default::default() };
    let head = || format!("propagate_arithmetic({op}, parent={}, {}, {})", d.show_iv(parent), d.show_iv(l), d.show_iv(r));
    for a in d.members(l, all) {
        for b in d.members(r, all) {
            let Some(v) = d.arith(ar, a, b) else { continue };
            if d.member(parent, v) {
                st.checks += 1;
                retained(&head, d, &res, a, b, &format!("{} {op} {} = {} lies in the parent range", d.show(a), d.show(b), d.show(v)))?;
            }
        }
    }
    Ok(st)
}
