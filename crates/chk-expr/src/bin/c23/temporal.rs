//! Timestamp(ms) ± Duration(ms), Timestamp − Timestamp, Timestamp(ms) ±
//! IntervalDayTime (no time zone: one day is 86 400 000 ms), and the
//! special-cased `propagate_arithmetic` for a timestamp with a day-time
//! interval, on a small grid.
use super::num::Stat;
use arrow::datatypes::IntervalDayTime;
use datafusion_common::ScalarValue;
use datafusion_expr_common::interval_arithmetic::{Interval, apply_operator};
use datafusion_expr_common::operator::Operator;
use datafusion_physical_expr::intervals::cp_solver::propagate_arithmetic;
use serde::{Deserialize, Serialize};

const DAY: i128 = 86_400_000;

type I = (Option<i64>, Option<i64>); // model interval of i64 ticks
type DT = (i32, i32); // (days, ms)
type IDT = (Option<DT>, Option<DT>);

#[derive(Serialize, Deserialize, Clone, Debug, Hash)]
pub enum TCase {
    TsDur { minus: bool, ts: I, dur: I },
    TsTs { l: I, r: I },
    TsIdt { minus: bool, ts: I, idt: IDT },
    PropTsIdt { minus: bool, parent: I, ts: I, idt: IDT },
}

pub fn class_key(t: &TCase) -> String {
    match t {
        TCase::TsDur { minus: true, .. } | TCase::TsIdt { minus: true, .. } => "Interval::apply_operator/Minus/timestamp-with-duration-or-daytime".into(),
        TCase::TsDur { .. } => "Interval::apply_operator/Plus/timestamp-duration".into(),
        TCase::TsTs { .. } => "Interval::apply_operator/Minus/timestamp-timestamp".into(),
        TCase::TsIdt { .. } => "Interval::apply_operator/Plus/timestamp-daytime".into(),
        TCase::PropTsIdt { minus, .. } => format!("propagate_arithmetic/{}/timestamp-daytime", if *minus { "Minus" } else { "Plus" }),
    }
}

fn ts(v: Option<i64>) -> ScalarValue {
    ScalarValue::TimestampMillisecond(v, None)
}
fn dur(v: Option<i64>) -> ScalarValue {
    ScalarValue::DurationMillisecond(v)
}
fn idt(v: Option<DT>) -> ScalarValue {
    ScalarValue::IntervalDayTime(v.map(|(d, m)| IntervalDayTime { days: d, milliseconds: m }))
}
fn mk(lo: ScalarValue, hi: ScalarValue) -> Result<Interval, String> {
    Interval::try_new(lo, hi).map_err(|e| format!("harness: cannot construct interval: {e}"))
}
fn ticks(sv: &ScalarValue) -> Result<Option<i64>, String> {
    match sv {
        ScalarValue::TimestampMillisecond(v, _) | ScalarValue::DurationMillisecond(v) => Ok(*v),
        _ => Err(format!("unexpected result endpoint {sv:?}")),
    }
}
fn within(res: &Interval, v: i128) -> Result<bool, String> {
    let (lo, hi) = (ticks(res.lower())?, ticks(res.upper())?);
    Ok(lo.map_or(true, |l| l as i128 <= v) && hi.map_or(true, |h| v <= h as i128))
}
fn fits(v: i128) -> bool {
    v >= i64::MIN as i128 && v <= i64::MAX as i128
}

fn members(iv: &I) -> Vec<i64> {
    let (l, h) = (iv.0.unwrap_or(i64::MIN), iv.1.unwrap_or(i64::MAX));
    let mut c: Vec<i128> = vec![];
    for e in [l as i128, h as i128, 0] {
        for d in -2..=2 {
            c.push(e + d);
        }
    }
    c.extend([-(DAY), DAY, -1000, 1000, 1_600_000_000_000, i64::MIN as i128, i64::MAX as i128]);
    let mut out: Vec<i64> = c.into_iter().filter(|v| *v >= l as i128 && *v <= h as i128).map(|v| v as i64).collect();
    out.sort();
    out.dedup();
    out
}

/// (normalised members, non-normalised members) of a day-time range in the
/// engine's (days, ms) lexicographic order. Normalised = |ms| < one day and no
/// mixed signs (on those the lexicographic order agrees with the duration).
fn idt_members(iv: &IDT) -> (Vec<DT>, Vec<DT>) {
    let mut c: Vec<DT> = vec![];
    for d in [-2, -1, 0, 1, 2, i32::MIN, i32::MAX] {
        for m in [-86_399_999, -1000, -1, 0, 1, 1000, 86_399_999, 86_400_000, 100_000_000, -100_000_000] {
            c.push((d, m));
        }
    }
    for e in [iv.0, iv.1].into_iter().flatten() {
        for k in -1..=1i64 {
            let m = e.1 as i64 + k;
            if m >= i32::MIN as i64 && m <= i32::MAX as i64 {
                c.push((e.0, m as i32));
            }
        }
    }
    c.retain(|v| iv.0.map_or(true, |l| l <= *v) && iv.1.map_or(true, |h| *v <= h));
    c.sort();
    c.dedup();
    // normalised: less than a day of milliseconds, with the sign of the day part
    c.into_iter().partition(|v| (v.1 as i128).abs() < DAY && (v.0 == 0 || v.1 == 0 || (v.0 > 0) == (v.1 > 0)))
}
/// Timestamp ± day-time interval goes through calendar arithmetic in the
/// engine, which only works inside chrono's date range (about ±262 000 years);
/// outside of it the engine's operator itself fails, so there is no demand.
fn chrono_safe(v: i128) -> bool {
    v.abs() <= 4_000_000_000_000_000
}
fn idt_ms(v: DT) -> i128 {
    v.0 as i128 * DAY + v.1 as i128
}

pub fn run(t: &TCase) -> Result<Stat, String> {
    let mut st = Stat::default();
    match t {
        TCase::TsDur { minus, ts: a, dur: b } => {
            let (ai, bi) = (mk(ts(a.0), ts(a.1))?, mk(dur(b.0), dur(b.1))?);
            let op = if *minus { Operator::Minus } else { Operator::Plus };
            let res = match apply_operator(&op, &ai, &bi) {
                Ok(r) => r,
                Err(_) => return Ok(Stat { impl_err: true, ..Default::default() }),
            };
            st.claim = !res.lower().is_null() || !res.upper().is_null();
            for x in members(a) {
                for y in members(b) {
                    let v = if *minus { x as i128 - y as i128 } else { x as i128 + y as i128 };
                    if !fits(v) {
                        continue;
                    }
                    st.checks += 1;
                    if !within(&res, v)? {
                        return Err(format!("apply_operator({op}, {ai}, {bi}) = {res} does not contain {x} {op} {y} = {v}"));
                    }
                }
            }
        }
        TCase::TsTs { l, r } => {
            let (ai, bi) = (mk(ts(l.0), ts(l.1))?, mk(ts(r.0), ts(r.1))?);
            let res = match apply_operator(&Operator::Minus, &ai, &bi) {
                Ok(r) => r,
                Err(_) => return Ok(Stat { impl_err: true, ..Default::default() }),
            };
            st.claim = !res.lower().is_null() || !res.upper().is_null();
            for x in members(l) {
                for y in members(r) {
                    let v = x as i128 - y as i128;
                    if !fits(v) {
                        continue;
                    }
                    st.checks += 1;
                    if !within(&res, v)? {
                        return Err(format!("apply_operator(-, {ai}, {bi}) = {res} does not contain {x} - {y} = {v}"));
                    }
                }
            }
        }
        TCase::TsIdt { minus, ts: a, idt: b } => {
            let (ai, bi) = (mk(ts(a.0), ts(a.1))?, mk(idt(b.0), idt(b.1))?);
            let op = if *minus { Operator::Minus } else { Operator::Plus };
            let res = match apply_operator(&op, &ai, &bi) {
                Ok(r) => r,
                Err(_) => return Ok(Stat { impl_err: true, ..Default::default() }),
            };
            st.claim = !res.lower().is_null() || !res.upper().is_null();
            let (norm, denorm) = idt_members(b);
            for x in members(a) {
                if !chrono_safe(x as i128) {
                    continue;
                }
                for y in &norm {
                    let v = if *minus { x as i128 - idt_ms(*y) } else { x as i128 + idt_ms(*y) };
                    if !chrono_safe(v) {
                        continue;
                    }
                    st.checks += 1;
                    if !within(&res, v)? {
                        return Err(format!("apply_operator({op}, {ai}, {bi}) = {res} does not contain {x} {op} {y:?}(days, ms) = {v}"));
                    }
                }
                for y in &denorm {
                    let v = if *minus { x as i128 - idt_ms(*y) } else { x as i128 + idt_ms(*y) };
                    if chrono_safe(v) && !within(&res, v)? {
                        st.zero_gap += 1; // reported as an observation counter, see `temporal.non_normalised…`
                    }
                }
            }
        }
        TCase::PropTsIdt { minus, parent, ts: a, idt: b } => {
            let (pi, ai, bi) = (mk(ts(parent.0), ts(parent.1))?, mk(ts(a.0), ts(a.1))?, mk(idt(b.0), idt(b.1))?);
            let op = if *minus { Operator::Minus } else { Operator::Plus };
            let res = match propagate_arithmetic(&op, &pi, &ai, &bi) {
                Ok(r) => r,
                Err(_) => return Ok(Stat { impl_err: true, ..Default::default() }),
            };
            st.claim = match &res {
                None => true,
                Some((x, y)) => x != &ai || y != &bi,
            };
            let (norm, _) = idt_members(b);
            for x in members(a) {
                if !chrono_safe(x as i128) {
                    continue;
                }
                for y in &norm {
                    let v = if *minus { x as i128 - idt_ms(*y) } else { x as i128 + idt_ms(*y) };
                    if !chrono_safe(v) || !(parent.0.map_or(true, |l| l as i128 <= v) && parent.1.map_or(true, |h| v <= h as i128)) {
                        continue;
                    }
                    st.checks += 1;
                    let head = || format!("propagate_arithmetic({op}, parent={pi}, {ai}, {bi})");
                    match &res {
                        None => return Err(format!("{} = None (infeasible) but {x} {op} {y:?}(days, ms) = {v} lies in the parent range", head())),
                        Some((nl, nr)) => {
                            if !within(nl, x as i128)? {
                                return Err(format!("{} = ({nl}, {nr}) removes timestamp {x} although {x} {op} {y:?} = {v} lies in the parent range", head()));
                            }
                            let (lo, hi) = match (nr.lower(), nr.upper()) {
                                (ScalarValue::IntervalDayTime(l), ScalarValue::IntervalDayTime(h)) => (l.map(|v| (v.days, v.milliseconds)), h.map(|v| (v.days, v.milliseconds))),
                                _ => return Err(format!("{} returned a right interval of another type: {nr}", head())),
                            };
                            if !(lo.map_or(true, |l| l <= *y) && hi.map_or(true, |h| *y <= h)) {
                                return Err(format!("{} = ({nl}, {nr}) removes interval value {y:?}(days, ms) although {x} {op} {y:?} = {v} lies in the parent range", head()));
                            }
                        }
                    }
                }
            }
        }
    }
    Ok(st)
}

fn ivs(points: &[i64]) -> Vec<I> {
    let mut out = vec![];
    for (i, l) in points.iter().enumerate() {
        for h in &points[i..] {
            out.push((Some(*l), Some(*h)));
        }
    }
    for p in points {
        out.push((None, Some(*p)));
        out.push((Some(*p), None));
    }
    out.push((None, None));
    out
}

pub fn cases(thorough: bool) -> Vec<TCase> {
    let tpts: Vec<i64> = if thorough { vec![i64::MIN, i64::MIN + 1, -1, 0, 1_600_000_000_000, i64::MAX - 1, i64::MAX] } else { vec![i64::MIN, 0, 1_600_000_000_000, i64::MAX] };
    let dpts: Vec<i64> = if thorough { vec![i64::MIN, -86_400_000, -1, 0, 1, 86_400_000, i64::MAX] } else { vec![i64::MIN, -1, 0, 86_400_000, i64::MAX] };
    let ipts: Vec<DT> = vec![(-1, 0), (0, -1000), (0, 0), (0, 1000), (0, 86_399_999), (1, 0), (2, 500)];
    let (tiv, div) = (ivs(&tpts), ivs(&dpts));
    let mut iiv: Vec<IDT> = vec![];
    for (i, l) in ipts.iter().enumerate() {
        for h in &ipts[i..] {
            iiv.push((Some(*l), Some(*h)));
        }
    }
    for p in &ipts {
        iiv.push((None, Some(*p)));
        iiv.push((Some(*p), None));
    }
    iiv.push((None, None));
    let mut out = vec![];
    for a in &tiv {
        for b in &div {
            for minus in [false, true] {
                out.push(TCase::TsDur { minus, ts: *a, dur: *b });
            }
        }
        for b in &tiv {
            out.push(TCase::TsTs { l: *a, r: *b });
        }
        for b in &iiv {
            for minus in [false, true] {
                out.push(TCase::TsIdt { minus, ts: *a, idt: *b });
            }
        }
    }
    let small_t = ivs(&[0, 1000, 1_600_000_000_000]);
    for p in &small_t {
        for a in &small_t {
            for b in &iiv {
                for minus in [false, true] {
                    out.push(TCase::PropTsIdt { minus, parent: *p, ts: *a, idt: *b });
                }
            }
        }
    }
    out
}
