//! `NullableInterval`: members now include NULL; the SQL three-valued result
//! of the member operation must be contained in the result.
use super::dom::{C, D, Iv};
use super::num::{ARITH_OPS, Stat, arith_of, arith_value, bool_in, bool_iv, bool_members, cmp_truth, mk, operator, rd, rd_bool};
use datafusion_common::ScalarValue;
use datafusion_expr_common::interval_arithmetic::NullableInterval;
use serde::{Deserialize, Serialize};

#[derive(Serialize, Deserialize, Clone, Copy, Hash, Debug, PartialEq, Eq)]
pub enum NK {
    Null,
    Maybe,
    NotNull,
}

/// numeric nullable interval in the model
#[derive(Serialize, Deserialize, Clone, Copy, Hash, Debug, PartialEq, Eq)]
pub struct NIv {
    pub k: NK,
    pub iv: Iv,
}
/// boolean nullable interval in the model (b: 0 = {F}, 1 = {T}, 2 = {F,T})
#[derive(Serialize, Deserialize, Clone, Copy, Hash, Debug, PartialEq, Eq)]
pub struct NB {
    pub k: NK,
    pub b: u8,
}

pub fn mkn(d: D, x: &NIv) -> Result<NullableInterval, String> {
    Ok(match x.k {
        NK::Null => NullableInterval::Null { datatype: d.sv(None).data_type() },
        NK::Maybe => NullableInterval::MaybeNull { values: mk(d, &x.iv)? },
        NK::NotNull => NullableInterval::NotNull { values: mk(d, &x.iv)? },
    })
}
pub fn mkb(x: &NB) -> NullableInterval {
    match x.k {
        NK::Null => NullableInterval::Null { datatype: arrow::datatypes::DataType::Boolean },
        NK::Maybe => NullableInterval::MaybeNull { values: bool_iv(x.b) },
        NK::NotNull => NullableInterval::NotNull { values: bool_iv(x.b) },
    }
}
pub fn nmembers(d: D, x: &NIv, all: bool) -> Vec<Option<C>> {
    let mut out = vec![];
    if x.k != NK::NotNull {
        out.push(None);
    }
    if x.k != NK::Null {
        out.extend(d.members(&x.iv, all).into_iter().map(Some));
    }
    out
}
pub fn bmembers(x: &NB) -> Vec<Option<bool>> {
    let mut out = vec![];
    if x.k != NK::NotNull {
        out.push(None);
    }
    if x.k != NK::Null {
        out.extend(bool_members(x.b).into_iter().map(Some));
    }
    out
}
pub fn show_n(d: D, x: &NIv) -> String {
    match x.k {
        NK::Null => format!("Null({d:?})"),
        NK::Maybe => format!("MaybeNull{}", d.show_iv(&x.iv)),
        NK::NotNull => format!("NotNull{}", d.show_iv(&x.iv)),
    }
}

fn may_be_null(r: &NullableInterval) -> bool {
    !matches!(r, NullableInterval::NotNull { .. })
}

/// Does the boolean nullable result contain the three-valued truth `t`?
fn nb_contains(r: &NullableInterval, t: Option<bool>) -> Result<bool, String> {
    Ok(match t {
        None => may_be_null(r),
        Some(t) => match r.values() {
            None => false,
            Some(v) => bool_in(rd_bool(v)?, t),
        },
    })
}

pub const N_OPS: [&str; 12] = [
    "Plus", "Minus", "Multiply", "Divide", "Eq", "NotEq", "Lt", "LtEq", "Gt", "GtEq", "IsDistinctFrom", "IsNotDistinctFrom",
];

pub fn run_nbin(d: D, op: &str, l: &NIv, r: &NIv, all: bool) -> Result<Stat, String> {
    let (li, ri) = (mkn(d, l)?, mkn(d, r)?);
    let opr = operator(op)?;
    let res = match li.apply_operator(&opr, &ri) {
        Ok(x) => x,
        Err(_) => return Ok(Stat { impl_err: true, ..Default::default() }),
    };
    let mut st = Stat::default();
    let (ml, mr) = (nmembers(d, l, all), nmembers(d, r, all));
    let desc = |a: Option<C>, b: Option<C>| format!("{} {op} {}", a.map(|a| d.show(a)).unwrap_or("NULL".into()), b.map(|b| d.show(b)).unwrap_or("NULL".into()));
    let head = || format!("{}.apply_operator({op}, {}) = {res}", show_n(d, l), show_n(d, r));
    if let Some(ar) = arith_of(op) {
        // numeric result
        let vals = match res.values() {
            Some(v) => Some(rd(v)?),
            None => None,
        };
        st.claim = match &vals {
            None => true,
            Some((_, iv)) => iv.lo.is_some() || iv.hi.is_some() || !may_be_null(&res),
        };
        for &a in &ml {
            for &b in &mr {
                match (a, b) {
                    (Some(x), Some(y)) => {
                        let Some((rdm, riv)) = &vals else {
                            // result is certainly NULL although both operands are non-null:
                            // only wrong if the operation has a representable result
                            if arith_value(d, d, d, ar, x, y).is_some() {
                                return Err(format!("{} (certainly NULL) but {} is not NULL", head(), desc(a, b)));
                            }
                            continue;
                        };
                        let Some(v) = arith_value(d, d, *rdm, ar, x, y) else { continue };
                        st.checks += 1;
                        if !rdm.within(riv.lo, riv.hi, v) {
                            return Err(format!("@value@{} does not contain {} = {}", head(), desc(a, b), rdm.show(v)));
                        }
                    }
                    _ => {
                        st.checks += 1;
                        if !may_be_null(&res) {
                            return Err(format!("{} (never NULL) but {} is NULL", head(), desc(a, b)));
                        }
                    }
                }
            }
        }
    } else {
        st.claim = res != NullableInterval::ANY_TRUTH_VALUE;
        for &a in &ml {
            for &b in &mr {
                let t: Option<bool> = match op {
                    "IsDistinctFrom" | "IsNotDistinctFrom" => {
                        let distinct = match (a, b) {
                            (None, None) => false,
                            (Some(x), Some(y)) => cmp_truth(d, "NotEq", x, y),
                            _ => true,
                        };
                        Some(if op == "IsDistinctFrom" { distinct } else { !distinct })
                    }
                    _ => match (a, b) {
                        (Some(x), Some(y)) => Some(cmp_truth(d, op, x, y)),
                        _ => None,
                    },
                };
                st.checks += 1;
                if !nb_contains(&res, t)? {
                    // a wrong truth value for two non-null members is the plain
                    // Interval comparison's business (same root cause, same class)
                    let tag = if a.is_some() && b.is_some() && !op.starts_with("Is") { "@value@" } else { "" };
                    return Err(format!("{tag}{} does not contain {} = {}", head(), desc(a, b), show_t(t)));
                }
            }
        }
    }
    let _ = ARITH_OPS;
    Ok(st)
}

fn show_t(t: Option<bool>) -> &'static str {
    match t {
        None => "NULL",
        Some(true) => "true",
        Some(false) => "false",
    }
}
fn and3(a: Option<bool>, b: Option<bool>) -> Option<bool> {
    match (a, b) {
        (Some(false), _) | (_, Some(false)) => Some(false),
        (Some(true), Some(true)) => Some(true),
        _ => None,
    }
}
fn or3(a: Option<bool>, b: Option<bool>) -> Option<bool> {
    match (a, b) {
        (Some(true), _) | (_, Some(true)) => Some(true),
        (Some(false), Some(false)) => Some(false),
        _ => None,
    }
}

pub const NBOOL_BIN: [&str; 8] = ["and", "or", "apply_And", "apply_Or", "apply_Eq", "apply_NotEq", "apply_IsDistinctFrom", "apply_IsNotDistinctFrom"];
pub const NBOOL_UN: [&str; 5] = ["not", "is_true", "is_false", "is_unknown", "single_value"];

pub fn run_nbool_bin(f: &str, l: &NB, r: &NB) -> Result<Stat, String> {
    let (li, ri) = (mkb(l), mkb(r));
    let res = match f {
        "and" => li.and(&ri),
        "or" => li.or(&ri),
        _ => li.apply_operator(&operator(&f["apply_".len()..])?, &ri),
    };
    let res = match res {
        Ok(x) => x,
        Err(_) => return Ok(Stat { impl_err: true, ..Default::default() }),
    };
    let mut st = Stat { claim: res != NullableInterval::ANY_TRUTH_VALUE, ..Default::default() };
    for a in bmembers(l) {
        for b in bmembers(r) {
            let t = match f {
                "and" | "apply_And" => and3(a, b),
                "or" | "apply_Or" => or3(a, b),
                "apply_Eq" => a.zip(b).map(|(a, b)| a == b),
                "apply_NotEq" => a.zip(b).map(|(a, b)| a != b),
                "apply_IsDistinctFrom" => Some(a != b),
                "apply_IsNotDistinctFrom" => Some(a == b),
                _ => return Err(format!("harness: unknown nullable bool fn {f}")),
            };
            st.checks += 1;
            if !nb_contains(&res, t)? {
                return Err(format!("({li}) {f} ({ri}) = {res} does not contain {} {f} {} = {}", show_t(a), show_t(b), show_t(t)));
            }
        }
    }
    Ok(st)
}

pub fn run_nbool_un(f: &str, x: &NB) -> Result<Stat, String> {
    let xi = mkb(x);
    let mut st = Stat::default();
    if f == "single_value" {
        st.checks = 1;
        if let Some(v) = xi.single_value() {
            st.claim = true;
            for a in bmembers(x) {
                let same = match (&v, a) {
                    (ScalarValue::Boolean(None), None) => true,
                    (ScalarValue::Boolean(Some(v)), Some(a)) => *v == a,
                    _ => false,
                };
                if !same {
                    return Err(format!("({xi}).single_value() = Some({v}) but {} is also a possible value", show_t(a)));
                }
            }
        }
        return Ok(st);
    }
    let res = match f {
        "not" => xi.not(),
        "is_true" => xi.is_true(),
        "is_false" => xi.is_false(),
        "is_unknown" => xi.is_unknown(),
        _ => return Err(format!("harness: unknown nullable bool fn {f}")),
    };
    let res = match res {
        Ok(x) => x,
        Err(_) => return Ok(Stat { impl_err: true, ..Default::default() }),
    };
    st.claim = res != NullableInterval::ANY_TRUTH_VALUE;
    for a in bmembers(x) {
        let t = match f {
            "not" => a.map(|a| !a),
            "is_true" => Some(a == Some(true)),
            "is_false" => Some(a == Some(false)),
            _ => Some(a.is_none()),
        };
        st.checks += 1;
        if !nb_contains(&res, t)? {
            return Err(format!("({xi}).{f}() = {res} does not contain {f}({}) = {}", show_t(a), show_t(t)));
        }
    }
    // the certainly_* shortcuts must agree with the membership reading
    let certain = match f {
        "is_true" => Some((xi.is_certainly_true(), Some(true))),
        "is_false" => Some((xi.is_certainly_false(), Some(false))),
        "is_unknown" => Some((xi.is_certainly_unknown(), None)),
        _ => None,
    };
    if let Some((claimed, want)) = certain {
        if claimed {
            for a in bmembers(x) {
                if a != want {
                    return Err(format!("({xi}) claims to be certainly {} but {} is a possible value", show_t(want), show_t(a)));
                }
            }
        }
    }
    Ok(st)
}

pub const N_UN: [&str; 2] = ["single_value", "contains_value"];

pub fn run_nun(d: D, f: &str, x: &NIv, all: bool) -> Result<Stat, String> {
    let xi = mkn(d, x)?;
    let mut st = Stat::default();
    match f {
        "single_value" => {
            st.checks = 1;
            if let Some(v) = xi.single_value() {
                st.claim = true;
                let (vd, vc) = match D::of_sv(&v) {
                    Some(x) => x,
                    None if v.is_null() => (d, None),
                    None => return Err(format!("single_value returned {v:?}")),
                };
                for a in nmembers(d, x, all) {
                    let same = vd == d && a == vc || (v.is_null() && a.is_none());
                    if !same {
                        return Err(format!(
                            "{}.single_value() = Some({v}) but {} is also a possible value",
                            show_n(d, x),
                            a.map(|a| d.show(a)).unwrap_or("NULL".into())
                        ));
                    }
                }
            }
        }
        "contains_value" => {
            st.claim = true;
            let mut probes: Vec<Option<C>> = vec![None];
            probes.extend(d.members(&Iv { lo: None, hi: None }, false).into_iter().map(Some));
            for p in probes {
                let want = match p {
                    None => x.k != NK::NotNull,
                    Some(v) => x.k != NK::Null && d.member(&x.iv, v),
                };
                let got = match xi.contains_value(d.sv(p)) {
                    Ok(g) => g,
                    Err(_) => return Ok(Stat { impl_err: true, ..Default::default() }),
                };
                st.checks += 1;
                if got != want {
                    return Err(format!("{}.contains_value({}) = {got}", show_n(d, x), d.sv(p)));
                }
            }
        }
        _ => return Err(format!("harness: unknown nullable fn {f}")),
    }
    Ok(st)
}
