//! C23 — interval arithmetic and constraint propagation are sound.
//!
//! Bounded-exhaustive: every well-formed interval over a per-type endpoint menu
//! (type extremes, values around zero, overflow edges of `*`, float specials,
//! unbounded ends), every pair of them, every operator / set operation /
//! propagation function of `datafusion_expr_common::interval_arithmetic` and
//! `datafusion_physical_expr::intervals::cp_solver`; each result is compared
//! member by member with an independent model (`c23/dom.rs`): exact `i128`
//! integer arithmetic, native IEEE float arithmetic, SQL three-valued logic.
//!
//! The oracle only demands *soundness*: the result must contain what the member
//! operation produces whenever that is representable; "infeasible" only when no
//! member assignment satisfies the constraint; propagation must keep every
//! satisfying assignment. Over-approximation and `Err` are never violations.
#[path = "c23/dom.rs"]
mod dom;
#[path = "c23/graph.rs"]
mod graph;
#[path = "c23/nullable.rs"]
mod nullable;
#[path = "c23/num.rs"]
mod num;
#[path = "c23/prop.rs"]
mod prop;
#[path = "c23/temporal.rs"]
mod temporal;

use dom::{D, Iv};
use graph::{E, Given};
use mc_core::serde_json::{Value, json};
use mc_core::{Ctx, Level, rayon::prelude::*, run_check};
use nullable::{NB, NIv, NK};
use num::Stat;
use serde::{Deserialize, Serialize};
use std::collections::BTreeMap;
use std::sync::Mutex;
use std::sync::atomic::{AtomicU64, Ordering};

#[derive(Serialize, Deserialize, Clone, Debug, Hash)]
#[serde(tag = "part")]
enum Case {
    Bin { dl: D, dr: D, op: String, l: Iv, r: Iv, all: bool },
    Set { dl: D, dr: D, f: String, l: Iv, r: Iv },
    Un { d: D, f: String, x: Iv, all: bool },
    Cast { d: D, to: D, x: Iv, all: bool },
    Bool { f: String, l: u8, r: u8 },
    NBin { d: D, op: String, l: NIv, r: NIv, all: bool },
    NBoolBin { f: String, l: NB, r: NB },
    NBoolUn { f: String, x: NB },
    NUn { d: D, f: String, x: NIv, all: bool },
    Sat { d: D, l: Iv, r: Iv, strict: bool, all: bool },
    PCmp { d: D, op: String, parent: u8, l: Iv, r: Iv, all: bool },
    PArith { d: D, op: String, parent: Iv, l: Iv, r: Iv, all: bool },
    Graph { mode: String, e: E, ra: Iv, rb: Iv, given: Given, all: bool },
    Temporal { t: temporal::TCase },
}

fn run_case(c: &Case) -> Result<Stat, String> {
    match c {
        Case::Bin { dl, dr, op, l, r, all } => num::run_bin(*dl, *dr, op, l, r, *all),
        Case::Set { dl, dr, f, l, r } => num::run_set(*dl, *dr, f, l, r),
        Case::Un { d, f, x, all } => num::run_un(*d, f, x, *all),
        Case::Cast { d, to, x, all } => num::run_cast(*d, *to, x, *all),
        Case::Bool { f, l, r } => num::run_bool(f, *l, *r),
        Case::NBin { d, op, l, r, all } => nullable::run_nbin(*d, op, l, r, *all),
        Case::NBoolBin { f, l, r } => nullable::run_nbool_bin(f, l, r),
        Case::NBoolUn { f, x } => nullable::run_nbool_un(f, x),
        Case::NUn { d, f, x, all } => nullable::run_nun(*d, f, x, *all),
        Case::Sat { d, l, r, strict, all } => prop::run_sat(*d, l, r, *strict, *all),
        Case::PCmp { d, op, parent, l, r, all } => prop::run_pcmp(*d, op, *parent, l, r, *all),
        Case::PArith { d, op, parent, l, r, all } => prop::run_parith(*d, op, parent, l, r, *all),
        Case::Graph { mode, e, ra, rb, given, all } => graph::run_graph(mode, e, ra, rb, given, *all),
        Case::Temporal { t } => temporal::run(t),
    }
}

/// Violations are grouped by a coarse class (function / operator / kind of
/// type); the smallest failing case of each class is what gets reported (one
/// replay file per class), and the number of failing cases per class is in the
/// evidence counters.
/// Input-shape signature used to split the classes of the arithmetic
/// operators, so that a failure in a *different* region of the input space
/// than an already known one shows up under a new key.
fn shape(d: D, op: &str, l: &Iv, r: &Iv) -> &'static str {
    if d.is_float() {
        return "any";
    }
    let has0 = |iv: &Iv| d.member(iv, 0);
    let near0 = |iv: &Iv| [iv.lo, iv.hi].into_iter().flatten().any(|e| (-1..=1).contains(&e));
    match op {
        "Multiply" => match (has0(l), has0(r)) {
            (true, true) => "zero-in-both-operands",
            (false, false) => "zero-in-no-operand",
            _ => "zero-in-one-operand",
        },
        "Divide" => {
            if near0(l) || near0(r) {
                "an-endpoint-in-[-1,1]"
            } else {
                "no-endpoint-in-[-1,1]"
            }
        }
        _ => "any",
    }
}

fn class_key(c: &Case, value_failure: bool) -> String {
    match c {
        // a wrong value bound computed by the wrapped plain interval: same root cause, same class
        Case::NBin { d, op, l, r, .. } if value_failure => format!("Interval::apply_operator/{op}/{}/{}", d.class(), shape(*d, op, &l.iv, &r.iv)),
        Case::Bin { dl, dr, op, l, r, .. } => {
            // mixed integer types are coerced first and then take the same code path
            let d = if dl.bits() >= dr.bits() { dl } else { dr };
            format!("Interval::apply_operator/{op}/{}/{}", dl.class(), shape(*d, op, l, r))
        }
        Case::Set { dl, dr, f, .. } => format!("Interval::{f}/{}", if dl == dr { dl.class() } else { "mixed-integer" }),
        Case::Un { d, f, .. } => format!("Interval::{f}/{}", d.class()),
        Case::Cast { d, to, .. } => format!("Interval::cast_to/{}->{}", d.class(), to.class()),
        Case::Bool { f, .. } => format!("Interval(bool)::{f}"),
        Case::NBin { op, .. } if op.starts_with("Is") => "NullableInterval::apply_operator/Is[Not]DistinctFrom".into(),
        Case::NBin { d, op, .. } => format!("NullableInterval::apply_operator/{op}/{}", d.class()),
        Case::NBoolBin { f, .. } if f.starts_with("apply_Is") => "NullableInterval::apply_operator/Is[Not]DistinctFrom".into(),
        Case::NBoolBin { f, .. } => format!("NullableInterval(bool)::{f}"),
        Case::NBoolUn { f, .. } if f == "single_value" => "NullableInterval::single_value".into(),
        Case::NBoolUn { f, .. } => format!("NullableInterval(bool)::{f}"),
        Case::NUn { f, .. } => format!("NullableInterval::{f}"),
        Case::Sat { d, strict, .. } => format!("satisfy_greater/strict={strict}/{}", d.class()),
        Case::PCmp { d, op, parent, .. } => {
            if *parent == 0 {
                "propagate_comparison/parent=FALSE".into()
            } else {
                format!("propagate_comparison/{op}/parent=TRUE/{}", d.class())
            }
        }
        Case::PArith { d, op, l, r, .. } => {
            if d.is_float() {
                format!("propagate_arithmetic/{}/float", if op == "Plus" || op == "Minus" { "PlusMinus" } else { op.as_str() })
            } else if op == "Multiply" {
                format!("propagate_arithmetic/Multiply/integer/{}", shape(*d, op, l, r))
            } else {
                format!("propagate_arithmetic/{op}/integer")
            }
        }
        Case::Graph { mode, e, given, .. } => {
            let g = match given {
                Given::Bool(b) => format!("{b}"),
                Given::Range(_) => "range".into(),
            };
            let mut ops = vec![];
            fn collect(e: &E, out: &mut Vec<String>) {
                if let E::Bin(l, op, r) = e {
                    collect(l, out);
                    out.push(op.clone());
                    collect(r, out);
                }
            }
            collect(e, &mut ops);
            let has = |s: &str| ops.iter().any(|o| o == s);
            let flavour = if has("Divide") {
                "with-divide"
            } else if has("Multiply") {
                "with-multiply"
            } else if has("Or") {
                "with-or"
            } else {
                "plus-minus-compare-and"
            };
            if mode == "update_ranges" && g == "false" {
                // every comparison / conjunction under a FALSE root is affected
                "ExprIntervalGraph::update_ranges/given=false".into()
            } else if mode == "update_ranges" {
                format!("ExprIntervalGraph::{mode}/given={g}/{flavour}")
            } else {
                format!("ExprIntervalGraph::{mode}/{flavour}")
            }
        }
        Case::Temporal { t } => temporal::class_key(t),
    }
}

struct Part<'a> {
    ctx: &'a Ctx,
    name: &'static str,
    cases: AtomicU64,
    checks: AtomicU64,
    claims: AtomicU64,
    errs: AtomicU64,
    zero_gap: AtomicU64,
    fails: Mutex<BTreeMap<String, (u64, (usize, String, String))>>, // class -> (count, smallest (len, json, what))
}

impl<'a> Part<'a> {
    fn new(ctx: &'a Ctx, name: &'static str) -> Self {
        Part {
            ctx,
            name,
            cases: AtomicU64::new(0),
            checks: AtomicU64::new(0),
            claims: AtomicU64::new(0),
            errs: AtomicU64::new(0),
            zero_gap: AtomicU64::new(0),
            fails: Mutex::new(BTreeMap::new()),
        }
    }
    fn stop(&self) -> bool {
        // classes of violations are few; do not let them cut the exploration short
        self.ctx.out_of_time()
    }
    fn go(&self, c: Case) {
        self.ctx.eval();
        self.cases.fetch_add(1, Ordering::Relaxed);
        match mc_core::catch(|| run_case(&c)).unwrap_or_else(Err) {
            Ok(st) => {
                self.checks.fetch_add(st.checks, Ordering::Relaxed);
                self.zero_gap.fetch_add(st.zero_gap, Ordering::Relaxed);
                if st.impl_err {
                    self.errs.fetch_add(1, Ordering::Relaxed);
                }
                if st.claim && st.checks > 0 {
                    self.claims.fetch_add(1, Ordering::Relaxed);
                    self.ctx.nontrivial(&c);
                    if self.ctx.want_sample() && st.checks >= 4 {
                        self.ctx.sample(json!({"case": serde_json::to_value(&c).unwrap(), "member_checks": st.checks}));
                    }
                }
            }
            Err(what) if what.starts_with("harness:") => self.ctx.machinery_error(format!("{what} in case {}", serde_json::to_string(&c).unwrap())),
            Err(what) => {
                let j = serde_json::to_string(&c).unwrap();
                let (value_failure, what) = match what.strip_prefix("@value@") {
                    Some(w) => (true, w.to_string()),
                    None => (false, what),
                };
                let cand = (j.len(), j, what);
                let mut f = self.fails.lock().unwrap();
                let e = f.entry(class_key(&c, value_failure)).or_insert_with(|| (0, cand.clone()));
                e.0 += 1;
                if cand < e.1 {
                    e.1 = cand;
                }
            }
        }
    }
    fn finish(self) {
        let n = self.name;
        if std::env::var("C23_TIMING").is_ok() {
            eprintln!("part {n}: done at {:.1}s, {} cases", self.ctx.elapsed().as_secs_f64(), self.cases.load(Ordering::Relaxed));
        }
        self.ctx.count(&format!("{n}.cases"), self.cases.load(Ordering::Relaxed));
        self.ctx.count(&format!("{n}.member_checks"), self.checks.load(Ordering::Relaxed));
        self.ctx.count(&format!("{n}.cases_with_claim"), self.claims.load(Ordering::Relaxed));
        self.ctx.count(&format!("{n}.impl_returned_err"), self.errs.load(Ordering::Relaxed));
        let z = self.zero_gap.load(Ordering::Relaxed);
        if z > 0 {
            if n == "temporal" {
                // observation, not a violation: day-time values whose millisecond part is a day or
                // more / has the opposite sign are ordered lexicographically by the engine, so they
                // are members of a range although their duration lies outside of it
                self.ctx.count("temporal.non_normalised_daytime_member_outside_result", z);
            } else {
                self.ctx.count(&format!("{n}.signed_zero_only_gap"), z);
            }
        }
        let fails = self.fails.into_inner().unwrap();
        for (class, (k, (_, j, what))) in fails {
            let case: Value = serde_json::from_str(&j).unwrap();
            self.ctx.violation(class.clone(), what, case);
            self.ctx.count(&format!("failing_cases[{class}]"), k);
        }
    }
}

fn pairs<'a>(a: &'a [Iv], b: &'a [Iv]) -> impl ParallelIterator<Item = (Iv, Iv)> + 'a {
    a.par_iter().flat_map_iter(move |x| b.iter().map(move |y| (*x, *y)))
}

fn explore(ctx: &Ctx) {
    let t = ctx.thorough();
    let full: Vec<D> = if t { vec![D::I8, D::U8, D::I16, D::U16, D::I32, D::U32, D::I64, D::U64, D::F32, D::F64] } else { vec![D::I8, D::U8, D::I64, D::U64, D::F32, D::F64] };
    let mixed: Vec<(D, D)> = vec![(D::I8, D::I16), (D::I8, D::I64), (D::U8, D::I8), (D::U8, D::I64), (D::I32, D::I64), (D::U32, D::I64)];
    let all_of = |d: D| t && d.bits() == 8;
    ctx.set_extra(
        "bounds",
        json!({
            "full_menu_domains": full.iter().map(|d| format!("{d:?}")).collect::<Vec<_>>(),
            "endpoints_per_domain": full.iter().map(|d| (format!("{d:?}"), d.endpoints(false).iter().map(|c| d.show(*c)).collect::<Vec<_>>())).collect::<BTreeMap<_, _>>(),
            "intervals_per_domain": full.iter().map(|d| (format!("{d:?}"), d.intervals(false).len())).collect::<BTreeMap<_, _>>(),
            "small_menu_intervals": D::I8.intervals(true).len(),
            "members": if t { "8-bit domains: every value of each interval; others: values within 3 steps of each endpoint / of zero / type extremes plus a fixed grid" } else { "values within 3 steps of each endpoint / of zero / type extremes plus a fixed grid (floats: 2 ulp steps, grid incl. subnormals, MAX, +-inf on unbounded sides)" },
            "mixed_type_pairs": mixed.iter().map(|(a, b)| format!("{a:?}x{b:?}")).collect::<Vec<_>>(),
            "graph": {"columns": "a, b: Int8", "depth": 2, "literals": if t { "0,1,-2,100" } else { "0,1,-2" },
                      "range_menu": graph::range_menu(t).iter().map(|iv| D::I8.show_iv(iv)).collect::<Vec<_>>()},
        }),
    );
    ctx.assume("float comparison follows IEEE totalOrder (arrow kernels / ScalarValue ordering); arithmetic results are accepted by numeric (IEEE <=) containment");
    ctx.assume("an unbounded end of an integer interval denotes the type extreme; an unbounded end of a float interval includes the infinity of that side");
    ctx.assume("member results that are not representable (integer overflow, division by zero, NaN) carry no demand");

    // ---- 1. binary operators on plain intervals
    {
        let p = Part::new(ctx, "bin");
        for &d in &full {
            let ivs = d.intervals(false);
            let all = all_of(d);
            pairs(&ivs, &ivs).for_each(|(l, r)| {
                if p.stop() {
                    return;
                }
                for op in num::ARITH_OPS.iter().chain(num::CMP_OPS.iter()) {
                    p.go(Case::Bin { dl: d, dr: d, op: op.to_string(), l, r, all });
                }
            });
        }
        for &(dl, dr) in &mixed {
            for (dl, dr) in [(dl, dr), (dr, dl)] {
                let (il, ir) = (dl.intervals(true), dr.intervals(true));
                pairs(&il, &ir).for_each(|(l, r)| {
                    if p.stop() {
                        return;
                    }
                    for op in ["Multiply", "Divide", "Eq", "NotEq"] {
                        p.go(Case::Bin { dl, dr, op: op.to_string(), l, r, all: false });
                    }
                });
            }
        }
        p.finish();
    }
    // ---- 2. set operations
    {
        let p = Part::new(ctx, "set");
        for &d in &full {
            let ivs = d.intervals(false);
            pairs(&ivs, &ivs).for_each(|(l, r)| {
                for f in num::SET_FNS {
                    p.go(Case::Set { dl: d, dr: d, f: f.to_string(), l, r });
                }
            });
        }
        for &(dl, dr) in &mixed {
            for (dl, dr) in [(dl, dr), (dr, dl)] {
                let (il, ir) = (dl.intervals(true), dr.intervals(true));
                pairs(&il, &ir).for_each(|(l, r)| {
                    for f in ["intersect", "union", "contains"] {
                        p.go(Case::Set { dl, dr, f: f.to_string(), l, r });
                    }
                });
            }
        }
        p.finish();
    }
    // ---- 3. unary functions, casts, boolean intervals
    {
        let p = Part::new(ctx, "unary");
        for &d in &full {
            let ivs = d.intervals(false);
            let all = all_of(d);
            ivs.par_iter().for_each(|x| {
                for f in num::UN_FNS {
                    p.go(Case::Un { d, f: f.to_string(), x: *x, all });
                }
                if !d.is_float() {
                    for to in [D::I8, D::U8, D::I16, D::I32, D::I64, D::U64, D::F32, D::F64] {
                        if to != d {
                            p.go(Case::Cast { d, to, x: *x, all });
                        }
                    }
                }
            });
        }
        for l in 0..3u8 {
            for r in 0..3u8 {
                for f in ["and", "or", "not", "apply_and", "apply_or", "equal"] {
                    p.go(Case::Bool { f: f.to_string(), l, r });
                }
            }
        }
        p.finish();
    }
    // ---- 4. NullableInterval
    {
        let p = Part::new(ctx, "nullable");
        let doms: Vec<D> = if t { vec![D::I8, D::U8, D::I64, D::F32] } else { vec![D::I8, D::U8, D::F32] };
        for &d in &doms {
            let ivs = d.intervals(true);
            let all = all_of(d);
            let mut ns = vec![NIv { k: NK::Null, iv: Iv::new(None, None) }];
            for iv in &ivs {
                ns.push(NIv { k: NK::Maybe, iv: *iv });
                ns.push(NIv { k: NK::NotNull, iv: *iv });
            }
            ns.par_iter().for_each(|l| {
                if p.stop() {
                    return;
                }
                for r in &ns {
                    for op in nullable::N_OPS {
                        p.go(Case::NBin { d, op: op.to_string(), l: *l, r: *r, all });
                    }
                }
                for f in nullable::N_UN {
                    p.go(Case::NUn { d, f: f.to_string(), x: *l, all });
                }
            });
        }
        let mut nbs = vec![NB { k: NK::Null, b: 2 }];
        for b in 0..3u8 {
            nbs.push(NB { k: NK::Maybe, b });
            nbs.push(NB { k: NK::NotNull, b });
        }
        for l in &nbs {
            for r in &nbs {
                for f in nullable::NBOOL_BIN {
                    p.go(Case::NBoolBin { f: f.to_string(), l: *l, r: *r });
                }
            }
            for f in nullable::NBOOL_UN {
                p.go(Case::NBoolUn { f: f.to_string(), x: *l });
            }
        }
        p.finish();
    }
    // ---- 5. satisfy_greater / propagate_comparison
    {
        let p = Part::new(ctx, "prop_cmp");
        let doms: Vec<D> = if t { full.clone() } else { vec![D::I8, D::U8, D::I64, D::F32] };
        for &d in &doms {
            let ivs = d.intervals(false);
            let all = all_of(d);
            pairs(&ivs, &ivs).for_each(|(l, r)| {
                if p.stop() {
                    return;
                }
                for strict in [false, true] {
                    p.go(Case::Sat { d, l, r, strict, all });
                }
                for op in prop::PC_OPS {
                    for parent in [1u8, 0u8] {
                        if parent == 0 && op == "Eq" {
                            continue;
                        }
                        p.go(Case::PCmp { d, op: op.to_string(), parent, l, r, all });
                    }
                }
            });
        }
        p.finish();
    }
    // ---- 6. propagate_arithmetic
    {
        let p = Part::new(ctx, "prop_arith");
        let doms: Vec<D> = if t { vec![D::I8, D::U8, D::I32, D::I64, D::U64, D::F32, D::F64] } else { vec![D::I8, D::U8, D::I64, D::F32] };
        for &d in &doms {
            let ivs = d.intervals(true);
            let parents = if t && d.bits() == 8 { d.intervals(false) } else { d.intervals(true) };
            let all = all_of(d);
            pairs(&ivs, &ivs).for_each(|(l, r)| {
                if p.stop() {
                    return;
                }
                for parent in &parents {
                    for op in num::ARITH_OPS {
                        p.go(Case::PArith { d, op: op.to_string(), parent: *parent, l, r, all });
                    }
                }
            });
        }
        p.finish();
    }
    // ---- 7. expression graphs
    {
        let p = Part::new(ctx, "graph");
        let (bools, ariths) = graph::exprs(t);
        let menu = graph::range_menu(t);
        let given_ranges = [Iv::new(Some(0), Some(0)), Iv::new(Some(1), None), Iv::new(None, Some(-1)), Iv::new(Some(-2), Some(3))];
        ctx.count("graph.boolean_expressions", bools.len() as u64);
        ctx.count("graph.arithmetic_expressions", ariths.len() as u64);
        let all = true; // every value of a range with <= 256 values is enumerated below via members(all)
        bools.par_iter().for_each(|e| {
            if p.stop() {
                return;
            }
            for ra in &menu {
                for rb in &menu {
                    // a column that does not occur is not varied
                    if (!e.has_col(0) && ra != &menu[0]) || (!e.has_col(1) && rb != &menu[0]) {
                        continue;
                    }
                    let wide = |iv: &Iv| iv.lo.is_none() || iv.hi.is_none();
                    let all = all && (t || !(wide(ra) || wide(rb)));
                    p.go(Case::Graph { mode: "bounds".into(), e: e.clone(), ra: *ra, rb: *rb, given: Given::Bool(true), all });
                    for g in [true, false] {
                        p.go(Case::Graph { mode: "update_ranges".into(), e: e.clone(), ra: *ra, rb: *rb, given: Given::Bool(g), all });
                    }
                    p.go(Case::Graph { mode: "analyze".into(), e: e.clone(), ra: *ra, rb: *rb, given: Given::Bool(true), all });
                }
            }
        });
        ariths.par_iter().for_each(|e| {
            if p.stop() {
                return;
            }
            for ra in &menu {
                for rb in &menu {
                    if (!e.has_col(0) && ra != &menu[0]) || (!e.has_col(1) && rb != &menu[0]) {
                        continue;
                    }
                    let wide = |iv: &Iv| iv.lo.is_none() || iv.hi.is_none();
                    let all = all && (t || !(wide(ra) || wide(rb)));
                    p.go(Case::Graph { mode: "bounds".into(), e: e.clone(), ra: *ra, rb: *rb, given: Given::Bool(true), all });
                    for g in &given_ranges {
                        p.go(Case::Graph { mode: "update_ranges".into(), e: e.clone(), ra: *ra, rb: *rb, given: Given::Range(*g), all });
                    }
                }
            }
        });
        p.finish();
    }
    // ---- 8. temporal
    {
        let p = Part::new(ctx, "temporal");
        let cases = temporal::cases(t);
        cases.into_par_iter().for_each(|tc| p.go(Case::Temporal { t: tc }));
        p.finish();
    }
}

fn replay(v: &Value) -> Result<(), String> {
    let c: Case = match serde_json::from_value(v.clone()) {
        Ok(c) => c,
        Err(e) => {
            // never let an unreadable case pass for a reproduced violation
            eprintln!("MACHINERY-ERROR: replay case cannot be read: {e}");
            std::process::exit(2)
        }
    };
    match mc_core::catch(|| run_case(&c)).unwrap_or_else(Err) {
        Ok(_) => Ok(()),
        Err(what) => {
            if what.starts_with("harness:") {
                eprintln!("MACHINERY-ERROR: {what}");
                std::process::exit(2)
            }
            Err(what.trim_start_matches("@value@").to_string())
        }
    }
}

fn main() {
    mc_core::quiet_panics();
    run_check(
        "C23",
        Level::Exploration,
        "every (function/operator, interval pair or triple) over the per-type endpoint menus, plus every (expression tree of depth <= 2, column range pair) for the expression graph; \
         each case calls the implementation once and compares it with the model for every enumerated member value / assignment. \
         non-trivial = the implementation made a falsifiable claim (a bounded result end, a definite truth value, 'infeasible', a shrunk range, Some(cardinality/single value)) AND at least one member check was performed against it",
        explore,
        replay,
    );
}
