//! C47 — mixed-type comparisons are order-independent and exact for integers
//! (expression level: projection-style evaluation and IN lists; the SQL
//! filter / join routes belong to the SQL-level check).
//!
//! Enumerated: all ordered pairs (L, R) of the type menu {Int8..Int64,
//! UInt8..UInt64, Float32, Float64, Decimal128(5,0) (10,2) (38,10) (38,0),
//! Date32, Timestamp(s|ms|us|ns), Utf8, Utf8View, and Dictionary<Int32, .> of
//! a subset} for which `comparison_coercion(L, R)` is `Some`, x all pairs of the
//! per-type boundary values (plus NULL) x the six comparison operators. The
//! comparison is built as a logical expression over columns `x: L`, `y: R`,
//! passed through the real `TypeCoercionRewriter`, planned and evaluated by the
//! real physical expressions:
//!   col   `x op y`                      (one batch with every value pair as a row)
//!   mir   `y op' x`                     (operands swapped, operator mirrored)
//!   incol `x IN (y)`                    (column item)
//!   lit   `x op <literal v>` for every value v of R
//!   inlit `x IN (<literal v>)`          (static-filter strategies)
//!   simp  `ExprSimplifier` on the coerced `x op <literal v>` (cast unwrapping)
//!
//! Oracles: (i) col == mir cell by cell (value, NULL, and failing-ness);
//! (ii) incol == col for `=`, inlit == lit for `=`; simp == lit wherever lit
//! evaluates; (iii) for integer / decimal pairs an exact rational comparison
//! (i128 unscaled value + scale, written here) gives the expected answer for
//! every cell of `col` and `lit` that evaluates.
use arrow::array::{Array, ArrayRef, AsArray};
use arrow::datatypes::{DataType, Field, Schema, TimeUnit};
use arrow::record_batch::RecordBatch;
use datafusion_common::{DFSchema, ScalarValue};
use datafusion_expr::execution_props::ExecutionProps;
use datafusion_expr::expr::InList;
use datafusion_expr::physical_planning_context::PhysicalPlanningContext;
use datafusion_expr::simplify::SimplifyContext;
use datafusion_expr::{binary_expr, col, Expr, Operator};
use datafusion_expr_common::type_coercion::binary::comparison_coercion;
use datafusion_optimizer::simplify_expressions::ExprSimplifier;
use datafusion_physical_expr::{create_physical_expr, PhysicalExpr};
use mc_core::serde_json::{json, Value};
use mc_core::{rayon::prelude::*, run_check, Ctx, Level};
use serde::{Deserialize, Serialize};
use std::cmp::Ordering;
use std::collections::BTreeMap;
use std::sync::{Arc, Mutex};

// ------------------------------------------------------------------ types
#[derive(Clone, Debug, PartialEq, Eq, Hash, Serialize, Deserialize)]
enum T {
    I8,
    I16,
    I32,
    I64,
    U8,
    U16,
    U32,
    U64,
    F32,
    F64,
    Dec(u8, i8),
    Date32,
    Ts(String),
    Utf8,
    Utf8View,
    Dict(Box<T>),
}

impl T {
    fn name(&self) -> String {
        match self {
            T::Dec(p, s) => format!("Decimal128({p},{s})"),
            T::Ts(u) => format!("Timestamp({u})"),
            T::Dict(t) => format!("Dict<{}>", t.name()),
            t => format!("{t:?}"),
        }
    }
    fn arrow(&self) -> DataType {
        match self {
            T::I8 => DataType::Int8,
            T::I16 => DataType::Int16,
            T::I32 => DataType::Int32,
            T::I64 => DataType::Int64,
            T::U8 => DataType::UInt8,
            T::U16 => DataType::UInt16,
            T::U32 => DataType::UInt32,
            T::U64 => DataType::UInt64,
            T::F32 => DataType::Float32,
            T::F64 => DataType::Float64,
            T::Dec(p, s) => DataType::Decimal128(*p, *s),
            T::Date32 => DataType::Date32,
            T::Ts(u) => DataType::Timestamp(
                match u.as_str() {
                    "s" => TimeUnit::Second,
                    "ms" => TimeUnit::Millisecond,
                    "us" => TimeUnit::Microsecond,
                    _ => TimeUnit::Nanosecond,
                },
                None,
            ),
            T::Utf8 => DataType::Utf8,
            T::Utf8View => DataType::Utf8View,
            T::Dict(t) => DataType::Dictionary(Box::new(DataType::Int32), Box::new(t.arrow())),
        }
    }
    fn base(&self) -> &T {
        match self {
            T::Dict(t) => t.base(),
            t => t,
        }
    }
    /// integer or decimal (exact oracle applies)
    fn is_exact(&self) -> bool {
        matches!(self.base(), T::I8 | T::I16 | T::I32 | T::I64 | T::U8 | T::U16 | T::U32 | T::U64 | T::Dec(..))
    }
}

/// One boundary value: how to build it, and (for integers / decimals) its exact value.
#[derive(Clone, Debug)]
struct Val {
    sv: ScalarValue,
    /// unscaled value and scale (value = unscaled / 10^scale)
    exact: Option<(i128, u32)>,
}

fn pow10(n: u32) -> i128 {
    10i128.pow(n)
}

fn values(t: &T) -> Vec<Val> {
    let iv = |sv: ScalarValue, x: i128| Val { sv, exact: Some((x, 0)) };
    let nv = |sv: ScalarValue| Val { sv, exact: None };
    match t {
        T::I8 => [i8::MIN, -1, 0, 1, i8::MAX].iter().map(|x| iv(ScalarValue::Int8(Some(*x)), *x as i128)).collect(),
        T::I16 => [i16::MIN, -1, 0, 1, 255, i16::MAX].iter().map(|x| iv(ScalarValue::Int16(Some(*x)), *x as i128)).collect(),
        T::I32 => [i32::MIN, -1, 0, 1, (1 << 24) + 1, i32::MAX]
            .iter()
            .map(|x| iv(ScalarValue::Int32(Some(*x)), *x as i128))
            .collect(),
        T::I64 => [i64::MIN, -1, 0, 1, (1 << 24) + 1, 1 << 53, (1 << 53) + 1, i64::MAX - 1, i64::MAX]
            .iter()
            .map(|x| iv(ScalarValue::Int64(Some(*x)), *x as i128))
            .collect(),
        T::U8 => [0u8, 1, 127, 128, u8::MAX].iter().map(|x| iv(ScalarValue::UInt8(Some(*x)), *x as i128)).collect(),
        T::U16 => [0u16, 1, 32768, u16::MAX].iter().map(|x| iv(ScalarValue::UInt16(Some(*x)), *x as i128)).collect(),
        T::U32 => [0u32, 1, (1 << 24) + 1, 1 << 31, u32::MAX].iter().map(|x| iv(ScalarValue::UInt32(Some(*x)), *x as i128)).collect(),
        T::U64 => [0u64, 1, (1 << 53) + 1, i64::MAX as u64, 1 << 63, u64::MAX - 1, u64::MAX]
            .iter()
            .map(|x| iv(ScalarValue::UInt64(Some(*x)), *x as i128))
            .collect(),
        T::F32 => [-0.0f32, 0.0, 1.0, -1.0, 0.1, 16777216.0, 16777218.0, 2147483648.0]
            .iter()
            .map(|x| nv(ScalarValue::Float32(Some(*x))))
            .collect(),
        T::F64 => [-0.0f64, 0.0, 1.0, -1.0, 0.1, 1.5, 16777217.0, 9007199254740992.0, 9007199254740994.0, 9223372036854775808.0, 18446744073709551616.0]
            .iter()
            .map(|x| nv(ScalarValue::Float64(Some(*x))))
            .collect(),
        T::Dec(p, s) => {
            let max = pow10(*p as u32) - 1;
            let one = pow10(*s as u32);
            let mut us: Vec<i128> = vec![-max, -one, 0, 1, one, max];
            if *s > 0 {
                us.push(one + one / 2); // 1.5
                us.push(-1); // smallest negative fraction
            }
            if *p >= 20 {
                us.push((1i128 << 63) * one.min(pow10((*p as u32).saturating_sub(19).min(*s as u32))));
                us.push(((1i128 << 53) + 1) * if *s == 0 { 1 } else { one });
                us.push(u64::MAX as i128 * if *s == 0 { 1 } else { one });
            }
            us.sort();
            us.dedup();
            us.into_iter()
                .filter(|u| u.abs() <= max)
                .map(|u| Val { sv: ScalarValue::Decimal128(Some(u), *p, *s), exact: Some((u, *s as u32)) })
                .collect()
        }
        T::Date32 => [-1, 0, 1, 19723, 106751, 106752, i32::MAX].iter().map(|x| nv(ScalarValue::Date32(Some(*x)))).collect(),
        T::Ts(u) => {
            let xs: Vec<i64> = match u.as_str() {
                "s" => vec![-1, 0, 1, 86400, 1704067200, 9223372036, 9223372037, i64::MAX],
                "ms" => vec![-1, 0, 1, 86_400_000, 1704067200_000, 9223372036854, 9223372036855, i64::MAX],
                "us" => vec![-1, 0, 1, 86_400_000_000, 1704067200_000_000, 9223372036854775, 9223372036854776, i64::MAX],
                _ => vec![-1, 0, 1, 86_400_000_000_000, 1704067200_000_000_000, i64::MAX - 1, i64::MAX],
            };
            xs.into_iter()
                .map(|x| {
                    nv(match u.as_str() {
                        "s" => ScalarValue::TimestampSecond(Some(x), None),
                        "ms" => ScalarValue::TimestampMillisecond(Some(x), None),
                        "us" => ScalarValue::TimestampMicrosecond(Some(x), None),
                        _ => ScalarValue::TimestampNanosecond(Some(x), None),
                    })
                })
                .collect()
        }
        T::Utf8 => ["", "0", "1", "01", "1.0", "-1", "10", "9", "a", "2024-01-01"]
            .iter()
            .map(|s| nv(ScalarValue::Utf8(Some(s.to_string()))))
            .collect(),
        T::Utf8View => ["", "0", "1", "01", "1.0", "-1", "10", "9", "a", "2024-01-01"]
            .iter()
            .map(|s| nv(ScalarValue::Utf8View(Some(s.to_string()))))
            .collect(),
        T::Dict(inner) => values(inner)
            .into_iter()
            .map(|v| Val { sv: ScalarValue::Dictionary(Box::new(DataType::Int32), Box::new(v.sv)), exact: v.exact })
            .collect(),
    }
}

fn type_menu() -> Vec<T> {
    let mut v = vec![
        T::I8,
        T::I16,
        T::I32,
        T::I64,
        T::U8,
        T::U16,
        T::U32,
        T::U64,
        T::F32,
        T::F64,
        T::Dec(5, 0),
        T::Dec(10, 2),
        T::Dec(38, 10),
        T::Dec(38, 0),
        T::Date32,
        T::Ts("s".into()),
        T::Ts("ms".into()),
        T::Ts("us".into()),
        T::Ts("ns".into()),
        T::Utf8,
        T::Utf8View,
    ];
    for t in [T::I8, T::I64, T::U64, T::F64, T::Dec(10, 2), T::Utf8, T::Date32, T::Ts("ms".into())] {
        v.push(T::Dict(Box::new(t)));
    }
    v
}

/// exact three-way comparison of two rationals unscaled/10^scale
fn exact_cmp(a: (i128, u32), b: (i128, u32)) -> Ordering {
    // integer parts (floor) and non-negative fractional parts at a common scale
    let split = |(u, s): (i128, u32)| -> (i128, i128, u32) {
        let m = pow10(s);
        (u.div_euclid(m), u.rem_euclid(m), s)
    };
    let (ai, af, asc) = split(a);
    let (bi, bf, bsc) = split(b);
    let s = asc.max(bsc);
    let af = af * pow10(s - asc);
    let bf = bf * pow10(s - bsc);
    (ai, af).cmp(&(bi, bf))
}

const OPS: [(Operator, Operator, &str); 6] = [
    (Operator::Eq, Operator::Eq, "="),
    (Operator::NotEq, Operator::NotEq, "<>"),
    (Operator::Lt, Operator::Gt, "<"),
    (Operator::LtEq, Operator::GtEq, "<="),
    (Operator::Gt, Operator::Lt, ">"),
    (Operator::GtEq, Operator::LtEq, ">="),
];

fn op_truth(op: Operator, o: Ordering) -> bool {
    match op {
        Operator::Eq => o == Ordering::Equal,
        Operator::NotEq => o != Ordering::Equal,
        Operator::Lt => o == Ordering::Less,
        Operator::LtEq => o != Ordering::Greater,
        Operator::Gt => o == Ordering::Greater,
        Operator::GtEq => o != Ordering::Less,
        _ => unreachable!(),
    }
}

// ------------------------------------------------------------- evaluation
/// cell result: Ok(Some(b)) / Ok(None)=NULL / Err(msg)
type Cell = Result<Option<bool>, String>;

fn short(e: impl std::fmt::Display) -> String {
    e.to_string().lines().next().unwrap_or("").chars().take(140).collect()
}

fn bool_cells(a: &ArrayRef) -> Result<Vec<Option<bool>>, String> {
    if a.data_type() != &DataType::Boolean {
        return Err(format!("comparison returned type {}", a.data_type()));
    }
    let b = a.as_boolean();
    Ok((0..b.len()).map(|i| if b.is_null(i) { None } else { Some(b.value(i)) }).collect())
}

fn eval_one(p: &Arc<dyn PhysicalExpr>, batch: &RecordBatch) -> Result<Vec<Option<bool>>, String> {
    match mc_core::catch(|| p.evaluate(batch).and_then(|c| c.into_array(batch.num_rows()))) {
        Ok(Ok(a)) => {
            if a.len() != batch.num_rows() {
                return Err("WRONG-LENGTH".into());
            }
            bool_cells(&a)
        }
        Ok(Err(e)) => Err(short(e)),
        Err(p) => Err(format!("PANIC {}", short(p))),
    }
}

/// whole batch, falling back to row-at-a-time when the batch fails
fn eval_cells(p: &Arc<dyn PhysicalExpr>, batch: &RecordBatch) -> Vec<Cell> {
    match eval_one(p, batch) {
        Ok(v) => v.into_iter().map(Ok).collect(),
        Err(_) => (0..batch.num_rows())
            .map(|i| eval_one(p, &batch.slice(i, 1)).map(|mut v| v.remove(0)))
            .collect(),
    }
}

struct Env {
    dfs: Arc<DFSchema>,
    batch: RecordBatch,
    /// per row: index into xs / ys (None = NULL)
    xi: Vec<Option<usize>>,
    yi: Vec<Option<usize>>,
    /// batch with each x value once (plus NULL) for literal routes
    xbatch: RecordBatch,
    xrows: Vec<Option<usize>>,
}

fn build_env(l: &T, r: &T, xs: &[Val], ys: &[Val]) -> Result<Env, String> {
    let schema = Arc::new(Schema::new(vec![Field::new("x", l.arrow(), true), Field::new("y", r.arrow(), true)]));
    let dfs = Arc::new(DFSchema::try_from(schema.as_ref().clone()).map_err(short)?);
    let null_of = |t: &T| ScalarValue::try_from(&t.arrow()).map_err(short);
    let xopts: Vec<Option<usize>> = std::iter::once(None).chain((0..xs.len()).map(Some)).collect();
    let yopts: Vec<Option<usize>> = std::iter::once(None).chain((0..ys.len()).map(Some)).collect();
    let mut xi = vec![];
    let mut yi = vec![];
    for a in &xopts {
        for b in &yopts {
            xi.push(*a);
            yi.push(*b);
        }
    }
    let mk = |t: &T, vals: &[Val], idx: &[Option<usize>]| -> Result<ArrayRef, String> {
        let n = null_of(t)?;
        let svs: Vec<ScalarValue> = idx.iter().map(|i| i.map(|k| vals[k].sv.clone()).unwrap_or_else(|| n.clone())).collect();
        let a = ScalarValue::iter_to_array(svs).map_err(short)?;
        if a.data_type() != &t.arrow() {
            arrow::compute::cast(&a, &t.arrow()).map_err(short)
        } else {
            Ok(a)
        }
    };
    let xa = mk(l, xs, &xi)?;
    let ya = mk(r, ys, &yi)?;
    let batch = RecordBatch::try_new(schema.clone(), vec![xa, ya]).map_err(short)?;
    let xcol = mk(l, xs, &xopts)?;
    let ycol_dummy = mk(r, ys, &vec![None; xopts.len()])?;
    let xbatch = RecordBatch::try_new(schema, vec![xcol, ycol_dummy]).map_err(short)?;
    Ok(Env { dfs, batch, xi, yi, xbatch, xrows: xopts })
}

fn coerce_plan(e: &Expr, dfs: &Arc<DFSchema>) -> Result<(Expr, Arc<dyn PhysicalExpr>), String> {
    let simp = ExprSimplifier::new(SimplifyContext::builder().with_schema(dfs.clone()).build());
    let c = mc_core::catch(|| simp.coerce(e.clone(), dfs.as_ref())).map_err(|p| format!("PANIC in coercion: {p}"))?.map_err(short)?;
    let p = mc_core::catch(|| create_physical_expr(&c, dfs.as_ref(), &ExecutionProps::new(), &PhysicalPlanningContext::default()))
        .map_err(|p| format!("PANIC in planning: {p}"))?
        .map_err(short)?;
    Ok((c, p))
}

fn show_cell(c: &Cell) -> String {
    match c {
        Ok(Some(b)) => b.to_string(),
        Ok(None) => "NULL".into(),
        Err(e) => format!("ERROR({e})"),
    }
}
fn same_cell(a: &Cell, b: &Cell) -> bool {
    match (a, b) {
        (Ok(x), Ok(y)) => x == y,
        (Err(_), Err(_)) => true,
        _ => false,
    }
}

#[derive(Serialize, Deserialize, Clone, Debug)]
struct Case {
    l: T,
    r: T,
}

#[derive(Default)]
struct Stats {
    c: BTreeMap<&'static str, u64>,
    evals: u64,
    nontrivial: Vec<String>,
}
impl Stats {
    fn add(&mut self, k: &'static str, n: u64) {
        *self.c.entry(k).or_insert(0) += n;
    }
}

struct Viol {
    kind: &'static str,
    what: String,
    /// class of the common comparison type
    common: String,
}

fn class_of(dt: &DataType) -> String {
    match dt {
        DataType::Dictionary(_, v) => format!("dict-of-{}", class_of(v)),
        DataType::Float16 | DataType::Float32 | DataType::Float64 => "float".into(),
        DataType::Decimal128(..) | DataType::Decimal256(..) | DataType::Decimal32(..) | DataType::Decimal64(..) => "decimal".into(),
        DataType::Timestamp(..) => "timestamp".into(),
        DataType::Date32 | DataType::Date64 => "date".into(),
        DataType::Utf8 | DataType::LargeUtf8 | DataType::Utf8View => "string".into(),
        t if t.is_integer() => "integer".into(),
        t => format!("{t}"),
    }
}

fn sv_show(v: Option<&Val>) -> String {
    match v {
        Some(v) => format!("{}", v.sv),
        None => "NULL".into(),
    }
}

/// Run every route for one ordered type pair; returns all violations (first per kind).
fn run_pair(l: &T, r: &T, st: &mut Stats) -> Vec<Viol> {
    let mut viols: Vec<Viol> = vec![];
    let coerced_ty = comparison_coercion(&l.arrow(), &r.arrow());
    let Some(common) = coerced_ty else {
        st.add("pairs_not_comparable", 1);
        return viols;
    };
    let common_class = class_of(&common);
    let push = |viols: &mut Vec<Viol>, kind: &'static str, what: String| {
        if !viols.iter().any(|v| v.kind == kind) {
            viols.push(Viol { kind, what, common: common_class.clone() });
        }
    };
    st.add("pairs_comparable", 1);
    // coercion itself must be symmetric in the type it picks
    let back = comparison_coercion(&r.arrow(), &l.arrow());
    if back.as_ref() != Some(&common) {
        push(
            &mut viols,
            "coercion-asymmetric",
            format!("comparison_coercion({}, {}) = {common} but comparison_coercion({}, {}) = {back:?}", l.name(), r.name(), r.name(), l.name()),
        );
    }
    let xs = values(l);
    let ys = values(r);
    let env = match build_env(l, r, &xs, &ys) {
        Ok(e) => e,
        Err(e) => {
            st.add("pairs_env_not_buildable", 1);
            let _ = e;
            return viols;
        }
    };
    let n = env.batch.num_rows();
    let pair = format!("x: {}, y: {} (compared as {common})", l.name(), r.name());
    let exact = l.is_exact() && r.is_exact();
    let mut col_eq: Option<Vec<Cell>> = None;
    for (op, mop, opname) in OPS {
        // ---- col / mir
        let e_col = binary_expr(col("x"), op, col("y"));
        let e_mir = binary_expr(col("y"), mop, col("x"));
        let (pc, pm) = match (coerce_plan(&e_col, &env.dfs), coerce_plan(&e_mir, &env.dfs)) {
            (Ok(a), Ok(b)) => (a, b),
            (Err(a), Err(_)) => {
                st.add("comparisons_rejected_at_plan_time", 1);
                let _ = a;
                continue;
            }
            (Ok(_), Err(b)) | (Err(b), Ok(_)) => {
                push(&mut viols, "mirror", format!("{pair}: `x {opname} y` and its mirror disagree about being plannable: {b}"));
                continue;
            }
        };
        let cc = eval_cells(&pc.1, &env.batch);
        let cm = eval_cells(&pm.1, &env.batch);
        st.evals += 2;
        if l != r {
            st.nontrivial.push(format!("{}|{}|{opname}", l.name(), r.name()));
        }
        for i in 0..n {
            st.add("cells_mirror", 1);
            if !same_cell(&cc[i], &cm[i]) {
                push(
                    &mut viols,
                    "mirror",
                    format!(
                        "{pair}: x = {}, y = {}: `x {opname} y` ({}) = {} but mirrored `y {} x` ({}) = {}",
                        sv_show(env.xi[i].map(|k| &xs[k])),
                        sv_show(env.yi[i].map(|k| &ys[k])),
                        pc.0,
                        show_cell(&cc[i]),
                        OPS.iter().find(|o| o.0 == mop).unwrap().2,
                        pm.0,
                        show_cell(&cm[i])
                    ),
                );
                break;
            }
        }
        // ---- exactness
        if exact {
            for i in 0..n {
                let (Some(a), Some(b)) = (env.xi[i], env.yi[i]) else {
                    if let Ok(Some(v)) = &cc[i] {
                        push(&mut viols, "exact", format!("{pair}: a NULL operand gave {v} for `x {opname} y`"));
                    }
                    continue;
                };
                let Ok(got) = &cc[i] else {
                    st.add("cells_exact_engine_error", 1);
                    continue;
                };
                let want = op_truth(op, exact_cmp(xs[a].exact.unwrap(), ys[b].exact.unwrap()));
                st.add("cells_exact", 1);
                if *got != Some(want) {
                    push(
                        &mut viols,
                        "exact",
                        format!(
                            "{pair}: x = {}, y = {}: `x {opname} y` evaluated as {} gives {}, mathematically {want}",
                            xs[a].sv,
                            ys[b].sv,
                            pc.0,
                            show_cell(&cc[i])
                        ),
                    );
                    break;
                }
            }
        }
        if op == Operator::Eq {
            col_eq = Some(cc.clone());
        }
        // ---- literal routes
        for (yk, yv) in ys.iter().enumerate() {
            let lit = Expr::Literal(yv.sv.clone(), None);
            let e_lit = binary_expr(col("x"), op, lit.clone());
            let Ok((cl, pl)) = coerce_plan(&e_lit, &env.dfs) else {
                st.add("literal_comparisons_rejected_at_plan_time", 1);
                continue;
            };
            let cells = eval_cells(&pl, &env.xbatch);
            st.evals += 1;
            if exact {
                for (row, xk) in env.xrows.iter().enumerate() {
                    let Some(xk) = xk else { continue };
                    let Ok(got) = &cells[row] else { continue };
                    let want = op_truth(op, exact_cmp(xs[*xk].exact.unwrap(), yv.exact.unwrap()));
                    st.add("cells_exact_literal", 1);
                    if *got != Some(want) {
                        push(
                            &mut viols,
                            "exact-literal",
                            format!(
                                "{pair}: x = {}: `x {opname} {}` evaluated as {cl} gives {}, mathematically {want}",
                                xs[*xk].sv,
                                yv.sv,
                                show_cell(&cells[row])
                            ),
                        );
                        break;
                    }
                }
            }
            // simplifier on the coerced literal comparison (cast unwrapping at the boundaries)
            let simp = ExprSimplifier::new(SimplifyContext::builder().with_schema(env.dfs.clone()).build());
            match mc_core::catch(|| simp.simplify(cl.clone())) {
                Ok(Ok(s)) if s != cl => {
                    st.add("literal_comparisons_rewritten_by_simplifier", 1);
                    match mc_core::catch(|| create_physical_expr(&s, env.dfs.as_ref(), &ExecutionProps::new(), &PhysicalPlanningContext::default())) {
                        Ok(Ok(ps)) => {
                            let sc = eval_cells(&ps, &env.xbatch);
                            st.evals += 1;
                            for row in 0..cells.len() {
                                if cells[row].is_ok() && !same_cell(&cells[row], &sc[row]) {
                                    push(
                                        &mut viols,
                                        "simplified-literal",
                                        format!(
                                            "{pair}: x = {}: {cl} = {} but its simplification {s} = {}",
                                            sv_show(env.xrows[row].map(|k| &xs[k])),
                                            show_cell(&cells[row]),
                                            show_cell(&sc[row])
                                        ),
                                    );
                                    break;
                                }
                            }
                        }
                        _ => {
                            if cells.iter().any(|c| c.is_ok()) {
                                push(&mut viols, "simplified-literal", format!("{pair}: {cl} simplified to {s}, which cannot be planned"));
                            }
                        }
                    }
                }
                Ok(_) => {}
                Err(p) => push(&mut viols, "simplified-literal", format!("{pair}: simplifier panicked on {cl}: {p}")),
            }
            // IN (literal) against `= literal`
            if op == Operator::Eq {
                let e_in = Expr::InList(InList::new(Box::new(col("x")), vec![lit.clone()], false));
                match coerce_plan(&e_in, &env.dfs) {
                    Ok((ci, pi)) => {
                        let ic = eval_cells(&pi, &env.xbatch);
                        st.evals += 1;
                        for row in 0..cells.len() {
                            st.add("cells_in_literal", 1);
                            if !same_cell(&cells[row], &ic[row]) {
                                push(
                                    &mut viols,
                                    "in-literal",
                                    format!(
                                        "{pair}: x = {}: `{cl}` = {} but `{ci}` = {}",
                                        sv_show(env.xrows[row].map(|k| &xs[k])),
                                        show_cell(&cells[row]),
                                        show_cell(&ic[row])
                                    ),
                                );
                                break;
                            }
                        }
                    }
                    Err(e) => {
                        if cells.iter().any(|c| c.is_ok()) {
                            push(&mut viols, "in-literal", format!("{pair}: `{cl}` evaluates but `x IN ({})` is rejected: {e}", yv.sv));
                        }
                    }
                }
                let _ = yk;
            }
        }
    }
    // ---- IN (column) against `=`
    if let Some(eqc) = col_eq {
        let e_in = Expr::InList(InList::new(Box::new(col("x")), vec![col("y")], false));
        match coerce_plan(&e_in, &env.dfs) {
            Ok((ci, pi)) => {
                let ic = eval_cells(&pi, &env.batch);
                st.evals += 1;
                for i in 0..n {
                    st.add("cells_in_column", 1);
                    if !same_cell(&eqc[i], &ic[i]) {
                        push(
                            &mut viols,
                            "in-column",
                            format!(
                                "{pair}: x = {}, y = {}: `x = y` = {} but `{ci}` = {}",
                                sv_show(env.xi[i].map(|k| &xs[k])),
                                sv_show(env.yi[i].map(|k| &ys[k])),
                                show_cell(&eqc[i]),
                                show_cell(&ic[i])
                            ),
                        );
                        break;
                    }
                }
            }
            Err(e) => {
                if eqc.iter().any(|c| c.is_ok()) {
                    push(&mut viols, "in-column", format!("{pair}: `x = y` evaluates but `x IN (y)` is rejected: {e}"));
                }
            }
        }
    }
    viols
}

fn explore(ctx: &Ctx) {
    let menu = type_menu();
    let mut pairs: Vec<(T, T)> = vec![];
    for l in &menu {
        for r in &menu {
            pairs.push((l.clone(), r.clone()));
        }
    }
    ctx.set_extra(
        "bounds",
        json!({
            "types": menu.iter().map(|t| t.name()).collect::<Vec<_>>(),
            "values_per_type": menu.iter().map(|t| (t.name(), values(t).iter().map(|v| v.sv.to_string()).collect::<Vec<_>>())).collect::<BTreeMap<_, _>>(),
            "ordered_type_pairs": pairs.len(),
            "operators": OPS.iter().map(|o| o.2).collect::<Vec<_>>(),
            "routes": ["col x op y", "mirror y op' x", "x IN (y)", "x op literal", "x IN (literal)", "ExprSimplifier on coerced x op literal"],
            "tiers": "quick and thorough enumerate the same space (it is small)",
        }),
    );
    ctx.assume("expression level only: the SQL projection/filter/join routes are covered by the SQL-level check");
    ctx.assume("a comparison that is rejected at plan time in both operand orders is counted, not judged");
    ctx.assume("exactness is demanded only for integer/decimal pairs and only for cells that evaluate without error");
    struct Found {
        size: usize,
        key: String,
        family: String,
        what: String,
        case: Value,
    }
    let found: Mutex<Vec<Found>> = Mutex::new(vec![]);
    pairs.par_iter().for_each(|(l, r)| {
        if ctx.out_of_time() {
            return;
        }
        let mut st = Stats::default();
        let viols = run_pair(l, r, &mut st);
        ctx.evals(st.evals);
        for (k, v) in &st.c {
            ctx.count(k, *v);
        }
        for k in &st.nontrivial {
            ctx.nontrivial(k);
        }
        if l != r && ctx.want_sample() && st.evals > 20 && l.is_exact() && !r.is_exact() {
            ctx.sample(json!({"x": l.name(), "y": r.name(), "evaluations": st.evals, "counters": st.c}));
        }
        for v in viols {
            let case = Case { l: l.clone(), r: r.clone() };
            found.lock().unwrap().push(Found {
                size: if l == r { 0 } else { 50 } + l.name().len() + r.name().len() + if matches!(l, T::Dict(_)) { 100 } else { 0 } + if matches!(r, T::Dict(_)) { 100 } else { 0 },
                key: format!("{}|{}|{}", v.kind, l.name(), r.name()),
                family: format!("{}:compared-as-{}", v.kind, v.common),
                what: v.what,
                case: serde_json::to_value(&case).unwrap(),
            });
        }
    });
    let mut found = found.into_inner().unwrap();
    found.sort_by(|a, b| (a.size, &a.key).cmp(&(b.size, &b.key)));
    ctx.count("failing_type_pair_kinds_total", found.len() as u64);
    let mut per_family: BTreeMap<String, u64> = BTreeMap::new();
    for f in &found {
        *per_family.entry(f.family.clone()).or_insert(0) += 1;
    }
    if !found.is_empty() {
        ctx.set_extra("failing_cases_per_family", json!(per_family));
    }
    let mut seen: Vec<String> = vec![];
    for f in found {
        if seen.contains(&f.family) {
            continue;
        }
        seen.push(f.family.clone());
        if seen.len() <= 45 {
            ctx.violation(f.key, format!("[family {}] {}", f.family, f.what), f.case);
        }
    }
}

fn replay(v: &Value) -> Result<(), String> {
    let c: Case = serde_json::from_value(v.clone()).map_err(|e| format!("bad case: {e}"))?;
    let mut st = Stats::default();
    let viols = run_pair(&c.l, &c.r, &mut st);
    if viols.is_empty() {
        Ok(())
    } else {
        Err(viols.iter().map(|v| format!("[{}] {}", v.kind, v.what)).collect::<Vec<_>>().join(" || "))
    }
}

fn main() {
    mc_core::quiet_panics();
    run_check(
        "C47",
        Level::Exploration,
        "every ordered pair of the type menu that comparison_coercion accepts x every pair of boundary values (and NULL) x six operators x routes {x op y, mirrored, x IN (y), x op literal, x IN (literal), simplified literal comparison}; \
         one evaluation = one physical expression evaluated over all value pairs; non-trivial = a (left type, right type, operator) triple with different types that was planned and evaluated in both operand orders",
        explore,
        replay,
    );
}
