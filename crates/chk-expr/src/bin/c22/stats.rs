//! Containers (small multisets of rows), their exact statistics, every pattern
//! of weakening them to "unknown", and the two statistics providers handed to
//! `PruningPredicate::prune`: the check's own `PruningStatistics` (with
//! `contained`) and DataFusion's `PrunableStatistics` over `Statistics`.
use super::model::{COLS, Row, V, schema};
use arrow::array::{ArrayRef, BooleanArray, Int32Array, Int64Array, StringArray, UInt64Array};
use datafusion_common::pruning::{PrunableStatistics, PruningStatistics};
use datafusion_common::stats::Precision;
use datafusion_common::{Column, ColumnStatistics, ScalarValue, Statistics};
use serde::{Deserialize, Serialize};
use std::collections::HashSet;
use std::sync::Arc;

pub const MIN: u32 = 0;
pub const MAX: u32 = 1;
pub const NULLS: u32 = 2;
pub const CONTAINED: u32 = 3;

/// One container as handed to the implementation: its rows and which of its
/// statistics are known. Bit `4*p + kind` (p = position of the column in the
/// predicate's sorted column list) = that statistic is known; bit `4*ncols` =
/// the row count is known.
#[derive(Serialize, Deserialize, Clone, Debug, Hash, PartialEq, Eq)]
pub struct Cont {
    pub rows: Vec<Row>,
    pub pat: u32,
}

/// Exact statistics of one column of one container.
#[derive(Clone, Debug)]
pub struct ColStat {
    pub min: V, // V::Null = no non-null value
    pub max: V,
    pub nulls: u64,
    pub values: Vec<V>, // all values, with NULLs
}

pub fn col_stat(rows: &[Row], c: usize) -> ColStat {
    let values: Vec<V> = rows.iter().map(|r| r[c].clone()).collect();
    let nn: Vec<&V> = values.iter().filter(|v| **v != V::Null).collect();
    ColStat {
        min: nn.iter().min().map(|v| (*v).clone()).unwrap_or(V::Null),
        max: nn.iter().max().map(|v| (*v).clone()).unwrap_or(V::Null),
        nulls: (values.len() - nn.len()) as u64,
        values,
    }
}

pub fn scalar_to_v(s: &ScalarValue) -> Option<V> {
    Some(match s {
        ScalarValue::Int64(v) => v.map(V::I).unwrap_or(V::Null),
        ScalarValue::Int32(v) => v.map(|x| V::I(x as i64)).unwrap_or(V::Null),
        ScalarValue::Utf8(v) | ScalarValue::LargeUtf8(v) | ScalarValue::Utf8View(v) => v.clone().map(V::S).unwrap_or(V::Null),
        ScalarValue::Boolean(v) => v.map(V::B).unwrap_or(V::Null),
        ScalarValue::Null => V::Null,
        _ => return None,
    })
}
fn v_to_scalar(c: usize, v: &V) -> ScalarValue {
    match (c, v) {
        (0, V::I(x)) => ScalarValue::Int64(Some(*x)),
        (0, _) => ScalarValue::Int64(None),
        (1, V::S(x)) => ScalarValue::Utf8(Some(x.clone())),
        (1, _) => ScalarValue::Utf8(None),
        (2, V::I(x)) => ScalarValue::Int32(Some(*x as i32)),
        (2, _) => ScalarValue::Int32(None),
        (_, V::B(x)) => ScalarValue::Boolean(Some(*x)),
        _ => ScalarValue::Boolean(None),
    }
}

/// The check's own statistics provider. Containers are given as distinct row
/// multisets (`sets`) and `entries` = (index of the set, pattern) pairs, so
/// that one set can appear under many weakening patterns in one call.
pub struct MyStats<'a> {
    /// sorted indices (into COLS) of the columns the predicate references
    pub cols: &'a [usize],
    pub entries: &'a [(usize, u32)],
    /// per set, per referenced column
    pub stats: &'a [Vec<ColStat>],
    pub set_len: &'a [usize],
    /// bits (same layout as `Cont::pat`) of statistics for which the whole
    /// method answers `None` instead of an array
    pub whole_absent: u32,
}

pub fn set_stats(cols: &[usize], sets: &[Vec<Row>]) -> Vec<Vec<ColStat>> {
    sets.iter().map(|rows| cols.iter().map(|c| col_stat(rows, *c)).collect()).collect()
}

impl<'a> MyStats<'a> {
    fn pos(&self, column: &Column) -> Option<(usize, usize)> {
        let c = COLS.iter().position(|n| *n == column.name())?;
        let p = self.cols.iter().position(|x| *x == c)?;
        Some((p, c))
    }
    fn minmax(&self, column: &Column, kind: u32) -> Option<ArrayRef> {
        let (p, c) = self.pos(column)?;
        let bit = 1u32 << (4 * p as u32 + kind);
        if self.whole_absent & bit != 0 {
            return None;
        }
        let get = |e: &(usize, u32)| -> Option<&V> {
            if e.1 & bit == 0 {
                return None;
            }
            let st = &self.stats[e.0][p];
            let v = if kind == MIN { &st.min } else { &st.max };
            (*v != V::Null).then_some(v)
        };
        let it = self.entries.iter().map(get);
        Some(match c {
            0 => Arc::new(it.map(|v| if let Some(V::I(x)) = v { Some(*x) } else { None }).collect::<Int64Array>()),
            1 => Arc::new(it.map(|v| if let Some(V::S(x)) = v { Some(x.as_str()) } else { None }).collect::<StringArray>()),
            2 => Arc::new(it.map(|v| if let Some(V::I(x)) = v { Some(*x as i32) } else { None }).collect::<Int32Array>()),
            _ => Arc::new(it.map(|v| if let Some(V::B(x)) = v { Some(*x) } else { None }).collect::<BooleanArray>()),
        })
    }
}

impl<'a> PruningStatistics for MyStats<'a> {
    fn min_values(&self, column: &Column) -> Option<ArrayRef> {
        self.minmax(column, MIN)
    }
    fn max_values(&self, column: &Column) -> Option<ArrayRef> {
        self.minmax(column, MAX)
    }
    fn num_containers(&self) -> usize {
        self.entries.len()
    }
    fn null_counts(&self, column: &Column) -> Option<ArrayRef> {
        let (p, _) = self.pos(column)?;
        let bit = 1u32 << (4 * p as u32 + NULLS);
        if self.whole_absent & bit != 0 {
            return None;
        }
        Some(Arc::new(self.entries.iter().map(|e| (e.1 & bit != 0).then(|| self.stats[e.0][p].nulls)).collect::<UInt64Array>()))
    }
    fn row_counts(&self) -> Option<ArrayRef> {
        let bit = 1u32 << (4 * self.cols.len() as u32);
        if self.whole_absent & bit != 0 {
            return None;
        }
        Some(Arc::new(self.entries.iter().map(|e| (e.1 & bit != 0).then(|| self.set_len[e.0] as u64)).collect::<UInt64Array>()))
    }
    /// The documented three-way rule: `true` = every value of the column in the
    /// container is one of `values` (a NULL is not one of them), `false` = none
    /// is, NULL = mixed / unknown.
    fn contained(&self, column: &Column, values: &HashSet<ScalarValue>) -> Option<BooleanArray> {
        let (p, _) = self.pos(column)?;
        let bit = 1u32 << (4 * p as u32 + CONTAINED);
        if self.whole_absent & bit != 0 {
            return None;
        }
        let mut set: Vec<V> = vec![];
        for s in values {
            match scalar_to_v(s) {
                Some(V::Null) => {}
                Some(v) => set.push(v),
                None => return None, // a literal type the check does not model: unknown
            }
        }
        let per_set: Vec<Option<bool>> = self
            .stats
            .iter()
            .map(|st| {
                let vals = &st[p].values;
                let inside = vals.iter().filter(|v| **v != V::Null && set.contains(v)).count();
                if inside == vals.len() {
                    Some(true)
                } else if inside == 0 {
                    Some(false)
                } else {
                    None
                }
            })
            .collect();
        Some(self.entries.iter().map(|e| if e.1 & bit != 0 { per_set[e.0] } else { None }).collect())
    }
}

/// DataFusion's own provider over `Statistics`; a statistic whose bit is unset
/// is `Absent` or (alternating) an `Inexact` value that is deliberately
/// misleading: inexact statistics are estimates and must not be relied on.
pub fn prunable(cols: &[usize], sets: &[Vec<Row>], entries: &[(usize, u32)]) -> PrunableStatistics {
    let row_bit = 4 * cols.len() as u32;
    let stats: Vec<Arc<Statistics>> = entries
        .iter()
        .enumerate()
        .map(|(k, e)| {
            let cont = Cont { rows: sets[e.0].clone(), pat: e.1 };
            let known = |bit: u32| cont.pat & (1 << bit) != 0;
            let weak = |salt: usize| (k + salt) % 2 == 0;
            let mut column_statistics = vec![];
            for c in 0..4 {
                let mut cs = ColumnStatistics::new_unknown();
                if let Some(p) = cols.iter().position(|x| *x == c) {
                    let st = col_stat(&cont.rows, c);
                    let far_low = match c {
                        0 | 2 => V::I(-100),
                        1 => V::S("".into()),
                        _ => V::B(false),
                    };
                    let far_high = match c {
                        0 | 2 => V::I(100),
                        1 => V::S("zzz".into()),
                        _ => V::B(true),
                    };
                    let bit = 4 * p as u32;
                    cs.min_value = if known(bit + MIN) {
                        if st.min == V::Null { Precision::Absent } else { Precision::Exact(v_to_scalar(c, &st.min)) }
                    } else if weak(c) {
                        Precision::Inexact(v_to_scalar(c, &far_high)) // a misleading estimate
                    } else {
                        Precision::Absent
                    };
                    cs.max_value = if known(bit + MAX) {
                        if st.max == V::Null { Precision::Absent } else { Precision::Exact(v_to_scalar(c, &st.max)) }
                    } else if weak(c + 1) {
                        Precision::Inexact(v_to_scalar(c, &far_low))
                    } else {
                        Precision::Absent
                    };
                    cs.null_count = if known(bit + NULLS) {
                        Precision::Exact(st.nulls as usize)
                    } else if weak(c + 2) {
                        Precision::Inexact(if st.nulls == 0 { cont.rows.len() } else { 0 })
                    } else {
                        Precision::Absent
                    };
                }
                column_statistics.push(cs);
            }
            Arc::new(Statistics {
                num_rows: if known(row_bit) {
                    Precision::Exact(cont.rows.len())
                } else if weak(7) {
                    Precision::Inexact(cont.rows.len() + 5)
                } else {
                    Precision::Absent
                },
                total_byte_size: Precision::Absent,
                column_statistics,
            })
        })
        .collect();
    PrunableStatistics::new(stats, Arc::new(schema()))
}

/// All multisets of `0..=max_rows` rows (by index into `nrows` distinct rows),
/// smallest first.
pub fn multisets(nrows: usize, max_rows: usize) -> Vec<Vec<usize>> {
    let mut out = vec![vec![]];
    let mut frontier: Vec<Vec<usize>> = vec![vec![]];
    for _ in 0..max_rows {
        let mut next = vec![];
        for m in &frontier {
            let start = m.last().copied().unwrap_or(0);
            for r in start..nrows {
                let mut m2 = m.clone();
                m2.push(r);
                next.push(m2);
            }
        }
        out.extend(next.iter().cloned());
        frontier = next;
    }
    out
}

/// Weakening patterns for `ncols` referenced columns: every subset of the
/// `4*ncols + 1` statistics when `ncols <= 2`; for more columns the same kind
/// of statistic is weakened on all columns together (2^5 patterns).
pub fn patterns(ncols: usize, reduced: bool) -> Vec<u32> {
    let nbits = 4 * ncols as u32 + 1;
    if ncols == 2 && reduced {
        // per column: all known, each single statistic unknown, only min/max known,
        // only counts+contained known, nothing known (8 of the 16 subsets); full
        // product over the two columns and the row count
        let per: [u32; 8] = [0b1111, 0b1110, 0b1101, 0b1011, 0b0111, 0b0011, 0b1100, 0b0000];
        let mut v = vec![];
        for a in per {
            for b in per {
                for r in [1u32, 0] {
                    v.push(a | (b << 4) | (r << 8));
                }
            }
        }
        v.sort_by_key(|p| (nbits - p.count_ones(), *p));
        v
    } else if ncols <= 2 {
        let mut v: Vec<u32> = (0..(1u32 << nbits)).collect();
        // fully known first, then by number of unknowns
        v.sort_by_key(|p| (nbits - p.count_ones(), *p));
        v
    } else {
        let mut v = vec![];
        for m in 0..32u32 {
            let mut p = 0u32;
            for kind in 0..4 {
                if m & (1 << kind) != 0 {
                    for c in 0..ncols as u32 {
                        p |= 1 << (4 * c + kind);
                    }
                }
            }
            if m & 16 != 0 {
                p |= 1 << (nbits - 1);
            }
            v.push(p);
        }
        v.sort_by_key(|p| (nbits - p.count_ones(), *p));
        v
    }
}
