//! The check's own predicate language, a row-at-a-time evaluator with SQL
//! three-valued logic (shares no code with DataFusion), and the translation of
//! a predicate into a DataFusion logical `Expr`.
use arrow::datatypes::{DataType, Field, Schema};
use datafusion_common::ScalarValue;
use datafusion_expr::expr::{Between, Cast, InList, Like};
use datafusion_expr::{BinaryExpr, Expr, Operator, col, lit};
use serde::{Deserialize, Serialize};

/// Columns of the check's table: `i: Int64`, `s: Utf8`, `j: Int32`, `b: Boolean`.
pub const COLS: [&str; 4] = ["i", "s", "j", "b"];

pub fn schema() -> Schema {
    Schema::new(vec![
        Field::new("i", DataType::Int64, true),
        Field::new("s", DataType::Utf8, true),
        Field::new("j", DataType::Int32, true),
        Field::new("b", DataType::Boolean, true),
    ])
}

/// A value; `Null` is typed by the position it appears in.
#[derive(Serialize, Deserialize, Clone, Debug, Hash, PartialEq, Eq, PartialOrd, Ord)]
pub enum V {
    Null,
    I(i64),
    S(String),
    B(bool),
}

/// A row: one value per column of [`COLS`].
pub type Row = [V; 4];

#[derive(Serialize, Deserialize, Clone, Debug, Hash, PartialEq, Eq)]
pub enum T {
    /// column by index into [`COLS`]
    Col(usize),
    /// Int64 literal (None = NULL)
    I64(Option<i64>),
    /// Int32 literal
    I32(Option<i32>),
    Str(Option<String>),
    Bool(Option<bool>),
    /// `CAST(j AS BIGINT)`
    CastJ64,
    /// `TRY_CAST(j AS BIGINT)`
    TryCastJ64,
    /// `CAST(i AS INT)`
    CastI32,
    /// `CAST(i AS VARCHAR)`
    CastIStr,
    /// `i + 1`
    IPlus1,
    /// `i + CAST(j AS BIGINT)`
    IPlusJ,
    /// `-i`
    NegI,
    /// `CAST(-i AS INT)` (a cast wrapping a negated column: the operator flip of the inner rewrite must survive)
    CastNegI32,
    /// `TRY_CAST(-i AS INT)`
    TryCastNegI32,
    /// `-CAST(j AS BIGINT)`
    NegCastJ64,
}

#[derive(Serialize, Deserialize, Clone, Debug, Hash, PartialEq, Eq)]
pub enum P {
    Cmp(T, String, T),
    /// IS [NOT] DISTINCT FROM
    Distinct(T, T, bool),
    In(T, Vec<T>, bool),
    Like(T, String, bool),
    IsNull(T),
    IsNotNull(T),
    Between(T, T, T, bool),
    /// a boolean term used as a predicate (column `b` or a boolean literal)
    Term(T),
    Not(Box<P>),
    And(Box<P>, Box<P>),
    Or(Box<P>, Box<P>),
}

impl T {
    pub fn cols(&self, out: &mut Vec<usize>) {
        let c = match self {
            T::Col(c) => vec![*c],
            T::CastJ64 | T::TryCastJ64 => vec![2],
            T::CastI32 | T::CastIStr | T::IPlus1 | T::NegI | T::CastNegI32 | T::TryCastNegI32 => vec![0],
            T::NegCastJ64 => vec![2],
            T::IPlusJ => vec![0, 2],
            _ => vec![],
        };
        for x in c {
            if !out.contains(&x) {
                out.push(x);
            }
        }
    }
    pub fn eval(&self, r: &Row) -> V {
        match self {
            T::Col(c) => r[*c].clone(),
            T::I64(v) => v.map(V::I).unwrap_or(V::Null),
            T::I32(v) => v.map(|x| V::I(x as i64)).unwrap_or(V::Null),
            T::Str(v) => v.clone().map(V::S).unwrap_or(V::Null),
            T::Bool(v) => v.map(V::B).unwrap_or(V::Null),
            T::CastJ64 | T::TryCastJ64 => r[2].clone(),
            T::CastI32 => r[0].clone(), // the domain fits Int32
            T::CastIStr => match &r[0] {
                V::I(x) => V::S(x.to_string()),
                _ => V::Null,
            },
            T::IPlus1 => match &r[0] {
                V::I(x) => V::I(x + 1),
                _ => V::Null,
            },
            T::IPlusJ => match (&r[0], &r[2]) {
                (V::I(x), V::I(y)) => V::I(x + y),
                _ => V::Null,
            },
            T::NegI | T::CastNegI32 | T::TryCastNegI32 => match &r[0] {
                V::I(x) => V::I(-x),
                _ => V::Null,
            },
            T::NegCastJ64 => match &r[2] {
                V::I(x) => V::I(-x),
                _ => V::Null,
            },
        }
    }
    pub fn show(&self) -> String {
        match self {
            T::Col(c) => COLS[*c].to_string(),
            T::I64(Some(v)) => format!("{v}"),
            T::I32(Some(v)) => format!("{v}::int"),
            T::Str(Some(v)) => format!("'{v}'"),
            T::Bool(Some(v)) => format!("{v}"),
            T::I64(None) | T::I32(None) | T::Str(None) | T::Bool(None) => "NULL".into(),
            T::CastJ64 => "CAST(j AS BIGINT)".into(),
            T::TryCastJ64 => "TRY_CAST(j AS BIGINT)".into(),
            T::CastI32 => "CAST(i AS INT)".into(),
            T::CastIStr => "CAST(i AS VARCHAR)".into(),
            T::IPlus1 => "i + 1".into(),
            T::IPlusJ => "i + CAST(j AS BIGINT)".into(),
            T::NegI => "-i".into(),
            T::CastNegI32 => "CAST(-i AS INT)".into(),
            T::TryCastNegI32 => "TRY_CAST(-i AS INT)".into(),
            T::NegCastJ64 => "-CAST(j AS BIGINT)".into(),
        }
    }
    pub fn expr(&self) -> Expr {
        match self {
            T::Col(c) => col(COLS[*c]),
            T::I64(v) => lit(ScalarValue::Int64(*v)),
            T::I32(v) => lit(ScalarValue::Int32(*v)),
            T::Str(v) => lit(ScalarValue::Utf8(v.clone())),
            T::Bool(v) => lit(ScalarValue::Boolean(*v)),
            T::CastJ64 => Expr::Cast(Cast::new(Box::new(col("j")), DataType::Int64)),
            T::TryCastJ64 => Expr::TryCast(datafusion_expr::expr::TryCast::new(Box::new(col("j")), DataType::Int64)),
            T::CastI32 => Expr::Cast(Cast::new(Box::new(col("i")), DataType::Int32)),
            T::CastIStr => Expr::Cast(Cast::new(Box::new(col("i")), DataType::Utf8)),
            T::IPlus1 => Expr::BinaryExpr(BinaryExpr::new(Box::new(col("i")), Operator::Plus, Box::new(lit(ScalarValue::Int64(Some(1)))))),
            T::IPlusJ => Expr::BinaryExpr(BinaryExpr::new(
                Box::new(col("i")),
                Operator::Plus,
                Box::new(Expr::Cast(Cast::new(Box::new(col("j")), DataType::Int64))),
            )),
            T::NegI => Expr::Negative(Box::new(col("i"))),
            T::CastNegI32 => Expr::Cast(Cast::new(Box::new(Expr::Negative(Box::new(col("i")))), DataType::Int32)),
            T::TryCastNegI32 => Expr::TryCast(datafusion_expr::expr::TryCast::new(Box::new(Expr::Negative(Box::new(col("i")))), DataType::Int32)),
            T::NegCastJ64 => Expr::Negative(Box::new(Expr::Cast(Cast::new(Box::new(col("j")), DataType::Int64)))),
        }
    }
}

fn cmp3(op: &str, a: &V, b: &V) -> Option<bool> {
    use std::cmp::Ordering::*;
    let o = match (a, b) {
        (V::Null, _) | (_, V::Null) => return None,
        (V::I(x), V::I(y)) => x.cmp(y),
        (V::S(x), V::S(y)) => x.as_bytes().cmp(y.as_bytes()),
        (V::B(x), V::B(y)) => x.cmp(y),
        _ => panic!("harness: ill-typed comparison {a:?} {op} {b:?}"),
    };
    Some(match op {
        "=" => o == Equal,
        "<>" => o != Equal,
        "<" => o == Less,
        "<=" => o != Greater,
        ">" => o == Greater,
        ">=" => o != Less,
        _ => panic!("harness: unknown comparison {op}"),
    })
}
fn not3(a: Option<bool>) -> Option<bool> {
    a.map(|x| !x)
}
fn and3(a: Option<bool>, b: Option<bool>) -> Option<bool> {
    match (a, b) {
        (Some(false), _) | (_, Some(false)) => Some(false),
        (Some(true), Some(true)) => Some(true),
        _ => None,
    }
}
fn or3(a: Option<bool>, b: Option<bool>) -> Option<bool> {
    match (a, b) {
        (Some(true), _) | (_, Some(true)) => Some(true),
        (Some(false), Some(false)) => Some(false),
        _ => None,
    }
}

/// SQL LIKE with `%` and `_` (no escape character), on characters.
pub fn like(s: &str, pat: &str) -> bool {
    fn go(s: &[char], p: &[char]) -> bool {
        match p.first() {
            None => s.is_empty(),
            Some('%') => (0..=s.len()).any(|k| go(&s[k..], &p[1..])),
            Some('_') => !s.is_empty() && go(&s[1..], &p[1..]),
            Some(c) => s.first() == Some(c) && go(&s[1..], &p[1..]),
        }
    }
    go(&s.chars().collect::<Vec<_>>(), &pat.chars().collect::<Vec<_>>())
}

fn op_of(op: &str) -> Operator {
    match op {
        "=" => Operator::Eq,
        "<>" => Operator::NotEq,
        "<" => Operator::Lt,
        "<=" => Operator::LtEq,
        ">" => Operator::Gt,
        ">=" => Operator::GtEq,
        _ => panic!("harness: unknown comparison {op}"),
    }
}

impl P {
    pub fn cols(&self) -> Vec<usize> {
        let mut out = vec![];
        self.cols_into(&mut out);
        out.sort();
        out
    }
    fn cols_into(&self, out: &mut Vec<usize>) {
        match self {
            P::Cmp(a, _, b) | P::Distinct(a, b, _) => {
                a.cols(out);
                b.cols(out);
            }
            P::In(a, l, _) => {
                a.cols(out);
                l.iter().for_each(|x| x.cols(out));
            }
            P::Like(a, _, _) | P::IsNull(a) | P::IsNotNull(a) | P::Term(a) => a.cols(out),
            P::Between(a, l, h, _) => {
                a.cols(out);
                l.cols(out);
                h.cols(out);
            }
            P::Not(p) => p.cols_into(out),
            P::And(a, b) | P::Or(a, b) => {
                a.cols_into(out);
                b.cols_into(out);
            }
        }
    }
    pub fn has_in_list(&self) -> bool {
        match self {
            P::In(..) => true,
            P::Not(p) => p.has_in_list(),
            P::And(a, b) | P::Or(a, b) => a.has_in_list() || b.has_in_list(),
            _ => false,
        }
    }
    /// Three-valued truth of the predicate on one row.
    pub fn eval(&self, r: &Row) -> Option<bool> {
        match self {
            P::Cmp(a, op, b) => cmp3(op, &a.eval(r), &b.eval(r)),
            P::Distinct(a, b, negated) => {
                let (x, y) = (a.eval(r), b.eval(r));
                let d = match (&x, &y) {
                    (V::Null, V::Null) => false,
                    (V::Null, _) | (_, V::Null) => true,
                    _ => cmp3("<>", &x, &y).unwrap(),
                };
                Some(if *negated { !d } else { d })
            }
            P::In(a, list, negated) => {
                let x = a.eval(r);
                let mut res = if x == V::Null { None } else { Some(false) };
                if x != V::Null {
                    let mut saw_null = false;
                    for e in list {
                        match cmp3("=", &x, &e.eval(r)) {
                            Some(true) => {
                                res = Some(true);
                                break;
                            }
                            None => saw_null = true,
                            _ => {}
                        }
                    }
                    if res == Some(false) && saw_null {
                        res = None;
                    }
                }
                if *negated { not3(res) } else { res }
            }
            P::Like(a, pat, negated) => match a.eval(r) {
                V::S(s) => Some(like(&s, pat) != *negated),
                V::Null => None,
                v => panic!("harness: LIKE on {v:?}"),
            },
            P::IsNull(a) => Some(a.eval(r) == V::Null),
            P::IsNotNull(a) => Some(a.eval(r) != V::Null),
            P::Between(a, l, h, negated) => {
                let x = a.eval(r);
                let res = and3(cmp3(">=", &x, &l.eval(r)), cmp3("<=", &x, &h.eval(r)));
                if *negated { not3(res) } else { res }
            }
            P::Term(a) => match a.eval(r) {
                V::B(b) => Some(b),
                V::Null => None,
                v => panic!("harness: non-boolean predicate term {v:?}"),
            },
            P::Not(p) => not3(p.eval(r)),
            P::And(a, b) => and3(a.eval(r), b.eval(r)),
            P::Or(a, b) => or3(a.eval(r), b.eval(r)),
        }
    }
    pub fn show(&self) -> String {
        match self {
            P::Cmp(a, op, b) => format!("{} {op} {}", a.show(), b.show()),
            P::Distinct(a, b, n) => format!("{} IS {}DISTINCT FROM {}", a.show(), if *n { "NOT " } else { "" }, b.show()),
            P::In(a, l, n) => format!("{} {}IN ({})", a.show(), if *n { "NOT " } else { "" }, l.iter().map(|x| x.show()).collect::<Vec<_>>().join(", ")),
            P::Like(a, p, n) => format!("{} {}LIKE '{p}'", a.show(), if *n { "NOT " } else { "" }),
            P::IsNull(a) => format!("{} IS NULL", a.show()),
            P::IsNotNull(a) => format!("{} IS NOT NULL", a.show()),
            P::Between(a, l, h, n) => format!("{} {}BETWEEN {} AND {}", a.show(), if *n { "NOT " } else { "" }, l.show(), h.show()),
            P::Term(a) => a.show(),
            P::Not(p) => format!("NOT ({})", p.show()),
            P::And(a, b) => format!("({}) AND ({})", a.show(), b.show()),
            P::Or(a, b) => format!("({}) OR ({})", a.show(), b.show()),
        }
    }
    pub fn expr(&self) -> Expr {
        match self {
            P::Cmp(a, op, b) => Expr::BinaryExpr(BinaryExpr::new(Box::new(a.expr()), op_of(op), Box::new(b.expr()))),
            P::Distinct(a, b, n) => Expr::BinaryExpr(BinaryExpr::new(
                Box::new(a.expr()),
                if *n { Operator::IsNotDistinctFrom } else { Operator::IsDistinctFrom },
                Box::new(b.expr()),
            )),
            P::In(a, l, n) => Expr::InList(InList::new(Box::new(a.expr()), l.iter().map(|x| x.expr()).collect(), *n)),
            P::Like(a, p, n) => Expr::Like(Like::new(*n, Box::new(a.expr()), Box::new(lit(ScalarValue::Utf8(Some(p.clone())))), None, false)),
            P::IsNull(a) => Expr::IsNull(Box::new(a.expr())),
            P::IsNotNull(a) => Expr::IsNotNull(Box::new(a.expr())),
            P::Between(a, l, h, n) => Expr::Between(Between::new(Box::new(a.expr()), *n, Box::new(l.expr()), Box::new(h.expr()))),
            P::Term(a) => a.expr(),
            P::Not(p) => Expr::Not(Box::new(p.expr())),
            P::And(a, b) => Expr::BinaryExpr(BinaryExpr::new(Box::new(a.expr()), Operator::And, Box::new(b.expr()))),
            P::Or(a, b) => Expr::BinaryExpr(BinaryExpr::new(Box::new(a.expr()), Operator::Or, Box::new(b.expr()))),
        }
    }
}

/// Value domain of each column (index into [`COLS`]). `variant` 1 swaps the
/// string domain for one around the largest code point (where "the next string
/// after this prefix" cannot be formed by incrementing the last character).
pub fn domain(c: usize, variant: u8) -> Vec<V> {
    match c {
        0 => vec![V::Null, V::I(1), V::I(2), V::I(3)],
        1 if variant == 1 => {
            vec![V::Null, V::S("a".into()), V::S("a\u{10FFFF}".into()), V::S("a\u{10FFFF}z".into()), V::S("b".into()), V::S("\u{10FFFF}b".into())]
        }
        1 => vec![V::Null, V::S("a".into()), V::S("ab".into()), V::S("b".into())],
        2 => vec![V::Null, V::I(1), V::I(2)],
        _ => vec![V::Null, V::B(false), V::B(true)],
    }
}

/// All rows over the given columns (other columns NULL), in canonical order.
pub fn rows_over(cols: &[usize], variant: u8) -> Vec<Row> {
    let mut out: Vec<Row> = vec![[V::Null, V::Null, V::Null, V::Null]];
    for &c in cols {
        let mut next = vec![];
        for r in &out {
            for v in domain(c, variant) {
                let mut r2 = r.clone();
                r2[c] = v;
                next.push(r2);
            }
        }
        out = next;
    }
    out
}

/// The atom menu. `core` is the smaller menu used for the deepest trees.
pub fn atoms(core: bool) -> Vec<P> {
    let i = || T::Col(0);
    let s = || T::Col(1);
    let j = || T::Col(2);
    let b = || T::Col(3);
    let n = |v: i64| T::I64(Some(v));
    let st = |v: &str| T::Str(Some(v.to_string()));
    let cmp = |a: T, op: &str, b: T| P::Cmp(a, op.to_string(), b);
    let mut v = vec![];
    if core {
        v.extend([
            cmp(i(), "=", n(2)),
            cmp(i(), "<>", n(2)),
            cmp(i(), "<", n(2)),
            cmp(i(), ">=", n(3)),
            cmp(i(), "=", T::I64(None)),
            P::In(i(), vec![n(1), n(3)], false),
            P::In(i(), vec![n(1), T::I64(None)], true),
            P::IsNull(i()),
            P::IsNotNull(i()),
            P::Between(i(), n(2), n(3), false),
            P::Distinct(i(), n(2), false),
            cmp(T::NegI, ">", n(-2)),
            cmp(T::CastNegI32, ">", T::I32(Some(-2))),
            cmp(T::TryCastNegI32, "<=", T::I32(Some(-2))),
            cmp(s(), "=", st("ab")),
            cmp(s(), ">", st("a")),
            cmp(s(), "<>", st("a")),
            P::Like(s(), "a%".into(), false),
            P::Like(s(), "a%".into(), true),
            P::Like(s(), "a_".into(), false),
            P::IsNull(s()),
            P::In(s(), vec![st("a"), st("b")], true),
            cmp(T::CastJ64, "=", n(2)),
            P::Term(b()),
            P::Not(Box::new(P::Term(b()))),
            P::Term(T::Bool(Some(false))),
            P::Term(T::Bool(None)),
        ]);
        return v;
    }
    for op in ["=", "<>", "<", "<=", ">", ">="] {
        for k in [1, 2, 3] {
            v.push(cmp(i(), op, n(k)));
        }
    }
    v.extend([cmp(i(), "=", T::I64(None)), cmp(i(), "<>", T::I64(None)), cmp(i(), "<", T::I64(None))]);
    v.extend([cmp(n(2), "<", i()), cmp(n(2), "=", i()), cmp(n(2), ">=", i()), cmp(n(0), "<", i()), cmp(i(), ">", n(4))]);
    v.extend([
        P::In(i(), vec![n(1), n(3)], false),
        P::In(i(), vec![n(2)], false),
        P::In(i(), vec![n(1), n(3)], true),
        P::In(i(), vec![n(2)], true),
        P::In(i(), vec![n(1), T::I64(None)], false),
        P::In(i(), vec![n(1), T::I64(None)], true),
        P::In(i(), vec![n(1), n(2), n(3)], false),
        P::In(i(), vec![n(1), n(2), n(3)], true),
        P::IsNull(i()),
        P::IsNotNull(i()),
        P::Between(i(), n(1), n(2), false),
        P::Between(i(), n(2), n(3), false),
        P::Between(i(), n(2), n(2), true),
        P::Between(i(), n(3), n(1), false),
        P::Distinct(i(), n(2), false),
        P::Distinct(i(), n(2), true),
        P::Distinct(i(), T::I64(None), false),
        P::Distinct(i(), T::I64(None), true),
        cmp(T::NegI, ">", n(-2)),
        cmp(T::NegI, "=", n(-3)),
        cmp(T::NegI, "<=", n(-2)),
        cmp(T::CastNegI32, ">", T::I32(Some(-2))),
        cmp(T::CastNegI32, "<", T::I32(Some(-1))),
        cmp(T::CastNegI32, ">=", T::I32(Some(-1))),
        cmp(T::I32(Some(-2)), "<", T::CastNegI32),
        cmp(T::TryCastNegI32, "<=", T::I32(Some(-2))),
        cmp(T::TryCastNegI32, ">", T::I32(Some(-3))),
        cmp(T::NegCastJ64, "<", n(-1)),
        cmp(T::NegCastJ64, ">=", n(-1)),
        cmp(T::IPlus1, "=", n(3)),
        cmp(T::IPlus1, ">", n(3)),
        cmp(T::IPlusJ, "=", n(3)),
        cmp(T::IPlusJ, ">", n(3)),
        cmp(T::CastI32, ">", T::I32(Some(1))),
        cmp(T::CastI32, "=", T::I32(Some(2))),
        cmp(T::CastIStr, "=", st("2")),
        cmp(T::CastIStr, "<", st("2")),
    ]);
    v.extend([
        cmp(T::CastJ64, "=", n(2)),
        cmp(T::CastJ64, "<", n(2)),
        cmp(T::CastJ64, ">", n(1)),
        cmp(T::CastJ64, "<>", n(1)),
        cmp(T::TryCastJ64, ">=", n(2)),
        cmp(j(), "=", T::I32(Some(1))),
        cmp(j(), ">", T::I32(Some(1))),
        P::In(j(), vec![T::I32(Some(1)), T::I32(Some(2))], false),
        P::In(j(), vec![T::I32(Some(1)), T::I32(Some(2))], true),
        P::IsNull(j()),
    ]);
    for op in ["=", "<>", "<", "<=", ">", ">="] {
        for k in ["a", "ab"] {
            v.push(cmp(s(), op, st(k)));
        }
    }
    v.extend([cmp(s(), "=", st("b")), cmp(s(), ">", st("b")), cmp(s(), "=", T::Str(None)), cmp(s(), "<", st("aa")), cmp(s(), ">=", st("ac"))]);
    for (p, neg) in [
        ("a%", false),
        ("a_", false),
        ("%a", false),
        ("ab", false),
        ("a%b", false),
        ("_b", false),
        ("b%", false),
        ("", false),
        ("%", false),
        ("ab%", false),
        ("a%", true),
        ("ab", true),
        ("a_", true),
        ("%a", true),
        ("b%", true),
        ("ab%", true),
        ("a%b", true),
        ("%", true),
    ] {
        v.push(P::Like(s(), p.to_string(), neg));
    }
    v.extend([
        P::In(s(), vec![st("a"), st("b")], false),
        P::In(s(), vec![st("a")], true),
        P::In(s(), vec![st("a"), st("ab"), st("b")], true),
        P::IsNull(s()),
        P::IsNotNull(s()),
        P::Distinct(s(), st("a"), false),
    ]);
    v.extend([
        P::Term(b()),
        P::Not(Box::new(P::Term(b()))),
        cmp(b(), "=", T::Bool(Some(true))),
        cmp(b(), "=", T::Bool(Some(false))),
        cmp(b(), "<>", T::Bool(Some(true))),
        P::IsNull(b()),
        P::IsNotNull(b()),
        P::Distinct(b(), T::Bool(Some(true)), false),
        P::Term(T::Bool(Some(true))),
        P::Term(T::Bool(Some(false))),
        P::Term(T::Bool(None)),
    ]);
    v
}

/// Atoms for the string domain of variant 1 (column `s` only).
pub fn unicode_atoms() -> Vec<P> {
    let s = || T::Col(1);
    let st = |v: &str| T::Str(Some(v.to_string()));
    let mut v = vec![];
    for pat in ["a\u{10FFFF}%", "\u{10FFFF}%", "a%", "a\u{10FFFF}_", "\u{10FFFF}b", "a\u{10FFFF}z%"] {
        v.push(P::Like(s(), pat.to_string(), false));
        v.push(P::Like(s(), pat.to_string(), true));
    }
    for op in ["=", "<>", "<", "<=", ">", ">="] {
        for k in ["a\u{10FFFF}", "b", "\u{10FFFF}b"] {
            v.push(P::Cmp(s(), op.to_string(), st(k)));
        }
    }
    v.push(P::In(s(), vec![st("a\u{10FFFF}"), st("b")], false));
    v.push(P::In(s(), vec![st("a\u{10FFFF}"), st("b")], true));
    v
}
