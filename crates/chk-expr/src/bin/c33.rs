//! C33 — expression evaluation strategies agree with row-by-row SQL semantics.
//!
//! Enumerated: every tree of the C04 grammar (no simplifier; COALESCE, which
//! has no evaluator of its own, excluded) plus strategy-selecting shapes — IN
//! lists of 1,2,3,4,8,9,16,17,32,33 items per element type (crossing the
//! branchless / hash-set filter thresholds) with and without a NULL item, with
//! a column item, hit and miss variants; CASE in every `EvalMethod`
//! (NoExpression, WithExpression, InfallibleExprOrNull, ScalarOrScalar,
//! ExpressionOrExpression, literal lookup table) including arms that would fail
//! (`1/0`, `CAST('x' AS BIGINT)`, `10/a`) guarded by a condition.
//! Each tree is evaluated by the real physical expression
//!  (a) on the exhaustive table as one batch,            route `batch`
//!  (b) row at a time (1-row batches),                    route `rows`
//!  (c) on every cut of every 6-row window in two batches, route `split`
//!  (d) through `evaluate_selection` with every mask over every 4-row window, route `sel`
//!  (e) with `s` encoded as Utf8View / LargeUtf8 / Dictionary<Int32,Utf8>, route `enc:*`
//!
//! Oracle: the independent row-at-a-time reference (`chk_expr::refexpr`).
//! Where the reference gives a value for every row of a batch the engine must
//! succeed and return exactly those values (CASE is lazy in the reference, so a
//! failing arm that no row of the batch reaches must not raise an error);
//! where the reference fails on some row the engine may fail, and if it does
//! not, the other rows are still compared. `evaluate_selection(mask)` is
//! judged on the selected rows only (against the reference and against
//! `evaluate` on the filtered batch).
use arrow::array::{Array, ArrayRef, BooleanArray};
use arrow::compute::{cast, concat, filter_record_batch};
use arrow::datatypes::{DataType, Field, Schema};
use arrow::record_batch::RecordBatch;
use chk_expr::dfx;
use chk_expr::exprgen as egen;
use chk_expr::refexpr::{self as rx, bin, cast as ecast, col, lb, li, li32, lf, lnull, ls, Fun, Lit, Op, RefErr, Ty, E, V};
use chk_expr::table::{self, Table};
use datafusion_common::DFSchema;
use datafusion_physical_expr::PhysicalExpr;
use mc_core::serde_json::{json, Value};
use mc_core::{rayon::prelude::*, run_check, Ctx, Level};
use serde::{Deserialize, Serialize};
use std::collections::BTreeMap;
use std::sync::{Arc, Mutex};

#[derive(Serialize, Deserialize, Clone, Debug)]
struct Case {
    e: E,
    /// None = all routes
    route: Option<String>,
}

#[derive(Default)]
struct Stats {
    c: BTreeMap<&'static str, u64>,
    evals: u64,
    nontrivial: Vec<E>,
    samples: Vec<Value>,
}
impl Stats {
    fn add(&mut self, k: &'static str, n: u64) {
        *self.c.entry(k).or_insert(0) += n;
    }
}

struct Viol {
    route: String,
    what: String,
}

fn show_v(v: &V) -> String {
    match v {
        V::Null => "NULL".into(),
        V::I32(x) => format!("{x}i32"),
        V::I64(x) => format!("{x}"),
        V::F64(x) => format!("{x:?}"),
        V::Str(s) => format!("'{s}'"),
        V::Bool(b) => format!("{b}"),
        V::Date(d) => format!("date({d})"),
    }
}
fn show_row(t: &Table, i: usize, cols: &[String]) -> String {
    let parts: Vec<String> = cols.iter().map(|c| format!("{c}={}", show_v(&t.get(i)(c)))).collect();
    format!("{{{}}}", parts.join(", "))
}

fn sch(n: &str) -> Option<Ty> {
    table::col_type(n)
}

/// Judge one engine result (values for `rows`, in order, or an error) against
/// the reference. `None` = fine / no verdict.
fn judge(
    engine: &Result<Vec<V>, String>,
    rows: &[usize],
    refvals: &[Result<V, RefErr>],
    t: &Table,
    cols: &[String],
    st: &mut Stats,
) -> Option<String> {
    match engine {
        Err(e) => {
            if rows.iter().all(|r| refvals[*r].is_ok()) {
                let shown: Vec<String> = rows.iter().take(6).map(|r| show_row(t, *r, cols)).collect();
                Some(format!(
                    "engine fails with `{e}` although every row of the batch has a defined value (rows {}{})",
                    shown.join(" "),
                    if rows.len() > 6 { " ..." } else { "" }
                ))
            } else {
                st.add("engine_error_where_reference_fails_or_declines", 1);
                None
            }
        }
        Ok(vals) => {
            if vals.len() != rows.len() {
                return Some(format!("engine returned {} values for {} rows", vals.len(), rows.len()));
            }
            for (k, r) in rows.iter().enumerate() {
                match &refvals[*r] {
                    Ok(rv) => {
                        st.add("rows_compared", 1);
                        if !vals[k].same(rv) {
                            return Some(format!(
                                "row {}: engine = {}, reference = {}",
                                show_row(t, *r, cols),
                                show_v(&vals[k]),
                                show_v(rv)
                            ));
                        }
                    }
                    Err(RefErr::Declined(_)) => st.add("reference_declined_rows", 1),
                    Err(RefErr::Fails(_)) => st.add("engine_value_where_reference_fails_rows", 1),
                }
            }
            None
        }
    }
}

fn eval_vals(p: &Arc<dyn PhysicalExpr>, b: &RecordBatch) -> (Result<Vec<V>, String>, Option<DataType>) {
    match dfx::eval_batch(p, b) {
        Ok(a) => (dfx::array_values(&a), Some(a.data_type().clone())),
        Err(e) => (Err(e), None),
    }
}

fn windows(n: usize, w: usize, max_windows: usize) -> Vec<(usize, usize)> {
    let mut out = vec![];
    let mut s = 0;
    while s < n && out.len() < max_windows {
        let len = w.min(n - s);
        out.push((s, len));
        s += w;
    }
    out
}

fn masks3(n: usize, with_null: bool) -> Vec<Vec<Option<bool>>> {
    let alpha: Vec<Option<bool>> = if with_null { vec![Some(true), Some(false), None] } else { vec![Some(true), Some(false)] };
    let mut out: Vec<Vec<Option<bool>>> = vec![vec![]];
    for _ in 0..n {
        let mut next = vec![];
        for m in &out {
            for a in &alpha {
                let mut m2 = m.clone();
                m2.push(*a);
                next.push(m2);
            }
        }
        out = next;
    }
    out
}

fn check_expr(e: &E, only: Option<&str>, thorough: bool, st: &mut Stats) -> Option<Viol> {
    let want = |r: &str| only.map(|o| o == r).unwrap_or(true);
    let coerced = match mc_core::catch(|| dfx::coerce(dfx::to_df(e))) {
        Ok(Ok(x)) => x,
        Ok(Err(_)) => {
            st.add("discarded_coercion_rejects", 1);
            return None;
        }
        Err(p) => return Some(Viol { route: "coerce".into(), what: format!("type coercion panicked: {p}") }),
    };
    let cols = e.columns();
    let t = table::table_for(&cols);
    let p = match mc_core::catch(|| dfx::plan(&coerced)) {
        Ok(Ok(p)) => p,
        Ok(Err(_)) => {
            st.add("discarded_not_plannable", 1);
            return None;
        }
        Err(pn) => return Some(Viol { route: "plan".into(), what: format!("planning panicked: {pn}") }),
    };
    st.add("expressions", 1);
    let static_ty = rx::type_of(e, &sch).ok().flatten();
    let refvals: Vec<Result<V, RefErr>> =
        (0..t.len()).map(|i| rx::eval(e, &t.get(i)).map(|v| rx::coerce_to(v, static_ty))).collect();
    // the reference must distinguish rows for the case to be interesting
    let distinct_outcomes = {
        let mut seen: Vec<String> = vec![];
        for r in &refvals {
            let s = match r {
                Ok(v) => show_v(v),
                Err(RefErr::Fails(_)) => "fails".into(),
                Err(RefErr::Declined(_)) => "declined".into(),
            };
            if !seen.contains(&s) {
                seen.push(s);
            }
        }
        seen.len()
    };
    let all_rows: Vec<usize> = (0..t.len()).collect();
    let mk = |route: &str, what: String| Some(Viol { route: route.to_string(), what: format!("{e} (physical: {p}); {what}") });

    // ---- (a) one batch
    let (full, full_dt) = eval_vals(&p, &t.batch);
    if let (Some(dt), Some(sty)) = (&full_dt, static_ty) {
        if dfx::ty_of_arrow(dt) != Some(sty) {
            st.add("skipped_type_model_differs", 1);
            return None;
        }
    }
    if want("batch") {
        st.evals += 1;
        if let Some(w) = judge(&full, &all_rows, &refvals, &t, &cols, st) {
            return mk("batch", w);
        }
    }
    // ---- (b) row at a time
    if want("rows") && t.len() <= if thorough { 1000 } else { 36 } {
        for i in 0..t.len() {
            st.evals += 1;
            let (r, dt) = eval_vals(&p, &t.row_batches[i]);
            if let Some(w) = judge(&r, &[i], &refvals, &t, &cols, st) {
                return mk("rows", format!("as a 1-row batch: {w}"));
            }
            if let (Some(a), Some(b)) = (&dt, &full_dt) {
                if a != b {
                    return mk("rows", format!("result type {a} for a 1-row batch but {b} for the whole table"));
                }
            }
        }
    }
    // ---- (c) two batches
    if want("split") {
        for (s0, len) in windows(t.len(), 6, if thorough { 1000 } else { 4 }) {
            for cut in 1..len {
                st.evals += 1;
                let b1 = t.batch.slice(s0, cut);
                let b2 = t.batch.slice(s0 + cut, len - cut);
                let (r1, _) = eval_vals(&p, &b1);
                let (r2, _) = eval_vals(&p, &b2);
                let rows1: Vec<usize> = (s0..s0 + cut).collect();
                let rows2: Vec<usize> = (s0 + cut..s0 + len).collect();
                if let Some(w) = judge(&r1, &rows1, &refvals, &t, &cols, st) {
                    return mk("split", format!("batch of rows {s0}..{}: {w}", s0 + cut));
                }
                if let Some(w) = judge(&r2, &rows2, &refvals, &t, &cols, st) {
                    return mk("split", format!("batch of rows {}..{}: {w}", s0 + cut, s0 + len));
                }
            }
        }
    }
    // ---- (d) evaluate_selection
    if want("sel") {
        for (s0, len) in windows(t.len(), 4, if thorough { 1000 } else { 4 }) {
            let wb = t.batch.slice(s0, len);
            for m in masks3(len, thorough) {
                st.evals += 1;
                let sel = BooleanArray::from(m.clone());
                let selected: Vec<usize> = (0..len).filter(|i| m[*i] == Some(true)).map(|i| s0 + i).collect();
                let r = mc_core::catch(|| p.evaluate_selection(&wb, &sel).and_then(|c| c.into_array(len)));
                let engine: Result<Vec<V>, String> = match r {
                    Ok(Ok(a)) => {
                        if a.len() != len {
                            Err(format!("WRONG-LENGTH: {} values for {len} rows", a.len()))
                        } else {
                            dfx::array_values(&a).map(|vs| (0..len).filter(|i| m[*i] == Some(true)).map(|i| vs[i].clone()).collect())
                        }
                    }
                    Ok(Err(e)) => Err(e.to_string().lines().next().unwrap_or("").chars().take(160).collect()),
                    Err(pn) => Err(format!("PANIC {pn}")),
                };
                if let Some(w) = judge(&engine, &selected, &refvals, &t, &cols, st) {
                    return mk("sel", format!("evaluate_selection on rows {s0}..{} with mask {m:?}: {w}", s0 + len));
                }
                // metamorphic twin: evaluate on the filtered batch
                if !selected.is_empty() {
                    let fb = filter_record_batch(&wb, &sel).expect("filter");
                    let (twin, _) = eval_vals(&p, &fb);
                    match (&engine, &twin) {
                        (Ok(a), Ok(b)) => {
                            if a.len() != b.len() || a.iter().zip(b).any(|(x, y)| !x.same_bits(y)) {
                                return mk(
                                    "sel",
                                    format!(
                                        "rows {s0}..{} mask {m:?}: evaluate_selection gives {:?} on the selected rows but evaluate on the filtered batch gives {:?}",
                                        s0 + len,
                                        a.iter().map(show_v).collect::<Vec<_>>(),
                                        b.iter().map(show_v).collect::<Vec<_>>()
                                    ),
                                );
                            }
                        }
                        (Ok(_), Err(e2)) | (Err(e2), Ok(_)) => {
                            return mk(
                                "sel",
                                format!(
                                    "rows {s0}..{} mask {m:?}: evaluate_selection and evaluate-on-filtered-batch disagree about failing ({e2})",
                                    s0 + len
                                ),
                            );
                        }
                        _ => {}
                    }
                }
            }
        }
    }
    // ---- (e) encodings of s
    if cols.iter().any(|c| c == "s") {
        for (name, dt) in [
            ("enc:view", DataType::Utf8View),
            ("enc:large", DataType::LargeUtf8),
            ("enc:dict", DataType::Dictionary(Box::new(DataType::Int32), Box::new(DataType::Utf8))),
        ] {
            if !want(name) {
                continue;
            }
            let (batch, dfs) = match encoded(&t, &dt) {
                Ok(x) => x,
                Err(_) => continue,
            };
            let dfs = Arc::new(dfs);
            let Ok(Ok(c2)) = mc_core::catch(|| dfx::coerce_with(dfx::to_df(e), &dfs)) else {
                st.add("encoding_variant_not_coercible", 1);
                continue;
            };
            let Ok(Ok(p2)) = mc_core::catch(|| dfx::plan_with(&c2, dfs.as_ref())) else {
                st.add("encoding_variant_not_plannable", 1);
                continue;
            };
            st.evals += 1;
            let (r, _) = eval_vals(&p2, &batch);
            if let Some(w) = judge(&r, &all_rows, &refvals, &t, &cols, st) {
                return Some(Viol {
                    route: name.to_string(),
                    what: format!("{e} with column s as {dt} (physical: {p2}); {w}"),
                });
            }
        }
    }
    if distinct_outcomes >= 2 {
        st.nontrivial.push(e.clone());
        if st.samples.is_empty() && e.nodes() >= 6 {
            st.samples.push(json!({"expr": e.to_string(), "physical": p.to_string(), "rows": t.len(),
                "distinct_reference_outcomes": distinct_outcomes}));
        }
    }
    None
}

fn encoded(t: &Table, dt: &DataType) -> Result<(RecordBatch, DFSchema), String> {
    let schema = t.batch.schema();
    let si = schema.index_of("s").map_err(|e| e.to_string())?;
    let mut fields: Vec<Field> = schema.fields().iter().map(|f| f.as_ref().clone()).collect();
    fields[si] = Field::new("s", dt.clone(), true);
    let mut cols: Vec<ArrayRef> = t.batch.columns().to_vec();
    cols[si] = cast(&cols[si], dt).map_err(|e| e.to_string())?;
    if let DataType::Dictionary(_, _) = dt {
        // make the dictionary less canonical: concat with itself sliced, so that
        // keys are not dense 0..n in order (values repeated in the dictionary)
        let twice = concat(&[cols[si].as_ref(), cols[si].as_ref()]).map_err(|e| e.to_string())?;
        cols[si] = twice.slice(cols[si].len(), cols[si].len());
    }
    let schema = Arc::new(Schema::new(fields));
    let batch = RecordBatch::try_new(schema.clone(), cols).map_err(|e| e.to_string())?;
    let dfs = DFSchema::try_from(schema.as_ref().clone()).map_err(|e| e.to_string())?;
    Ok((batch, dfs))
}

// ------------------------------------------------------ strategy shapes
fn in_e(e: E, list: Vec<E>, neg: bool) -> E {
    E::In { e: Box::new(e), list, neg }
}
fn case_s(whens: Vec<(E, E)>, els: Option<E>) -> E {
    E::Case { operand: None, whens, els: els.map(Box::new) }
}
fn case_o(op: E, whens: Vec<(E, E)>, els: Option<E>) -> E {
    E::Case { operand: Some(Box::new(op)), whens, els: els.map(Box::new) }
}

const IN_SIZES: [usize; 10] = [1, 2, 3, 4, 8, 9, 16, 17, 32, 33];

fn strategy_shapes() -> Vec<E> {
    let mut out = vec![];
    // ---- IN lists
    struct Spec {
        operands: Vec<E>,
        hits: Vec<E>,
        filler: Box<dyn Fn(usize) -> E>,
        null: E,
        col_item: Option<E>,
    }
    let date = |d: i32| E::Lit(Lit::Date(d));
    let specs = vec![
        Spec {
            operands: vec![col("a"), col("n"), bin(col("a"), Op::Add, li(1)), ecast(col("c"), Ty::I64)],
            hits: vec![li(1), li(2)],
            filler: Box::new(|i| li(100 + i as i64)),
            null: lnull(Ty::I64),
            col_item: Some(col("b")),
        },
        Spec {
            operands: vec![col("c")],
            hits: vec![li32(1), li32(-1)],
            filler: Box::new(|i| li32(100 + i as i32)),
            null: lnull(Ty::I32),
            col_item: None,
        },
        Spec {
            operands: vec![col("d"), E::Neg(Box::new(col("d")))],
            hits: vec![lf(1.0), lf(0.0)],
            filler: Box::new(|i| lf(100.5 + i as f64)),
            null: lnull(Ty::F64),
            col_item: None,
        },
        Spec {
            operands: vec![col("s"), E::Fun(Fun::Lower, vec![col("s")])],
            hits: vec![ls("a"), ls("")],
            filler: Box::new(|i| ls(&format!("x{i}"))),
            null: lnull(Ty::Str),
            col_item: Some(col("s")),
        },
        Spec {
            operands: vec![col("f"), col("p")],
            hits: vec![lb(true)],
            filler: Box::new(|_| lb(true)),
            null: lnull(Ty::Bool),
            col_item: Some(col("g")),
        },
        Spec {
            operands: vec![col("t")],
            hits: vec![date(rx::days_of(2024, 1, 1)), date(rx::days_of(2025, 1, 1))],
            filler: Box::new(|i| E::Lit(Lit::Date(30000 + i as i32))),
            null: E::Lit(Lit::Null(Ty::Date)),
            col_item: None,
        },
    ];
    for sp in &specs {
        for k in IN_SIZES {
            // variants: hit (domain values included), miss (fillers only)
            for hit in [true, false] {
                for with_null in [false, true] {
                    for with_col in [false, true] {
                        if with_col && sp.col_item.is_none() {
                            continue;
                        }
                        let mut items: Vec<E> = vec![];
                        if hit {
                            items.extend(sp.hits.iter().cloned());
                        }
                        let mut i = 0;
                        while items.len() < k {
                            items.push((sp.filler)(i));
                            i += 1;
                        }
                        items.truncate(k);
                        // put special items at varying positions
                        if with_null {
                            let pos = k / 2;
                            items[pos] = sp.null.clone();
                        }
                        if with_col {
                            let pos = k - 1;
                            items[pos] = sp.col_item.clone().unwrap();
                        }
                        for o in &sp.operands {
                            for neg in [false, true] {
                                out.push(in_e(o.clone(), items.clone(), neg));
                            }
                        }
                    }
                }
            }
        }
    }
    // signed zero in a float list
    out.push(in_e(col("d"), vec![lf(-0.0)], false));
    out.push(in_e(E::Neg(Box::new(col("d"))), vec![lf(0.0)], false));
    out.push(in_e(E::Neg(Box::new(col("d"))), vec![lf(0.0), lf(7.0)], true));

    // ---- CASE, every evaluation method, with guarded failing arms
    let div0 = bin(li(1), Op::Div, li(0));
    let badcast = ecast(ls("x"), Ty::I64);
    let ten_over_a = bin(li(10), Op::Div, col("a"));
    let a_eq = |k: i64| bin(col("a"), Op::Eq, li(k));
    let never = a_eq(99);
    let fails: Vec<E> = vec![div0.clone(), badcast.clone()];
    for f in &fails {
        // ExpressionOrExpression / InfallibleExprOrNull / ScalarOrScalar neighbourhood
        out.push(case_s(vec![(never.clone(), f.clone())], Some(col("a"))));
        out.push(case_s(vec![(never.clone(), f.clone())], None));
        out.push(case_s(vec![(never.clone(), f.clone())], Some(li(0))));
        out.push(case_s(vec![(bin(col("a"), Op::Ge, li(-5)), col("a"))], Some(f.clone())));
        out.push(case_s(vec![(rx::is(col("a"), rx::IsK::NotNull), li(1)), (rx::is(col("a"), rx::IsK::Null), li(2))], Some(f.clone())));
        out.push(case_s(vec![(lb(false), f.clone())], Some(col("a"))));
        out.push(case_s(vec![(lnull(Ty::Bool), f.clone())], Some(col("a"))));
        out.push(case_s(vec![(lb(true), col("a"))], Some(f.clone())));
        // NoExpression with a guarded middle arm
        out.push(case_s(vec![(a_eq(1), li(10)), (never.clone(), f.clone()), (a_eq(2), li(20))], Some(li(0))));
        out.push(case_s(vec![(a_eq(1), li(10)), (never.clone(), f.clone())], None));
        // WithExpression
        out.push(case_o(col("a"), vec![(li(99), f.clone())], Some(col("a"))));
        out.push(case_o(col("a"), vec![(li(1), li(10)), (li(99), f.clone())], Some(li(0))));
        out.push(case_o(col("a"), vec![(li(1), li(10)), (lnull(Ty::I64), f.clone())], Some(li(0))));
        out.push(case_o(col("n"), vec![(li(1), li(10))], Some(case_s(vec![(never.clone(), f.clone())], Some(li(5))))));
    }
    // data-dependent failure guarded by the condition
    out.push(case_s(vec![(bin(col("a"), Op::Ne, li(0)), ten_over_a.clone())], Some(li(0))));
    out.push(case_s(vec![(bin(col("a"), Op::Ne, li(0)), ten_over_a.clone())], None));
    out.push(case_s(vec![(a_eq(0), li(0))], Some(ten_over_a.clone())));
    out.push(case_s(vec![(rx::is(col("a"), rx::IsK::Null), li(-7)), (a_eq(0), li(0))], Some(ten_over_a.clone())));
    out.push(case_o(col("a"), vec![(li(0), li(0))], Some(ten_over_a.clone())));
    out.push(case_o(col("a"), vec![(li(0), li(0)), (li(1), ten_over_a.clone())], Some(li(3))));
    out.push(case_s(
        vec![(bin(col("n"), Op::Ne, li(0)), bin(li(10), Op::Mod, col("n")))],
        Some(li(0)),
    ));
    out.push(case_s(
        vec![(bin(col("s"), Op::Eq, ls("1")), ecast(col("s"), Ty::I64))],
        Some(li(-1)),
    ));
    out.push(case_s(
        vec![(bin(col("s"), Op::Eq, ls("1")), ecast(col("s"), Ty::I64)), (bin(col("s"), Op::Eq, ls("a")), li(7))],
        None,
    ));
    out.push(case_s(
        vec![(bin(bin(col("a"), Op::Ne, li(0)), Op::And, bin(col("b"), Op::Lt, li(5))), bin(col("b"), Op::Div, col("a")))],
        Some(col("b")),
    ));
    // literal lookup tables: all WHEN / THEN / ELSE literals
    let str_thens = [ls("x"), ls("y"), ls("z"), lnull(Ty::Str)];
    for els in [None, Some(ls("e")), Some(lnull(Ty::Str))] {
        for whens in [
            vec![li(1)],
            vec![li(1), li(2)],
            vec![li(1), lnull(Ty::I64), li(2)],
            vec![li(1), li(1), li(2)],
            vec![lnull(Ty::I64)],
            vec![li(2), li(0), li(-1), li(1)],
        ] {
            for o in [col("a"), col("n"), bin(col("a"), Op::Add, li(1))] {
                let wt: Vec<(E, E)> = whens.iter().enumerate().map(|(i, w)| (w.clone(), str_thens[i % 4].clone())).collect();
                out.push(case_o(o.clone(), wt, els.clone()));
                let wt2: Vec<(E, E)> = whens.iter().enumerate().map(|(i, w)| (w.clone(), li(10 * (i as i64 + 1)))).collect();
                out.push(case_o(o.clone(), wt2, els.as_ref().map(|_| li(-1))));
            }
        }
        for whens in [vec![ls("a")], vec![ls("a"), ls("ab")], vec![ls("a"), lnull(Ty::Str), ls("")], vec![ls("A"), ls("a"), ls("a")]] {
            for o in [col("s"), E::Fun(Fun::Lower, vec![col("s")])] {
                let wt: Vec<(E, E)> = whens.iter().enumerate().map(|(i, w)| (w.clone(), li(i as i64 + 1))).collect();
                out.push(case_o(o.clone(), wt, els.as_ref().map(|_| li(0))));
            }
        }
    }
    for whens in [vec![lb(true)], vec![lb(true), lb(false)], vec![lb(false), lnull(Ty::Bool)]] {
        for o in [col("f"), col("p")] {
            let wt: Vec<(E, E)> = whens.iter().enumerate().map(|(i, w)| (w.clone(), li(i as i64 + 1))).collect();
            out.push(case_o(o.clone(), wt.clone(), None));
            out.push(case_o(o.clone(), wt, Some(li(0))));
        }
    }
    for whens in [vec![lf(1.0)], vec![lf(0.0), lf(2.5)], vec![lf(-0.0)]] {
        let wt: Vec<(E, E)> = whens.iter().enumerate().map(|(i, w)| (w.clone(), li(i as i64 + 1))).collect();
        out.push(case_o(col("d"), wt.clone(), Some(li(0))));
        out.push(case_o(E::Neg(Box::new(col("d"))), wt, Some(li(0))));
    }
    // ScalarOrScalar / InfallibleExprOrNull with every condition shape
    let conds = [col("f"), col("p"), rx::not(col("f")), a_eq(1), rx::is(col("f"), rx::IsK::Null), lb(true), lb(false), lnull(Ty::Bool)];
    for c in &conds {
        for (th, el) in [
            (li(1), Some(li(2))),
            (lnull(Ty::I64), Some(li(2))),
            (li(1), Some(lnull(Ty::I64))),
            (ls("t"), Some(ls("e"))),
            (lb(true), Some(lb(false))),
            (col("a"), None),
            (col("s"), None),
            (li(1), None),
            (col("a"), Some(col("b"))),
            (bin(col("a"), Op::Add, li(1)), None),
        ] {
            out.push(case_s(vec![(c.clone(), th.clone())], el.clone()));
        }
    }
    out
}

// ------------------------------------------------------------------ driver
fn flush(ctx: &Ctx, st: Stats) {
    ctx.evals(st.evals);
    for (k, v) in &st.c {
        ctx.count(k, *v);
    }
    for e in &st.nontrivial {
        ctx.nontrivial(e);
    }
    for s in st.samples {
        if ctx.want_sample() {
            ctx.sample(s);
        }
    }
}

struct Found {
    nodes: usize,
    text: String,
    family: String,
    key: String,
    what: String,
    case: Value,
}

fn root_kind(e: &E) -> String {
    match e {
        E::Col(_) | E::Lit(_) => "leaf".into(),
        E::Bin(_, op, _) => if op.is_cmp() {
            "Cmp"
        } else if op.is_arith() {
            "Arith"
        } else if op.is_bit() {
            "Bit"
        } else if op.is_regex() {
            "Regex"
        } else {
            "AndOr"
        }
        .to_string(),
        E::Not(_) => "Not".into(),
        E::Neg(_) => "Neg".into(),
        E::Is(..) => "Is".into(),
        E::In { .. } => "In".into(),
        E::Between { .. } => "Between".into(),
        E::Case { operand, .. } => if operand.is_some() { "CaseOf".into() } else { "Case".into() },
        E::Cast { try_, .. } => if *try_ { "TryCast".into() } else { "Cast".into() },
        E::Like { .. } => "Like".into(),
        E::Fun(f, _) => format!("{f:?}"),
    }
}

fn family_of(route: &str, e: &E) -> String {
    let mut ks: Vec<String> = vec![];
    e.for_children(&mut |c| {
        let k = root_kind(c);
        if k != "leaf" && !ks.contains(&k) {
            ks.push(k)
        }
    });
    ks.sort();
    format!("{route}:{}({})", root_kind(e), ks.join(","))
}

fn explore(ctx: &Ctx) {
    let thorough = ctx.thorough();
    let space = egen::space(thorough);
    let mut exprs: Vec<E> = strategy_shapes();
    let n_shapes = exprs.len();
    exprs.extend(space.exprs.into_iter().filter(|e| !e.contains(&|x| matches!(x, E::Fun(Fun::Coalesce, _)))));
    exprs.sort_by_cached_key(|e| e.nodes());
    ctx.set_extra(
        "bounds",
        json!({
            "grammar": space.description,
            "depth": "trees of depth <= 2 of the grammar in both tiers (thorough: the larger literal / context menus); the depth-3 seeds listed in the grammar description are not used by this check",
            "strategy_shapes": n_shapes,
            "in_list_sizes": IN_SIZES,
            "row_table": table::columns().iter().map(|c| format!("{}: {:?}{} {} values", c.name, c.ty, if c.nullable { "" } else { " NOT NULL" }, c.domain.len())).collect::<Vec<_>>(),
            "routes": {
                "batch": "whole exhaustive table (product of the referenced columns' domains)",
                "rows": if thorough { "every row as a 1-row batch" } else { "every row as a 1-row batch, tables of <= 36 rows" },
                "split": if thorough { "every cut of every 6-row window" } else { "every cut of the first four 6-row windows" },
                "sel": if thorough { "every mask over {true,false,NULL} of every 4-row window" } else { "every mask over {true,false} of the first four 4-row windows" },
                "enc": "column s as Utf8View, LargeUtf8, Dictionary<Int32,Utf8> (non-canonical dictionary), whole table",
            },
        }),
    );
    ctx.assume("evaluate_selection is judged on the selected rows only (its value at unselected positions is not part of the property)");
    ctx.assume("AND / OR / IN / NULLIF are strict in the reference (an erroring operand makes the row 'may fail'); only CASE is lazy");
    ctx.assume("floats: +0.0 = -0.0 (SQL semantics); the reference declines on NaN");
    ctx.count("expression_trees_generated", exprs.len() as u64);
    let found: Mutex<Vec<Found>> = Mutex::new(vec![]);
    let run_one = |e: &E, st: &mut Stats| {
        if let Some(v) = check_expr(e, None, thorough, st) {
            let case = Case { e: e.clone(), route: Some(v.route.clone()) };
            found.lock().unwrap().push(Found {
                nodes: e.nodes(),
                text: e.to_string(),
                family: family_of(&v.route, e),
                key: format!("{}|{}", v.route, e),
                what: v.what,
                case: serde_json::to_value(&case).unwrap(),
            });
        }
    };
    exprs.par_chunks(64).for_each(|chunk| {
        let mut st = Stats::default();
        for e in chunk {
            if ctx.out_of_time() {
                break;
            }
            run_one(e, &mut st);
        }
        flush(ctx, st);
    });
    // deterministic reporting: smallest case of each family, minimal failures only
    let mut found = found.into_inner().unwrap();
    found.sort_by(|a, b| (a.nodes, &a.text, &a.key).cmp(&(b.nodes, &b.text, &b.key)));
    ctx.count("failing_expressions_total", found.len() as u64);
    {
        let failing: std::collections::HashSet<E> =
            found.iter().filter_map(|f| serde_json::from_value::<Case>(f.case.clone()).ok().map(|c| c.e)).collect();
        fn has_failing_subtree(e: &E, failing: &std::collections::HashSet<E>) -> bool {
            let mut hit = false;
            e.for_children(&mut |c| {
                if !hit && (failing.contains(c) || has_failing_subtree(c, failing)) {
                    hit = true;
                }
            });
            hit
        }
        found.retain(|f| match serde_json::from_value::<Case>(f.case.clone()) {
            Ok(c) => !has_failing_subtree(&c.e, &failing),
            _ => true,
        });
    }
    ctx.count("failing_expressions_minimal", found.len() as u64);
    let mut per_family: BTreeMap<String, u64> = BTreeMap::new();
    for f in &found {
        *per_family.entry(f.family.clone()).or_insert(0) += 1;
    }
    if !found.is_empty() {
        ctx.set_extra("failing_cases_per_family", json!(per_family));
    }
    let mut seen: Vec<String> = vec![];
    for f in found {
        if seen.contains(&f.family) {
            continue;
        }
        seen.push(f.family.clone());
        if seen.len() <= 40 {
            ctx.violation(f.key, format!("[family {}] {}", f.family, f.what), f.case);
        }
    }
}

fn replay(v: &Value) -> Result<(), String> {
    let c: Case = serde_json::from_value(v.clone()).map_err(|e| format!("bad case: {e}"))?;
    let mut st = Stats::default();
    match check_expr(&c.e, c.route.as_deref(), true, &mut st) {
        Some(v) => Err(format!("[{}] {}", v.route, v.what)),
        None => Ok(()),
    }
}

fn main() {
    mc_core::quiet_panics();
    run_check(
        "C33",
        Level::Exploration,
        "every expression tree of the typed grammar plus the strategy-selecting IN / CASE shapes (bounds) x routes {whole table, 1-row batches, every cut of 6-row windows, evaluate_selection with every mask over 4-row windows, three encodings of the string column}; \
         one evaluation = one call of evaluate / evaluate_selection on one batch compared with the reference on all its rows; \
         non-trivial = an expression for which the reference produces at least two different outcomes across the rows of its table and every route was judged",
        explore,
        replay,
    );
}
