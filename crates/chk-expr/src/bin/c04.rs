//! C04 — expression simplification never changes an expression's value.
//!
//! Exhaustive over: every expression tree of the typed grammar in
//! `chk_expr::exprgen` (depth <= 2 quick, <= 3 thorough) x every simplifier
//! configuration {canonicalize on/off} x {max cycles 1, 3}, the
//! `PhysicalExprSimplifier`, and `ExprSimplifier::with_guarantees` for every
//! guarantee of the menu whose column the tree references (pairs in thorough)
//! x EVERY row of the exhaustive table over the referenced columns.
//!
//! Oracles:
//!  1. (primary, translation validation) original and simplified expression are
//!     both evaluated by the real physical evaluator; on every row on which the
//!     original evaluates (decided row-at-a-time when the batch evaluation
//!     fails) the simplified one must evaluate to the same value / NULL-ness,
//!     and the arrow data type must be the same. With guarantees only rows
//!     satisfying them are compared.
//!  2. (secondary) wherever the original evaluates and the independent
//!     reference (`chk_expr::refexpr`) gives a value, both are equal.
//!  3. COALESCE has no evaluator of its own (it exists only through its
//!     rewrite): there the simplified expression is compared with the reference.
//!  4. `simplify_predicates` (filter context): the conjunction of the returned
//!     predicates is TRUE on exactly the rows where the conjunction of the
//!     input predicates is TRUE.
use chk_expr::dfx::{self, Evald};
use chk_expr::exprgen as egen;
use chk_expr::guar::{self, Guar};
use chk_expr::refexpr::{self as rx, col, li, lnull, Op, RefErr, Ty, E, V};
use chk_expr::table::{self, Table};
use datafusion_expr::Expr;
use datafusion_optimizer::simplify_expressions::{simplify_predicates, ExprSimplifier};
use datafusion_physical_expr::simplifier::PhysicalExprSimplifier;
use mc_core::serde_json::{json, Value};
use mc_core::{rayon::prelude::*, run_check, Ctx, Level};
use serde::{Deserialize, Serialize};
use std::collections::BTreeMap;
use std::sync::Mutex;

#[derive(Serialize, Deserialize, Clone, Debug)]
enum Case {
    /// one expression; `cfg` = None runs every configuration
    Expr { e: E, cfg: Option<String> },
    /// a list of conjuncts for `simplify_predicates`
    Preds { preds: Vec<E> },
}

#[derive(Default)]
struct Stats {
    c: BTreeMap<&'static str, u64>,
    evals: u64,
    nontrivial: Vec<E>,
    samples: Vec<Value>,
    notes: Vec<String>,
    errs: BTreeMap<String, u64>,
}
impl Stats {
    fn add(&mut self, k: &'static str, n: u64) {
        *self.c.entry(k).or_insert(0) += n;
    }
}

struct Found {
    nodes: usize,
    text: String,
    family: String,
    key: String,
    what: String,
    case: Value,
}

/// Family of a failing case: configuration kind, and (except for guarantee
/// configurations, where the guarantee itself is the family) the kind of the
/// root node and of its direct children.
fn family_of(cfg: &str, e: &E) -> String {
    fn kind(e: &E) -> String {
        match e {
            E::Col(_) | E::Lit(_) => "leaf".into(),
            E::Bin(_, op, _) => if op.is_cmp() {
                "Cmp"
            } else if op.is_arith() {
                "Arith"
            } else if op.is_bit() {
                "Bit"
            } else if op.is_regex() {
                "Regex"
            } else {
                "AndOr"
            }
            .to_string(),
            E::Not(_) => "Not".into(),
            E::Neg(_) => "Neg".into(),
            E::Is(..) => "Is".into(),
            E::In { .. } => "In".into(),
            E::Between { .. } => "Between".into(),
            E::Case { .. } => "Case".into(),
            E::Cast { try_, .. } => if *try_ { "TryCast".into() } else { "Cast".into() },
            E::Like { .. } => "Like".into(),
            E::Fun(f, _) => format!("{f:?}"),
        }
    }
    if cfg.starts_with("guar:") {
        return cfg.to_string();
    }
    let mut ks: Vec<String> = vec![];
    e.for_children(&mut |c| {
        let k = kind(c);
        if k != "leaf" && !ks.contains(&k) {
            ks.push(k)
        }
    });
    ks.sort();
    let ck = if cfg.starts_with("simp:") { "simp" } else { cfg };
    format!("{ck}:{}({})", kind(e), ks.join(","))
}

struct Viol {
    cfg: String,
    what: String,
}

fn show_row(t: &Table, i: usize, cols: &[String]) -> String {
    let parts: Vec<String> = cols
        .iter()
        .map(|c| {
            let v = t.get(i)(c);
            format!("{c}={}", show_v(&v))
        })
        .collect();
    format!("{{{}}}", parts.join(", "))
}
fn show_v(v: &V) -> String {
    match v {
        V::Null => "NULL".into(),
        V::I32(x) => format!("{x}i32"),
        V::I64(x) => format!("{x}"),
        V::F64(x) => format!("{x:?}"),
        V::Str(s) => format!("'{s}'"),
        V::Bool(b) => format!("{b}"),
        V::Date(d) => format!("date({d})"),
    }
}
fn show_r(r: &Result<V, String>) -> String {
    match r {
        Ok(v) => show_v(v),
        Err(e) => format!("ERROR({e})"),
    }
}

/// Primary oracle. Returns the number of rows compared.
fn compare_evals(
    orig: &Evald,
    simp: &Evald,
    mask: Option<&[bool]>,
    t: &Table,
    cols: &[String],
) -> Result<u64, String> {
    let mut n = 0;
    for i in 0..t.len() {
        if let Some(m) = mask {
            if !m[i] {
                continue;
            }
        }
        let Ok(ov) = &orig.vals[i] else { continue };
        n += 1;
        match &simp.vals[i] {
            Ok(sv) if ov.same(sv) => {}
            other => {
                return Err(format!(
                    "row {}: original = {}, simplified = {}",
                    show_row(t, i, cols),
                    show_v(ov),
                    show_r(other)
                ));
            }
        }
    }
    if n > 0 && orig.dt != simp.dt {
        return Err(format!("data type changed: original {:?}, simplified {:?}", orig.dt, simp.dt));
    }
    Ok(n)
}

fn sch(n: &str) -> Option<Ty> {
    table::col_type(n)
}

/// Triage aid only: `C04_SKIP=guar:6,phys` leaves out the named configurations
/// (prefix match) so that exploration can continue past an already understood
/// finding. Never set by `./check`; recorded in the evidence when set.
fn skip_list() -> Vec<String> {
    std::env::var("C04_SKIP").ok().map(|s| s.split(',').filter(|x| !x.is_empty()).map(|x| x.to_string()).collect()).unwrap_or_default()
}

const CONFIGS: [(bool, u32); 4] = [(true, 3), (false, 3), (true, 1), (false, 1)];

fn cfg_label(canon: bool, cycles: u32) -> String {
    format!("simp:canon={},cycles={}", canon as u8, cycles)
}

fn check_expr(e: &E, only: Option<&str>, thorough: bool, st: &mut Stats) -> Vec<Viol> {
    let mut viols = vec![];
    let skip = skip_list();
    if only.is_none() && skip.iter().any(|s| s == "shape:neg_bit") {
        let has_neg = e.contains(&|x| matches!(x, E::Neg(_)));
        let has_bit = e.contains(&|x| matches!(x, E::Bin(_, o, _) if o.is_bit()));
        if has_neg && has_bit {
            return vec![];
        }
    }
    let want = |c: &str| only.map(|o| o == c).unwrap_or_else(|| !skip.iter().any(|s| c.starts_with(s.as_str())));
    let df0 = dfx::to_df(e);
    let coerced = match mc_core::catch(|| dfx::coerce(df0)) {
        Ok(Ok(x)) => x,
        Ok(Err(_)) => {
            st.add("discarded_coercion_rejects", 1);
            return viols;
        }
        Err(p) => {
            viols.push(Viol { cfg: "coerce".into(), what: format!("type coercion panicked: {p}") });
            return viols;
        }
    };
    let cols = e.columns();
    let t = table::table_for(&cols);
    let porig = match mc_core::catch(|| dfx::plan(&coerced)) {
        Ok(Ok(p)) => p,
        Ok(Err(_)) => {
            st.add("discarded_not_plannable", 1);
            return viols;
        }
        Err(p) => {
            viols.push(Viol { cfg: "plan".into(), what: format!("planning panicked: {p}") });
            return viols;
        }
    };
    let orig = dfx::eval_table(&porig, &t);
    let n_ok = orig.vals.iter().filter(|v| v.is_ok()).count();
    st.add("expressions", 1);
    if n_ok == 0 {
        st.add("original_fails_on_every_row", 1);
    } else if n_ok < t.len() {
        st.add("original_fails_on_some_rows", 1);
    }

    // ---- reference values
    let static_ty = rx::type_of(e, &sch).ok().flatten();
    let refvals: Vec<Result<V, RefErr>> =
        (0..t.len()).map(|i| rx::eval(e, &t.get(i)).map(|v| rx::coerce_to(v, static_ty))).collect();
    let type_model_ok = match (&orig.dt, static_ty) {
        (Some(dt), Some(st_)) => dfx::ty_of_arrow(dt) == Some(st_),
        (None, _) => true,
        (Some(_), None) => false,
    };

    // ---- oracle 2: original == reference
    if want("ref") && n_ok > 0 {
        if !type_model_ok {
            st.add("reference_skipped_type_model_differs", 1);
            if st.notes.len() < 5 {
                st.notes.push(format!("type model differs: {e} : engine {:?} vs model {:?}", orig.dt, static_ty));
            }
        } else {
            st.evals += 1;
            let mut compared = 0;
            for i in 0..t.len() {
                let Ok(ov) = &orig.vals[i] else { continue };
                match &refvals[i] {
                    Ok(rv) => {
                        compared += 1;
                        if !ov.same(rv) {
                            viols.push(Viol {
                                cfg: "ref".into(),
                                what: format!(
                                    "evaluating {} (coerced: {}) on row {}: engine = {}, reference = {}",
                                    e,
                                    coerced,
                                    show_row(&t, i, &cols),
                                    show_v(ov),
                                    show_v(rv)
                                ),
                            });
                            break;
                        }
                    }
                    Err(RefErr::Declined(_)) => st.add("reference_declined_rows", 1),
                    Err(RefErr::Fails(_)) => st.add("engine_value_where_reference_fails_rows", 1),
                }
            }
            st.add("rows_compared_with_reference", compared);
        }
    }

    let coalesce_only = n_ok == 0 && e.contains(&|x| matches!(x, E::Fun(rx::Fun::Coalesce, _)));

    // ---- one simplified logical expression against the original
    let mut changed_any = false;
    let mut compared_any = false;
    let mut seen: Vec<(Expr, Option<Vec<bool>>)> = vec![];
    let mut run_variant = |label: String,
                           simplified: datafusion_common::Result<Expr>,
                           mask: Option<Vec<bool>>,
                           st: &mut Stats,
                           viols: &mut Vec<Viol>| {
        let simplified = match simplified {
            Ok(s) => s,
            Err(err) => {
                st.add("simplifier_returned_error", 1);
                {
                    let m = err.to_string();
                    let m = m.lines().next().unwrap_or("");
                    // drop quoted / numeric payloads so that kinds aggregate
                    let mut kind = String::new();
                    let mut in_q = false;
                    for ch in m.chars() {
                        if ch == '\'' {
                            in_q = !in_q;
                            if in_q {
                                kind.push_str("'..'");
                            }
                            continue;
                        }
                        if !in_q {
                            kind.push(ch);
                        }
                    }
                    let kind: String = kind.chars().take(90).collect();
                    *st.errs.entry(kind).or_insert(0) += 1;
                }
                if orig.batch_ok {
                    st.add("simplifier_error_while_original_evaluates_everywhere", 1);
                    if st.notes.len() < 8 {
                        let m = err.to_string();
                        st.notes.push(format!("simplify error ({label}) on {e}: {}", m.lines().next().unwrap_or("")));
                    }
                }
                return;
            }
        };
        if simplified == coerced {
            st.add("variants_unchanged", 1);
            return;
        }
        if seen.iter().any(|(s, m)| *s == simplified && *m == mask) {
            st.add("variants_duplicate", 1);
            return;
        }
        seen.push((simplified.clone(), mask.clone()));
        changed_any = true;
        st.add("variants_changed", 1);
        let psimp = match mc_core::catch(|| dfx::plan(&simplified)) {
            Ok(Ok(p)) => p,
            Ok(Err(err)) => {
                if n_ok > 0 {
                    viols.push(Viol {
                        cfg: label,
                        what: format!(
                            "{coerced} simplified to {simplified}, which cannot be planned: {}",
                            err.to_string().lines().next().unwrap_or("")
                        ),
                    });
                }
                return;
            }
            Err(p) => {
                viols.push(Viol { cfg: label, what: format!("planning {simplified} panicked: {p}") });
                return;
            }
        };
        let simp = dfx::eval_table(&psimp, &t);
        st.evals += 1;
        match compare_evals(&orig, &simp, mask.as_deref(), &t, &cols) {
            Ok(n) => {
                st.add("rows_compared", n);
                if n > 0 {
                    compared_any = true;
                    if st.samples.len() < 2 && e.nodes() >= 5 {
                        st.samples.push(json!({"expr": e.to_string(), "coerced": coerced.to_string(),
                            "config": label, "simplified": simplified.to_string(), "rows_compared": n}));
                    }
                }
            }
            Err(what) => viols.push(Viol { cfg: label.clone(), what: format!("{coerced} simplified to {simplified}; {what}") }),
        }
        // oracle 3: COALESCE (no evaluator of its own) against the reference
        if coalesce_only {
            let mut n = 0;
            for i in 0..t.len() {
                if let Some(m) = &mask {
                    if !m[i] {
                        continue;
                    }
                }
                if let Ok(rv) = &refvals[i] {
                    n += 1;
                    match &simp.vals[i] {
                        Ok(sv) if sv.same(rv) => {}
                        other => {
                            viols.push(Viol {
                                cfg: label.clone(),
                                what: format!(
                                    "{coerced} (COALESCE, defined by its rewrite) simplified to {simplified}; row {}: reference = {}, simplified = {}",
                                    show_row(&t, i, &cols),
                                    show_v(rv),
                                    show_r(other)
                                ),
                            });
                            break;
                        }
                    }
                }
            }
            if n > 0 {
                compared_any = true;
                st.add("rows_compared_coalesce_vs_reference", n);
            }
        }
    };

    for (ci, (canon, cycles)) in CONFIGS.into_iter().enumerate() {
        let label = cfg_label(canon, cycles);
        // quick tier: the first three configurations
        if !want(&label) || (ci == 3 && !thorough && only.is_none()) {
            continue;
        }
        let c2 = coerced.clone();
        let r = mc_core::catch(|| {
            ExprSimplifier::new(dfx::simplify_context()).with_canonicalize(canon).with_max_cycles(cycles).simplify(c2)
        });
        match r {
            Ok(r) => run_variant(label, r, None, st, &mut viols),
            Err(p) => viols.push(Viol { cfg: label, what: format!("simplifier panicked on {coerced}: {p}") }),
        }
    }

    // ---- guarantees
    let menu = guar::menu();
    let applicable: Vec<usize> = (0..menu.len()).filter(|i| cols.contains(&menu[*i].col)).collect();
    let mut sets: Vec<Vec<usize>> = applicable.iter().map(|i| vec![*i]).collect();
    if thorough || only.is_some() {
        for (x, i) in applicable.iter().enumerate() {
            for j in applicable.iter().skip(x + 1) {
                if menu[*i].col != menu[*j].col {
                    sets.push(vec![*i, *j]);
                }
            }
        }
    }
    for set in sets {
        let label = format!("guar:{}", set.iter().map(|i| i.to_string()).collect::<Vec<_>>().join("+"));
        if !want(&label) {
            continue;
        }
        let gs: Vec<&Guar> = set.iter().map(|i| &menu[*i]).collect();
        let mask: Vec<bool> = (0..t.len()).map(|r| gs.iter().all(|g| g.holds(&t.get(r)(&g.col)))).collect();
        if !mask.iter().any(|b| *b) {
            continue;
        }
        let dfg: Vec<_> = match gs.iter().map(|g| g.to_df()).collect::<datafusion_common::Result<Vec<_>>>() {
            Ok(v) => v,
            Err(_) => {
                st.add("guarantee_not_constructible", 1);
                continue;
            }
        };
        let c2 = coerced.clone();
        let r = mc_core::catch(|| ExprSimplifier::new(dfx::simplify_context()).with_guarantees(dfg).simplify(c2));
        st.add("guarantee_runs", 1);
        match r {
            Ok(r) => run_variant(label, r, Some(mask), st, &mut viols),
            Err(p) => viols.push(Viol {
                cfg: label,
                what: format!(
                    "simplifier panicked on {coerced} with guarantees [{}]: {p}",
                    gs.iter().map(|g| g.to_string()).collect::<Vec<_>>().join("; ")
                ),
            }),
        }
    }
    drop(run_variant);

    // ---- physical simplifier
    if want("phys") {
        let schema = dfx::arrow_schema();
        let p2 = porig.clone();
        match mc_core::catch(|| PhysicalExprSimplifier::new(schema.as_ref()).simplify(p2)) {
            Ok(Ok(ps)) => {
                if format!("{ps}") != format!("{porig}") || format!("{ps:?}") != format!("{porig:?}") {
                    st.add("phys_changed", 1);
                    changed_any = true;
                    let simp = dfx::eval_table(&ps, &t);
                    st.evals += 1;
                    match compare_evals(&orig, &simp, None, &t, &cols) {
                        Ok(n) => {
                            st.add("rows_compared", n);
                            if n > 0 {
                                compared_any = true;
                            }
                        }
                        Err(what) => viols.push(Viol {
                            cfg: "phys".into(),
                            what: format!("physical {porig} simplified to {ps}; {what}"),
                        }),
                    }
                } else {
                    st.add("phys_unchanged", 1);
                }
            }
            Ok(Err(err)) => {
                st.add("phys_simplifier_returned_error", 1);
                if orig.batch_ok && st.notes.len() < 8 {
                    st.notes.push(format!(
                        "physical simplify error on {porig}: {}",
                        err.to_string().lines().next().unwrap_or("")
                    ));
                }
            }
            Err(p) => {
                if n_ok > 0 {
                    viols.push(Viol {
                        cfg: "phys".into(),
                        what: format!("PhysicalExprSimplifier panicked on {porig}: {p}"),
                    })
                } else {
                    st.add("phys_panic_on_unevaluable_original", 1);
                }
            }
        }
    }
    if changed_any && compared_any {
        st.nontrivial.push(e.clone());
    }
    viols
}

// ------------------------------------------------------ simplify_predicates
fn conj(v: &[E]) -> E {
    let mut it = v.iter().cloned();
    let first = it.next().unwrap_or(rx::lb(true));
    it.fold(first, |acc, x| rx::bin(acc, Op::And, x))
}

fn check_preds(preds: &[E], st: &mut Stats) -> Option<String> {
    let dfs: Vec<Expr> = match preds.iter().map(|p| dfx::coerce(dfx::to_df(p))).collect() {
        Ok(v) => v,
        Err(_) => {
            st.add("preds_discarded", 1);
            return None;
        }
    };
    let whole = conj(preds);
    let cols = whole.columns();
    let t = table::table_for(&cols);
    let orig_e = dfs.iter().cloned().reduce(datafusion_expr::and).unwrap();
    let out = match mc_core::catch(|| simplify_predicates(dfs.clone())) {
        Ok(Ok(v)) => v,
        Ok(Err(_)) => {
            st.add("preds_simplifier_error", 1);
            return None;
        }
        Err(p) => return Some(format!("simplify_predicates panicked on [{}]: {p}", whole)),
    };
    st.evals += 1;
    let simp_e = out.iter().cloned().reduce(datafusion_expr::and).unwrap_or(datafusion_expr::lit(true));
    let (Ok(po), Ok(ps)) = (dfx::plan(&orig_e), dfx::plan(&simp_e)) else {
        st.add("preds_not_plannable", 1);
        return None;
    };
    let (eo, es) = (dfx::eval_table(&po, &t), dfx::eval_table(&ps, &t));
    let mut sorted_in: Vec<String> = dfs.iter().map(|x| x.to_string()).collect();
    let mut sorted_out: Vec<String> = out.iter().map(|x| x.to_string()).collect();
    sorted_in.sort();
    sorted_out.sort();
    if sorted_in != sorted_out {
        st.add("preds_changed", 1);
        st.nontrivial.push(whole.clone());
    }
    for i in 0..t.len() {
        let Ok(ov) = &eo.vals[i] else { continue };
        let o_true = matches!(ov, V::Bool(true));
        let s_true = matches!(&es.vals[i], Ok(V::Bool(true)));
        // independent cross-check of the filter decision
        if let Ok(rv) = rx::eval(&whole, &t.get(i)) {
            if matches!(rv, V::Bool(true)) != o_true {
                return Some(format!(
                    "conjunction {whole} on row {}: engine = {}, reference = {}",
                    show_row(&t, i, &cols),
                    show_v(ov),
                    show_v(&rv)
                ));
            }
        }
        if o_true != s_true {
            return Some(format!(
                "simplify_predicates([{}]) = [{}]; row {}: input conjunction = {}, output conjunction = {}",
                dfs.iter().map(|x| x.to_string()).collect::<Vec<_>>().join(", "),
                out.iter().map(|x| x.to_string()).collect::<Vec<_>>().join(", "),
                show_row(&t, i, &cols),
                show_v(ov),
                show_r(&es.vals[i])
            ));
        }
        st.add("preds_rows_compared", 1);
    }
    None
}

fn pred_space(thorough: bool) -> Vec<Vec<E>> {
    let lits = [li(0), li(1), li(2), lnull(Ty::I64)];
    let ops = [Op::Gt, Op::Ge, Op::Lt, Op::Le, Op::Eq];
    let mut atoms_a = vec![];
    for op in ops {
        for l in &lits {
            atoms_a.push(rx::bin(col("a"), op, l.clone()));
            atoms_a.push(rx::bin(l.clone(), op, col("a")));
        }
    }
    let atoms_b = vec![
        rx::bin(col("b"), Op::Gt, li(1)),
        rx::bin(col("b"), Op::Lt, li(2)),
        rx::bin(li(1), Op::Le, col("b")),
        rx::bin(col("b"), Op::Eq, li(1)),
        rx::bin(col("a"), Op::Lt, col("b")),
        rx::bin(col("a"), Op::Ne, li(1)),
        col("f"),
    ];
    let mut out = vec![];
    for x in &atoms_a {
        for y in &atoms_a {
            out.push(vec![x.clone(), y.clone()]);
            for z in &atoms_b {
                out.push(vec![x.clone(), z.clone(), y.clone()]);
            }
        }
    }
    let third: Vec<E> = if thorough { atoms_a.clone() } else { atoms_a.iter().step_by(4).cloned().collect() };
    for x in &atoms_a {
        for y in &atoms_a {
            for z in &third {
                out.push(vec![x.clone(), y.clone(), z.clone()]);
            }
        }
    }
    out
}

// ------------------------------------------------------------------ driver
fn flush(ctx: &Ctx, st: Stats) {
    ctx.evals(st.evals);
    for (k, v) in &st.c {
        ctx.count(k, *v);
    }
    for e in &st.nontrivial {
        ctx.nontrivial(e);
    }
    for s in st.samples {
        if ctx.want_sample() {
            ctx.sample(s);
        }
    }
    for n in st.notes {
        if NOTES.fetch_add(1, std::sync::atomic::Ordering::Relaxed) < 12 {
            ctx.assume(&format!("note: {n}"));
        }
    }
    let mut g = ERRS.lock().unwrap();
    for (k, v) in st.errs {
        *g.entry(k).or_insert(0) += v;
    }
}

static NOTES: std::sync::atomic::AtomicUsize = std::sync::atomic::AtomicUsize::new(0);
static ERRS: Mutex<BTreeMap<String, u64>> = Mutex::new(BTreeMap::new());

fn explore(ctx: &Ctx) {
    let thorough = ctx.thorough();
    let space = egen::space(thorough);
    ctx.set_extra("generation_s", json!(ctx.elapsed().as_secs_f64()));
    let rows: Vec<String> = table::columns()
        .iter()
        .map(|c| format!("{}: {:?}{} {} values", c.name, c.ty, if c.nullable { "" } else { " NOT NULL" }, c.domain.len()))
        .collect();
    ctx.set_extra(
        "bounds",
        json!({
            "grammar": space.description,
            "row_table": rows,
            "rows": "cartesian product of the domains of the referenced columns (<= 4 columns referenced)",
            "simplifier_configs": CONFIGS.iter().take(if thorough { 4 } else { 3 }).map(|(c, m)| cfg_label(*c, *m)).collect::<Vec<_>>(),
            "guarantee_menu": guar::menu().iter().map(|g| g.to_string()).collect::<Vec<_>>(),
            "guarantee_sets": if thorough { "singles and pairs on different columns" } else { "singles" },
        }),
    );
    ctx.assume("a simplifier call that returns Err (e.g. a literal cast that fails at plan time) is counted, not judged: the property speaks about the simplified expression's value");
    ctx.assume("floats: +0.0 and -0.0 are the same value; NaN equals NaN");
    ctx.assume("the reference declines (no verdict) on NaN, on float text outside plain decimal syntax and on regex syntax outside its subset");
    ctx.count("expression_trees_generated", space.exprs.len() as u64);
    let found: Mutex<Vec<Found>> = Mutex::new(vec![]);
    let run_one = |e: &E, st: &mut Stats| {
        let viols = check_expr(e, None, thorough, st);
        // one expression = one finding: the first violating configuration
        if let Some(v) = viols.into_iter().next() {
            let case = Case::Expr { e: e.clone(), cfg: Some(v.cfg.clone()) };
            found.lock().unwrap().push(Found {
                nodes: e.nodes(),
                text: e.to_string(),
                family: family_of(&v.cfg, e),
                key: format!("{}|{}", v.cfg, e),
                what: v.what,
                case: serde_json::to_value(&case).unwrap(),
            });
        }
    };
    space.exprs.par_chunks(64).for_each(|chunk| {
        let mut st = Stats::default();
        for e in chunk {
            if ctx.out_of_time() {
                break;
            }
            run_one(e, &mut st);
        }
        flush(ctx, st);
    });
    // thorough: depth-3 trees, generated on the fly around every depth-2 predicate
    space.d3_seeds.par_chunks(16).for_each(|chunk| {
        let mut st = Stats::default();
        for b in chunk {
            if ctx.out_of_time() {
                break;
            }
            for e in egen::d3_contexts(b) {
                st.add("depth3_trees", 1);
                run_one(&e, &mut st);
            }
        }
        flush(ctx, st);
    });
    ctx.set_extra("expressions_done_s", json!(ctx.elapsed().as_secs_f64()));
    let preds = pred_space(thorough);
    ctx.count("predicate_lists_generated", preds.len() as u64);
    preds.par_chunks(256).for_each(|chunk| {
        let mut st = Stats::default();
        for p in chunk {
            if ctx.out_of_time() {
                break;
            }
            if let Some(what) = check_preds(p, &mut st) {
                let case = Case::Preds { preds: p.clone() };
                let whole = conj(p);
                found.lock().unwrap().push(Found {
                    nodes: whole.nodes(),
                    text: whole.to_string(),
                    family: if whole.contains(&|x| matches!(x, E::Lit(rx::Lit::Null(_)))) {
                        "preds:with-NULL-literal".into()
                    } else {
                        "preds".into()
                    },
                    key: format!("preds|{whole}"),
                    what,
                    case: serde_json::to_value(&case).unwrap(),
                });
            }
        }
        flush(ctx, st);
    });
    ctx.set_extra("simplifier_error_kinds", json!(*ERRS.lock().unwrap()));
    // Report deterministically: group the failing cases into families (same
    // configuration kind, same set of node kinds), and report the smallest case
    // of each family, smallest families first.
    let mut found = found.into_inner().unwrap();
    found.sort_by(|a, b| (a.nodes, &a.text, &a.key).cmp(&(b.nodes, &b.text, &b.key)));
    ctx.count("failing_expressions_total", found.len() as u64);
    // drop failures that contain a smaller failing expression as a proper sub-tree
    {
        // (sub-tree must fail under the same kind of configuration)
        let kind_of = |f: &Found| f.key.split(|c| c == '|' || c == ',').next().unwrap_or("").to_string();
        let failing: std::collections::HashSet<(String, E)> = found
            .iter()
            .filter_map(|f| match serde_json::from_value::<Case>(f.case.clone()) {
                Ok(Case::Expr { e, .. }) => Some((kind_of(f), e)),
                _ => None,
            })
            .collect();
        fn has_failing_subtree(k: &str, e: &E, failing: &std::collections::HashSet<(String, E)>) -> bool {
            let mut hit = false;
            e.for_children(&mut |c| {
                if !hit && (failing.contains(&(k.to_string(), c.clone())) || has_failing_subtree(k, c, failing)) {
                    hit = true;
                }
            });
            hit
        }
        found.retain(|f| match serde_json::from_value::<Case>(f.case.clone()) {
            Ok(Case::Expr { e, .. }) => !has_failing_subtree(&kind_of(f), &e, &failing),
            _ => true,
        });
    }
    ctx.count("failing_expressions_minimal", found.len() as u64);
    let mut fams: Vec<String> = vec![];
    for f in &found {
        if !fams.contains(&f.family) {
            fams.push(f.family.clone());
        }
    }
    ctx.count("failing_families", fams.len() as u64);
    let mut per_family: BTreeMap<String, u64> = BTreeMap::new();
    for f in &found {
        *per_family.entry(f.family.clone()).or_insert(0) += 1;
    }
    if !found.is_empty() {
        ctx.set_extra("failing_cases_per_family", json!(per_family));
    }
    let mut seen: Vec<String> = vec![];
    for f in found {
        if seen.contains(&f.family) {
            continue;
        }
        seen.push(f.family.clone());
        if seen.len() <= 40 {
            ctx.violation(f.key, format!("[family {}] {}", f.family, f.what), f.case);
        }
    }
    if !skip_list().is_empty() {
        ctx.mark_capped(&format!("triage run: configurations skipped via C04_SKIP={:?}", skip_list()));
    }
}

fn replay(v: &Value) -> Result<(), String> {
    let c: Case = serde_json::from_value(v.clone()).map_err(|e| format!("bad case: {e}"))?;
    let mut st = Stats::default();
    match c {
        Case::Expr { e, cfg } => {
            let viols = check_expr(&e, cfg.as_deref(), true, &mut st);
            match viols.into_iter().next() {
                Some(v) => Err(format!("[{}] {}", v.cfg, v.what)),
                None => Ok(()),
            }
        }
        Case::Preds { preds } => match check_preds(&preds, &mut st) {
            Some(w) => Err(w),
            None => Ok(()),
        },
    }
}

fn main() {
    mc_core::quiet_panics();
    run_check(
        "C04",
        Level::Exploration,
        "every expression tree of the typed grammar (bounds.grammar) x every simplifier configuration, PhysicalExprSimplifier and applicable guarantee set x every row of the exhaustive table over the referenced columns; \
         one evaluation = one (expression, simplified variant) pair compared over all its rows (plus one per expression for the reference comparison); \
         non-trivial = an expression that at least one variant rewrote into a structurally different expression and for which at least one row was compared",
        explore,
        replay,
    );
}
