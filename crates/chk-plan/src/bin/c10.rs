//! C10 — repartitioning delivers every row exactly once to the right partition.
//!
//! Part `route` (style I): BatchPartitioner over every small batch × scheme ×
//! output count: each row exactly once, in the partition the scheme defines
//! (hash: independent `create_hashes(..) % n`; range: independent comparator).
//! Part `sched` (style E, engine evt): the real RepartitionExec over gated
//! sources: all orders of {release batch / end of input i, poll output j, drop
//! output j} within a deviation bound, with and without spilling and
//! order-preserving mode.
use arrow::array::{ArrayRef, Int64Array, RecordBatch};
use arrow::compute::SortOptions;
use chk_plan::evt::{self, Action, GatedSourceExec, Item, MemSpillFactory, RunRecord, SpillFaults, World, all_rows, int_batch, int_schema};
use datafusion_execution::disk_manager::DiskManagerBuilder;
use datafusion_common::hash_utils::create_hashes;
use datafusion_common::{ScalarValue, SplitPoint};
use datafusion_execution::TaskContext;
use datafusion_execution::config::SessionConfig;
use datafusion_execution::memory_pool::{FairSpillPool, MemoryPool, UnboundedMemoryPool};
use datafusion_execution::runtime_env::RuntimeEnvBuilder;
use datafusion_physical_expr::expressions::Column;
use datafusion_physical_expr::{LexOrdering, Partitioning, PhysicalExpr, PhysicalSortExpr, RangePartitioning};
use datafusion_physical_plan::ExecutionPlan;
use datafusion_physical_plan::metrics::{ExecutionPlanMetricsSet, MetricBuilder};
use datafusion_physical_plan::repartition::{BatchPartitioner, REPARTITION_RANDOM_STATE, RepartitionExec};
use mc_core::serde_json::{Value, json};
use mc_core::{Ctx, Level, enumerate, rayon::prelude::*, run_check};
use serde::{Deserialize, Serialize};
use std::cmp::Ordering;
use std::sync::Arc;

type Row = Vec<Option<i64>>; // [k, k2, id]

#[derive(Serialize, Deserialize, Clone, Debug, Hash, PartialEq)]
enum Scheme {
    Hash { keys: usize, n: usize },
    RoundRobin { n: usize },
    /// split points on column k, sort options (descending, nulls_first)
    Range { splits: Vec<Option<i64>>, desc: bool, nulls_first: bool },
}

fn col(name: &str, i: usize) -> Arc<dyn PhysicalExpr> {
    Arc::new(Column::new(name, i))
}

fn cmp_opt(a: Option<i64>, b: Option<i64>, desc: bool, nulls_first: bool) -> Ordering {
    match (a, b) {
        (None, None) => Ordering::Equal,
        (None, Some(_)) => if nulls_first { Ordering::Less } else { Ordering::Greater },
        (Some(_), None) => if nulls_first { Ordering::Greater } else { Ordering::Less },
        (Some(x), Some(y)) => if desc { y.cmp(&x) } else { x.cmp(&y) },
    }
}

impl Scheme {
    fn n(&self) -> usize {
        match self {
            Scheme::Hash { n, .. } | Scheme::RoundRobin { n } => *n,
            Scheme::Range { splits, .. } => splits.len() + 1,
        }
    }
    fn to_partitioning(&self) -> Partitioning {
        match self {
            Scheme::Hash { keys, n } => {
                let mut e = vec![col("k", 0)];
                if *keys >= 2 {
                    e.push(col("k2", 1));
                }
                Partitioning::Hash(e, *n)
            }
            Scheme::RoundRobin { n } => Partitioning::RoundRobinBatch(*n),
            Scheme::Range { splits, desc, nulls_first } => {
                let ord = LexOrdering::new(vec![PhysicalSortExpr::new(
                    col("k", 0),
                    SortOptions { descending: *desc, nulls_first: *nulls_first },
                )])
                .unwrap();
                let sp = splits.iter().map(|v| SplitPoint::new(vec![ScalarValue::Int64(*v)])).collect();
                Partitioning::Range(RangePartitioning::try_new(ord, sp).expect("valid split points"))
            }
        }
    }
    /// Independent routing rule; None = any output (round robin).
    fn expected_partition(&self, row: &Row) -> Option<usize> {
        match self {
            Scheme::RoundRobin { .. } => None,
            Scheme::Hash { keys, n } => {
                let mut arrays: Vec<ArrayRef> = vec![Arc::new(Int64Array::from(vec![row[0]]))];
                if *keys >= 2 {
                    arrays.push(Arc::new(Int64Array::from(vec![row[1]])));
                }
                let mut h = vec![0u64; 1];
                create_hashes(&arrays, REPARTITION_RANDOM_STATE.random_state(), &mut h).unwrap();
                Some((h[0] % (*n as u64)) as usize)
            }
            Scheme::Range { splits, desc, nulls_first } => {
                // number of split points <= row (row >= split)
                Some(splits.iter().filter(|s| cmp_opt(row[0], **s, *desc, *nulls_first) != Ordering::Less).count())
            }
        }
    }
}

fn schema() -> arrow::datatypes::SchemaRef {
    int_schema(&["k", "k2", "id"])
}

// ------------------------------------------------------------------ part: route

#[derive(Serialize, Deserialize, Clone, Debug, Hash)]
struct RouteCase {
    scheme: Scheme,
    batches: Vec<Vec<Row>>,
    input_partition: usize,
    num_inputs: usize,
}

fn run_route(c: &RouteCase) -> Result<(), String> {
    let metrics = ExecutionPlanMetricsSet::new();
    let timer = MetricBuilder::new(&metrics).subset_time("repart", 0);
    let mut p = BatchPartitioner::try_new(c.scheme.to_partitioning(), timer, c.input_partition, c.num_inputs)
        .map_err(|e| format!("try_new: {e}"))?;
    let n = c.scheme.n();
    let sch = schema();
    let mut seen: Vec<i64> = vec![];
    for b in &c.batches {
        let batch = int_batch(&sch, b);
        let mut outs: Vec<(usize, RecordBatch)> = vec![];
        p.partition(batch, |part, rb| {
            outs.push((part, rb));
            Ok(())
        })
        .map_err(|e| format!("partition: {e}"))?;
        let mut parts_of_batch = std::collections::BTreeSet::new();
        for (part, rb) in &outs {
            if *part >= n {
                return Err(format!("row sent to partition {part} >= {n}"));
            }
            parts_of_batch.insert(*part);
            for r in evt::int_rows(rb) {
                if let Some(exp) = c.scheme.expected_partition(&r) {
                    if exp != *part {
                        return Err(format!("row {r:?} sent to partition {part}, scheme {:?} selects {exp}", c.scheme));
                    }
                }
                seen.push(r[2].unwrap());
            }
        }
        if matches!(c.scheme, Scheme::RoundRobin { .. }) && !b.is_empty() && parts_of_batch.len() > 1 {
            return Err("round robin split one batch over several outputs".into());
        }
    }
    let mut want: Vec<i64> = c.batches.iter().flatten().map(|r| r[2].unwrap()).collect();
    want.sort();
    seen.sort();
    if seen != want {
        return Err(format!("rows delivered {seen:?} != rows sent {want:?} (lost or duplicated)"));
    }
    Ok(())
}

fn schemes(ctx: &Ctx) -> Vec<Scheme> {
    let mut v = vec![];
    let max_n = ctx.pick(5, 8);
    for n in 1..=max_n {
        v.push(Scheme::Hash { keys: 1, n });
        v.push(Scheme::Hash { keys: 2, n });
        v.push(Scheme::RoundRobin { n });
    }
    for desc in [false, true] {
        for nulls_first in [false, true] {
            // split points must be strictly increasing under the ordering
            let mut vals: Vec<Option<i64>> = vec![Some(1), Some(2), Some(3)];
            if desc {
                vals.reverse();
            }
            let ordered: Vec<Option<i64>> =
                if nulls_first { [vec![None], vals].concat() } else { [vals, vec![None]].concat() };
            for idx in enumerate::subsets_up_to(ordered.len(), 3) {
                let splits: Vec<Option<i64>> = idx.iter().map(|i| ordered[*i]).collect();
                v.push(Scheme::Range { splits, desc, nulls_first });
            }
        }
    }
    v
}

fn explore_route(ctx: &Ctx) {
    let keys = [None, Some(1), Some(2), Some(3)];
    let max_rows = ctx.pick(3, 4);
    let key_seqs = enumerate::sequences(&keys, 0, max_rows);
    let schemes = schemes(ctx);
    let mut cases = vec![];
    for s in &schemes {
        for ks in &key_seqs {
            // k2 alternates NULL/1 so that the two-key hash sees both
            let rows: Vec<Row> =
                ks.iter().enumerate().map(|(i, k)| vec![*k, if i % 2 == 0 { None } else { Some(1) }, Some(i as i64)]).collect();
            for split in enumerate::splits(rows.len(), 2) {
                let batches = enumerate::apply_split(&rows, &split);
                let inputs: Vec<(usize, usize)> =
                    if matches!(s, Scheme::RoundRobin { .. }) { vec![(0, 1), (1, 2), (2, 3)] } else { vec![(0, 1)] };
                for (ip, ni) in inputs {
                    cases.push(RouteCase { scheme: s.clone(), batches: batches.clone(), input_partition: ip, num_inputs: ni });
                }
            }
        }
    }
    ctx.set_extra("bounds_route", json!({"max_rows": max_rows, "key_domain": "NULL,1,2,3", "batches": "<=2", "schemes": schemes.len()}));
    cases.par_iter().for_each(|c| {
        if ctx.should_stop() {
            return;
        }
        ctx.eval();
        match mc_core::catch(|| run_route(c)).unwrap_or_else(Err) {
            Ok(()) => {
                let rows: usize = c.batches.iter().map(|b| b.len()).sum();
                if rows >= 2 && c.scheme.n() >= 2 {
                    ctx.nontrivial(c);
                    if ctx.want_sample() && rows == 3 {
                        ctx.sample(json!({"part": "route", "case": c}));
                    }
                }
            }
            Err(w) => ctx.violation(format!("route:{}", serde_json::to_string(c).unwrap()), w, json!({"route": c})),
        }
    });
}

// ------------------------------------------------------------------ part: sched

#[derive(Serialize, Deserialize, Clone, Debug, Hash)]
struct SchedCase {
    scheme: Scheme,
    /// per input partition: batches of rows (sorted by k asc nulls last when preserve_order)
    inputs: Vec<Vec<Vec<Row>>>,
    preserve_order: bool,
    /// memory pool limit for a FairSpillPool; None = unbounded
    pool_limit: Option<usize>,
    /// tiny max_spill_file_size so that files rotate at every batch
    rotate: bool,
    allow_drop: bool,
    prefix: Vec<usize>,
}

fn build_world(c: &SchedCase) -> World {
    let sch = schema();
    let scripts: Vec<Vec<Item>> =
        c.inputs.iter().map(|p| p.iter().map(|b| Item::Batch(int_batch(&sch, b))).collect()).collect();
    let ordering = if c.preserve_order {
        Some(LexOrdering::new(vec![PhysicalSortExpr::new(col("k", 0), SortOptions { descending: false, nulls_first: false })]).unwrap())
    } else {
        None
    };
    let src = GatedSourceExec::new("in", sch, scripts, ordering);
    let mut rep = RepartitionExec::try_new(src.clone() as Arc<dyn ExecutionPlan>, c.scheme.to_partitioning()).expect("repartition");
    if c.preserve_order {
        rep = rep.with_preserve_order();
    }
    let pool: Arc<dyn MemoryPool> = match c.pool_limit {
        Some(l) => Arc::new(FairSpillPool::new(l)),
        None => Arc::new(UnboundedMemoryPool::default()),
    };
    let spill = MemSpillFactory::new(SpillFaults::default());
    let rt = RuntimeEnvBuilder::new()
        .with_memory_pool(pool)
        .with_disk_manager_builder(DiskManagerBuilder::default().with_temp_file_factory(spill.clone()))
        .build_arc()
        .expect("runtime env");
    let mut cfg = SessionConfig::new().with_batch_size(8192);
    if c.rotate {
        cfg.options_mut().set("datafusion.execution.max_spill_file_size_bytes", "1").expect("set max_spill_file_size_bytes");
    }
    let ctx = Arc::new(TaskContext::default().with_session_config(cfg).with_runtime(rt));
    World { plan: Arc::new(rep), sources: vec![src], ctx, allow_drop: c.allow_drop, drop_after: None, max_steps: 400, spill: Some(spill.stats.clone()) }
}

fn check_sched(c: &SchedCase, rec: &RunRecord) -> Result<(), String> {
    if let Some(p) = &rec.panicked {
        return Err(format!("panic: {p}"));
    }
    if let Some(e) = &rec.execute_error {
        return Err(format!("execute failed: {e}"));
    }
    if rec.deadlock {
        return Err(format!("deadlock: no enabled action with unfinished outputs after {:?}", rec.actions));
    }
    let n = c.scheme.n();
    let all_in: Vec<Row> = c.inputs.iter().flatten().flatten().cloned().collect();
    let mut seen_ids: Vec<i64> = vec![];
    // position of the action that released the end-of-input of the last input
    let total_items: Vec<usize> = c.inputs.iter().map(|p| p.len() + 1).collect();
    for (j, o) in rec.outputs.iter().enumerate() {
        if let Some(e) = &o.error {
            if c.pool_limit.is_some() && e.contains("Resources exhausted") {
                // a budget too small for the unspillable part of the operator (e.g. the order-preserving
                // merge): a clean failure is allowed by the property ("memory budget that lets it finish")
                continue;
            }
            return Err(format!("output {j} reported an error without any fault injected: {e}"));
        }
        let rows = all_rows(&o.batches);
        for r in &rows {
            if let Some(exp) = c.scheme.expected_partition(r) {
                if exp != j {
                    return Err(format!("row {r:?} delivered to output {j}, scheme selects {exp}"));
                }
            }
            seen_ids.push(r[2].unwrap());
        }
        if c.preserve_order {
            let ks: Vec<Option<i64>> = rows.iter().map(|r| r[0]).collect();
            if !ks.windows(2).all(|w| cmp_opt(w[0], w[1], false, false) != Ordering::Greater) {
                return Err(format!("order-preserving output {j} is not sorted: {ks:?}"));
            }
        }
        if o.finished && !o.dropped && rec.outputs.iter().all(|x| x.error.is_none()) {
            // must have everything routed to it
            let want: Vec<i64> = all_in
                .iter()
                .filter(|r| c.scheme.expected_partition(r).map(|e| e == j).unwrap_or(false))
                .map(|r| r[2].unwrap())
                .collect();
            let mut got: Vec<i64> = rows.iter().map(|r| r[2].unwrap()).collect();
            got.sort();
            let mut w = want.clone();
            w.sort();
            if !matches!(c.scheme, Scheme::RoundRobin { .. }) && got != w {
                return Err(format!("output {j} ended with rows {got:?}, expected {w:?}"));
            }
            // end-of-stream only after every input ended
            let released: Vec<usize> = (0..c.inputs.len())
                .map(|p| rec.actions.iter().filter(|a| **a == Action::Release(0, p)).count())
                .collect();
            if released != total_items {
                return Err(format!("output {j} ended although inputs were not finished (released {released:?} of {total_items:?})"));
            }
        }
    }
    let mut s = seen_ids.clone();
    s.sort();
    let before = s.len();
    s.dedup();
    if s.len() != before {
        return Err(format!("a row was delivered twice: {seen_ids:?}"));
    }
    // every row of a fully consumed exchange was delivered (round robin included)
    if rec.outputs.iter().all(|o| o.finished && !o.dropped && o.error.is_none()) && s.len() != all_in.len() {
        return Err(format!("{} of {} rows delivered although every output was read to the end", s.len(), all_in.len()));
    }
    let _ = n;
    if rec.pool_reserved_end != 0 {
        return Err(format!("memory pool still has {} bytes reserved after all outputs finished/dropped", rec.pool_reserved_end));
    }
    if rec.live_spill_files_end != 0 {
        return Err(format!("{} spill files still alive after all outputs finished/dropped", rec.live_spill_files_end));
    }
    if rec.live_source_streams_end != 0 {
        return Err(format!("{} input streams still alive after all outputs finished/dropped", rec.live_source_streams_end));
    }
    Ok(())
}

fn run_sched(c: &SchedCase) -> (mc_core::explore::Trace, Result<(), String>, RunRecord) {
    let cc = c.clone();
    let build = move || build_world(&cc);
    let (trace, rec) = evt::run_one(&build, &c.prefix);
    let r = check_sched(c, &rec);
    (trace, r, rec)
}

fn sched_scenarios(ctx: &Ctx) -> Vec<SchedCase> {
    let r = |k: Option<i64>, id: i64| -> Row { vec![k, Some(1), Some(id)] };
    // layouts: inputs × batches (rows sorted by k within and across batches of one input)
    let layouts: Vec<Vec<Vec<Vec<Row>>>> = vec![
        vec![vec![vec![r(Some(1), 0), r(Some(2), 1)], vec![r(Some(3), 2)]]],
        vec![vec![vec![r(Some(1), 0)], vec![r(Some(2), 1), r(None, 2)]], vec![vec![r(Some(1), 3), r(Some(3), 4)]]],
        vec![vec![vec![r(Some(2), 0)]], vec![], vec![vec![r(Some(1), 1)], vec![r(Some(3), 2)]]],
    ];
    let schemes = vec![
        Scheme::Hash { keys: 1, n: 2 },
        Scheme::Hash { keys: 1, n: 3 },
        Scheme::RoundRobin { n: 2 },
        Scheme::Range { splits: vec![Some(2)], desc: false, nulls_first: false },
    ];
    let mut v = vec![];
    for (li, l) in layouts.iter().enumerate() {
        if ctx.quick() && li == 2 {
            continue;
        }
        for s in &schemes {
            for preserve in [false, true] {
                if preserve && l.len() < 2 {
                    continue;
                }
                for (pool, rotate) in [(None, false), (Some(1usize), false), (Some(1), true)] {
                    for allow_drop in [false, true] {
                        if ctx.quick() && allow_drop && (pool.is_some() && rotate) {
                            continue;
                        }
                        v.push(SchedCase {
                            scheme: s.clone(),
                            inputs: l.clone(),
                            preserve_order: preserve,
                            pool_limit: pool,
                            rotate,
                            allow_drop,
                            prefix: vec![],
                        });
                    }
                }
            }
        }
    }
    v
}

fn explore_sched(ctx: &Ctx) {
    let scenarios = sched_scenarios(ctx);
    let bound = ctx.pick(2, 3);
    ctx.set_extra("bounds_sched", json!({"scenarios": scenarios.len(), "deviation_bound": bound, "inputs": "1-3 partitions x 0-2 batches x 1-2 rows",
        "pools": "unbounded | FairSpillPool(1 byte) => every batch spills | + max_spill_file_size=1 (rotate every batch)", "drop": "with and without Drop(output) actions"}));
    let spilled = std::sync::atomic::AtomicU64::new(0);
    scenarios.par_iter().for_each(|sc| {
        let mut outcomes = std::collections::HashSet::new();
        let t0 = std::time::Instant::now();
        let stats = mc_core::explore::dfs_deviations(
            bound,
            |prefix| {
                let mut c = sc.clone();
                c.prefix = prefix.to_vec();
                let (trace, res, rec) = match mc_core::catch(|| run_sched(&c)) {
                    Ok(x) => x,
                    Err(p) => {
                        ctx.violation(format!("sched-panic:{}", serde_json::to_string(&c).unwrap()), p, json!({"sched": c}));
                        return mc_core::explore::Trace { choices: prefix.to_vec(), enabled: vec![1; prefix.len()] };
                    }
                };
                if std::env::var("C10_DETERMINISM").is_ok() {
                    let (t2, _, rec2) = run_sched(&c);
                    if t2.choices != trace.choices || t2.enabled != trace.enabled || rec2.actions != rec.actions {
                        eprintln!("NONDETERMINISTIC scenario {}\n  run1 {:?}\n  run2 {:?}",
                            serde_json::to_string(&c).unwrap(), rec.log, rec2.log);
                    }
                }
                if rec.diverged {
                    return trace;
                }
                ctx.eval();
                ctx.add_transitions(rec.steps as u64);
                ctx.count(if rec.spill_files_created == 0 { "sched_runs_without_spill" } else if rec.spill_files_created == 1 { "sched_runs_with_1_spill_file" } else { "sched_runs_with_2+_spill_files" }, 1);
                let key = format!("{:?}", rec.outputs.iter().map(|o| (all_rows(&o.batches), o.dropped)).collect::<Vec<_>>());
                if outcomes.insert(key.clone()) {
                    ctx.add_states(1);
                    ctx.nontrivial(&(serde_json::to_string(sc).unwrap(), key));
                }
                if let Err(w) = res {
                    // key by scenario + failing message class (first 80 chars) so one root cause = one finding
                    let mut min = c.clone();
                    min.prefix = trace.choices.clone();
                    let cls: String = w.chars().take(60).collect();
                    let mut scn = sc.clone();
                    scn.prefix = vec![];
                    ctx.violation(format!("sched:{}:{}", serde_json::to_string(&scn).unwrap(), cls), w, json!({"sched": min}));
                } else if ctx.want_sample() && rec.actions.len() > 6 {
                    ctx.sample(json!({"part": "sched", "scenario": sc, "actions": format!("{:?}", rec.actions),
                        "outputs": rec.outputs.iter().map(|o| format!("{:?}", all_rows(&o.batches))).collect::<Vec<_>>() }));
                }
                trace
            },
            || ctx.should_stop(),
        );
        if !stats.complete {
            ctx.mark_capped("wall cap hit during schedule exploration");
        }
        if stats.diverged > 0 {
            ctx.count("sched_replays_that_diverged", stats.diverged);
            ctx.mark_capped("some replays diverged from their prefix (nondeterminism inside the operator); their subtrees were not explored");
        }
        if std::env::var("C10_TIMING").is_ok() {
            eprintln!("scenario pool={:?} rotate={} drop={} preserve={} n_in={} : {} executions in {:.1}s", sc.pool_limit, sc.rotate, sc.allow_drop, sc.preserve_order, sc.inputs.len(), stats.executions, t0.elapsed().as_secs_f64());
        }
        let _ = &spilled;
    });
}

fn explore(ctx: &Ctx) {
    explore_route(ctx);
    explore_sched(ctx);
    ctx.assume("schedules are explored at poll granularity on a single-threaded runtime (all orders of environment events within the deviation bound)");
}

fn replay(v: &Value) -> Result<(), String> {
    if let Some(r) = v.get("route") {
        let c: RouteCase = serde_json::from_value(r.clone()).map_err(|e| e.to_string())?;
        return mc_core::catch(|| run_route(&c)).unwrap_or_else(Err);
    }
    if let Some(s) = v.get("sched") {
        let c: SchedCase = serde_json::from_value(s.clone()).map_err(|e| e.to_string())?;
        return mc_core::catch(|| run_sched(&c).1).unwrap_or_else(Err);
    }
    Err("unknown case kind".into())
}

fn main() {
    mc_core::quiet_panics();
    run_check(
        "C10",
        Level::ModelChecking,
        "route: every (scheme, output count, batch sequence of <=3-4 rows over keys {NULL,1,2,3}, cut into <=2 batches) through the real BatchPartitioner vs an independent routing rule; \
         sched: the real RepartitionExec over gated sources - every order of {release next batch/end of input i, poll output j, drop output j} with <=2 (quick) / <=3 (thorough) deviations from the default order, \
         x scheme x preserve_order x memory pool {unbounded, spill every batch, spill + rotate every batch}; states = distinct observed outcome vectors per scenario, transitions = driver steps (each runs the real operator to quiescence); \
         non-trivial = route cases with >=2 rows and >=2 outputs, distinct (scenario, outcome) pairs",
        explore,
        replay,
    );
}
