//! C21 (part "rt") — spill files round-trip exactly; usage accounting of the
//! real spill writer under limit rejections at every write position.
//!
//! Round trip: for every column kind (every primitive family, Utf8 / LargeUtf8 /
//! Utf8View (inline, long, > 10 KB so that the view GC runs), Binary kinds,
//! Dictionary (several key widths, unused values, NULL values), List / LargeList /
//! ListView / FixedSizeList / nested lists, Struct, Map, sparse and dense Union,
//! Decimal128/256, RunEndEncoded, Null, and a multi-column batch) x every
//! sequence of 1..=3 batches, each batch {full, sliced at offset 1, empty as a zero-row slice, empty as new_empty} and
//! carrying different values (and different dictionaries) x codec {none, lz4,
//! zstd} x write API {spill_record_batch_and_finish, create_in_progress_file +
//! append_batch (+ flush) + finish} x read path {read_spill_as_stream,
//! read_spill_as_stream_unbuffered, both with and without
//! max_record_batch_memory}: the stream must report the spill manager's schema
//! and deliver the same number of batches, in order, each with the same schema
//! and row by row the same values (compared through an independent row-wise
//! rendering, `ArrayFormatter`, plus data-type equality — not through arrow's
//! `equal` kernels).
//!
//! Accounting on the same real path (`SpillManager` -> `InProgressSpillFile` ->
//! arrow IPC `StreamWriter` -> `FileSpillWriter` -> OS temp file): after a
//! successful spill `used_disk_space()` = on-disk length of the file =
//! `SpillFile::size()`; 0 after the file and its readers are dropped.  Fault
//! part: for a representative sequence of every column kind the size limit
//! `max_temp_directory_size` is set to every value 0..file size, so that each
//! individual write call of the IPC writer is the one rejected in turn; the spill
//! must fail, usage must equal the on-disk length of the partial file (never
//! above the limit) and return to 0 when the in-progress file is dropped.

use arrow::array::*;
use arrow::buffer::{OffsetBuffer, ScalarBuffer};
use arrow::datatypes::*;
use arrow::util::display::{ArrayFormatter, FormatOptions};
use datafusion_common::config::SpillCompression;
use datafusion_execution::disk_manager::{DiskManagerBuilder, DiskManagerMode};
use datafusion_execution::runtime_env::{RuntimeEnv, RuntimeEnvBuilder};
use datafusion_physical_expr_common::metrics::{ExecutionPlanMetricsSet, SpillMetrics};
use datafusion_physical_plan::SpillManager;
use futures::StreamExt;
use mc_core::serde_json::{Value, json};
use mc_core::{Ctx, Level, rayon::prelude::*, run_check};
use serde::{Deserialize, Serialize};
use std::path::PathBuf;
use std::sync::{Arc, OnceLock};

const ROWS: usize = 5;

// ---------------------------------------------------------------- column kinds

fn prim<T: ArrowPrimitiveType>(seed: usize, f: impl Fn(i64) -> T::Native) -> PrimitiveArray<T> {
    let s = seed as i64;
    PrimitiveArray::<T>::from_iter([Some(f(s + 1)), None, Some(f(-s - 2)), Some(f(s * 7 + 3)), Some(f(100 + s))])
}

fn strings(seed: usize, long: bool) -> Vec<Option<String>> {
    let l = if long { "-a-string-longer-than-twelve-bytes" } else { "" };
    vec![
        Some(format!("s{seed}{l}")),
        None,
        Some(String::new()),
        Some(format!("b{}{l}{l}", seed * 3)),
        Some(format!("é{seed}")),
    ]
}

fn dict_i8(seed: usize) -> ArrayRef {
    // values with an unused entry and a NULL value; keys with a NULL key; differs per batch
    let values = StringArray::from(vec![Some(format!("v{seed}")), Some("unused".to_string()), None, Some(format!("w{seed}"))]);
    let keys = Int8Array::from(vec![Some(3), Some(0), None, Some(2), Some(0)]);
    Arc::new(DictionaryArray::try_new(keys, Arc::new(values)).unwrap())
}

fn list_i32(seed: usize) -> ArrayRef {
    let s = seed as i32;
    Arc::new(ListArray::from_iter_primitive::<Int32Type, _, _>(vec![
        Some(vec![Some(s), None, Some(s + 1)]),
        None,
        Some(vec![]),
        Some(vec![Some(7 * s)]),
        Some(vec![Some(1), Some(2)]),
    ]))
}

fn column(kind: &str, seed: usize) -> ArrayRef {
    let s = seed;
    match kind {
        "Boolean" => Arc::new(BooleanArray::from(vec![Some(s % 2 == 0), None, Some(true), Some(false), Some(s % 3 == 0)])),
        "Int8" => Arc::new(prim::<Int8Type>(s, |x| x as i8)),
        "Int16" => Arc::new(prim::<Int16Type>(s, |x| (x * 300) as i16)),
        "Int32" => Arc::new(prim::<Int32Type>(s, |x| (x * 70_000) as i32)),
        "Int64" => Arc::new(prim::<Int64Type>(s, |x| x * 5_000_000_000)),
        "UInt8" => Arc::new(prim::<UInt8Type>(s, |x| x as u8)),
        "UInt16" => Arc::new(prim::<UInt16Type>(s, |x| (x * 300) as u16)),
        "UInt32" => Arc::new(prim::<UInt32Type>(s, |x| (x * 70_000) as u32)),
        "UInt64" => Arc::new(prim::<UInt64Type>(s, |x| (x as u64).wrapping_mul(5_000_000_000))),
        "Float16" => Arc::new(prim::<Float16Type>(s, |x| <Float16Type as ArrowPrimitiveType>::Native::from_f32(x as f32 * 0.5))),
        "Float32" => Arc::new(Float32Array::from(vec![Some(s as f32 + 0.5), None, Some(f32::NAN), Some(-0.0), Some(f32::INFINITY)])),
        "Float64" => Arc::new(Float64Array::from(vec![Some(s as f64 + 0.25), None, Some(f64::NAN), Some(-0.0), Some(f64::MIN_POSITIVE)])),
        "Date32" => Arc::new(prim::<Date32Type>(s, |x| x as i32 * 100)),
        "Date64" => Arc::new(prim::<Date64Type>(s, |x| x * 86_400_000)),
        "Time32(s)" => Arc::new(prim::<Time32SecondType>(s, |x| (x.rem_euclid(86_400)) as i32)),
        "Time32(ms)" => Arc::new(prim::<Time32MillisecondType>(s, |x| (x.rem_euclid(86_400_000)) as i32)),
        "Time64(us)" => Arc::new(prim::<Time64MicrosecondType>(s, |x| x.rem_euclid(86_400_000_000))),
        "Time64(ns)" => Arc::new(prim::<Time64NanosecondType>(s, |x| x.rem_euclid(86_400_000_000_000))),
        "Timestamp(s)" => Arc::new(prim::<TimestampSecondType>(s, |x| x * 1000)),
        "Timestamp(ns,+05:30)" => Arc::new(prim::<TimestampNanosecondType>(s, |x| x * 1_000_000_007).with_timezone("+05:30")),
        "Timestamp(us,UTC)" => Arc::new(prim::<TimestampMicrosecondType>(s, |x| x * 1_000_003).with_timezone("UTC")),
        "Duration(ms)" => Arc::new(prim::<DurationMillisecondType>(s, |x| x * 17)),
        "Interval(YearMonth)" => Arc::new(prim::<IntervalYearMonthType>(s, |x| x as i32)),
        "Interval(DayTime)" => Arc::new(prim::<IntervalDayTimeType>(s, |x| IntervalDayTime::new(x as i32, (x * 3) as i32))),
        "Interval(MonthDayNano)" => {
            Arc::new(prim::<IntervalMonthDayNanoType>(s, |x| IntervalMonthDayNano::new(x as i32, -(x as i32), x * 1_000_000_001)))
        }
        "Decimal128(10,2)" => Arc::new(prim::<Decimal128Type>(s, |x| x as i128 * 12_345).with_precision_and_scale(10, 2).unwrap()),
        "Decimal256(40,5)" => Arc::new(
            prim::<Decimal256Type>(s, |x| i256::from_i128(x as i128).wrapping_mul(i256::from_i128(10i128.pow(30))))
                .with_precision_and_scale(40, 5)
                .unwrap(),
        ),
        "Utf8" => Arc::new(StringArray::from(strings(s, false))),
        "LargeUtf8" => Arc::new(LargeStringArray::from(strings(s, true))),
        "Utf8View" => Arc::new(StringViewArray::from_iter(strings(s, false).into_iter().zip(strings(s, true)).enumerate().map(
            |(i, (a, b))| if i % 2 == 0 { a } else { b },
        ))),
        "Utf8View(long)" => Arc::new(StringViewArray::from_iter(strings(s, true))),
        "Utf8View(>10KB, gc)" => {
            // 60 strings of 300 bytes = 18 KB of data buffers, sliced down to ROWS rows: gc_view_arrays compacts it
            let big: Vec<Option<String>> =
                (0..60).map(|i| if i == 3 { None } else { Some(format!("{:0>300}", i * 1000 + s)) }).collect();
            Arc::new(StringViewArray::from_iter(big).slice(2, ROWS))
        }
        "Binary" => Arc::new(BinaryArray::from_iter(strings(s, false).into_iter().map(|o| o.map(|x| x.into_bytes())))),
        "LargeBinary" => Arc::new(LargeBinaryArray::from_iter(strings(s, true).into_iter().map(|o| o.map(|x| x.into_bytes())))),
        "BinaryView" => Arc::new(BinaryViewArray::from_iter(strings(s, true).into_iter().map(|o| o.map(|x| x.into_bytes())))),
        "FixedSizeBinary(3)" => Arc::new(
            FixedSizeBinaryArray::try_from_sparse_iter_with_size(
                vec![Some(vec![s as u8, 1, 2]), None, Some(vec![0, 0, 0]), Some(vec![255, s as u8, 9]), Some(vec![7, 7, 7])].into_iter(),
                3,
            )
            .unwrap(),
        ),
        "Dictionary(Int8,Utf8)" => dict_i8(s),
        "Dictionary(Int32,Utf8)" => {
            let values = StringArray::from(vec![format!("x{s}"), format!("y{s}"), "z".to_string()]);
            let keys = Int32Array::from(vec![Some(2), None, Some(0), Some(0), Some(1)]);
            Arc::new(DictionaryArray::try_new(keys, Arc::new(values)).unwrap())
        }
        "Dictionary(UInt16,Int64)" => {
            let values = Int64Array::from(vec![Some(s as i64), None, Some(-5)]);
            let keys = UInt16Array::from(vec![Some(0), Some(1), None, Some(2), Some(0)]);
            Arc::new(DictionaryArray::try_new(keys, Arc::new(values)).unwrap())
        }
        "List(Int32)" => list_i32(s),
        "LargeList(Utf8)" => {
            let mut b = LargeListBuilder::new(StringBuilder::new());
            for (i, v) in strings(s, true).into_iter().enumerate() {
                if i == 1 {
                    b.append(false);
                    continue;
                }
                b.values().append_option(v.clone());
                if i % 2 == 0 {
                    b.values().append_null();
                }
                b.append(true);
            }
            Arc::new(b.finish())
        }
        "FixedSizeList(Int32,2)" => {
            let mut b = FixedSizeListBuilder::new(Int32Builder::new(), 2);
            for i in 0..ROWS as i32 {
                b.values().append_value(i + s as i32);
                b.values().append_option(if i == 2 { None } else { Some(-i) });
                b.append(i != 1);
            }
            Arc::new(b.finish())
        }
        "ListView(Int32)" => {
            // out-of-order, overlapping views into the child
            let child = Int32Array::from(vec![Some(s as i32), Some(1), None, Some(3), Some(4), Some(5)]);
            let offsets = ScalarBuffer::<i32>::from(vec![3, 0, 0, 1, 4]);
            let sizes = ScalarBuffer::<i32>::from(vec![2, 0, 3, 2, 2]);
            let nulls = arrow::buffer::NullBuffer::from(vec![true, false, true, true, true]);
            let field = Arc::new(Field::new_list_field(DataType::Int32, true));
            Arc::new(ListViewArray::try_new(field, offsets, sizes, Arc::new(child), Some(nulls)).unwrap())
        }
        "List(Utf8View)" => {
            let child = StringViewArray::from_iter(strings(s, true).into_iter().chain(strings(s + 1, false)));
            let offsets = OffsetBuffer::new(ScalarBuffer::<i32>::from(vec![0, 2, 2, 5, 9, 10]));
            let nulls = arrow::buffer::NullBuffer::from(vec![true, false, true, true, true]);
            let field = Arc::new(Field::new_list_field(DataType::Utf8View, true));
            Arc::new(ListArray::try_new(field, offsets, Arc::new(child), Some(nulls)).unwrap())
        }
        "List(Dictionary(Int8,Utf8))" => {
            let child = dict_i8(s);
            let offsets = OffsetBuffer::new(ScalarBuffer::<i32>::from(vec![0, 1, 1, 3, 5, 5]));
            let field = Arc::new(Field::new_list_field(child.data_type().clone(), true));
            Arc::new(ListArray::try_new(field, offsets, child, None).unwrap())
        }
        "Struct(Int32,Utf8)" => {
            let a: ArrayRef = Arc::new(prim::<Int32Type>(s, |x| x as i32));
            let b: ArrayRef = Arc::new(StringArray::from(strings(s, false)));
            let fields = Fields::from(vec![Field::new("a", DataType::Int32, true), Field::new("b", DataType::Utf8, true)]);
            let nulls = arrow::buffer::NullBuffer::from(vec![true, true, false, true, true]);
            Arc::new(StructArray::try_new(fields, vec![a, b], Some(nulls)).unwrap())
        }
        "Struct(List(Int32))" => {
            let l = list_i32(s);
            let fields = Fields::from(vec![Field::new("l", l.data_type().clone(), true)]);
            Arc::new(StructArray::try_new(fields, vec![l], None).unwrap())
        }
        "Map(Utf8,Int32)" => {
            let mut b = MapBuilder::new(None, StringBuilder::new(), Int32Builder::new());
            for i in 0..ROWS {
                if i == 1 {
                    b.append(false).unwrap();
                    continue;
                }
                for j in 0..(i % 3) {
                    b.keys().append_value(format!("k{s}_{j}"));
                    b.values().append_option(if j == 1 { None } else { Some((s + j) as i32) });
                }
                b.append(true).unwrap();
            }
            Arc::new(b.finish())
        }
        "Union(sparse)" | "Union(dense)" => {
            let fields = UnionFields::try_new(vec![3, 7], vec![Field::new("i", DataType::Int32, true), Field::new("s", DataType::Utf8, true)])
                .unwrap();
            let type_ids = ScalarBuffer::<i8>::from(vec![3, 7, 7, 3, 3]);
            if kind == "Union(sparse)" {
                let i: ArrayRef = Arc::new(prim::<Int32Type>(s, |x| x as i32));
                let st: ArrayRef = Arc::new(StringArray::from(strings(s, false)));
                Arc::new(UnionArray::try_new(fields, type_ids, None, vec![i, st]).unwrap())
            } else {
                let i: ArrayRef = Arc::new(Int32Array::from(vec![Some(s as i32), None, Some(9)]));
                let st: ArrayRef = Arc::new(StringArray::from(vec![Some(format!("u{s}")), None]));
                let offsets = ScalarBuffer::<i32>::from(vec![0, 0, 1, 1, 2]);
                Arc::new(UnionArray::try_new(fields, type_ids, Some(offsets), vec![i, st]).unwrap())
            }
        }
        "RunEndEncoded(Int32,Utf8)" => {
            let run_ends = Int32Array::from(vec![2, 3, 5]);
            let values = StringArray::from(vec![Some(format!("r{s}")), None, Some("t".to_string())]);
            Arc::new(RunArray::<Int32Type>::try_new(&run_ends, &values).unwrap())
        }
        "RunEndEncoded(Int16,Int64)" => {
            let run_ends = Int16Array::from(vec![1, 4, 5]);
            let values = Int64Array::from(vec![Some(s as i64), Some(-1), None]);
            Arc::new(RunArray::<Int16Type>::try_new(&run_ends, &values).unwrap())
        }
        "Null" => Arc::new(NullArray::new(ROWS)),
        other => panic!("unknown column kind {other}"),
    }
}

const KINDS: &[&str] = &[
    "Boolean",
    "Int8",
    "Int16",
    "Int32",
    "Int64",
    "UInt8",
    "UInt16",
    "UInt32",
    "UInt64",
    "Float16",
    "Float32",
    "Float64",
    "Date32",
    "Date64",
    "Time32(s)",
    "Time32(ms)",
    "Time64(us)",
    "Time64(ns)",
    "Timestamp(s)",
    "Timestamp(ns,+05:30)",
    "Timestamp(us,UTC)",
    "Duration(ms)",
    "Interval(YearMonth)",
    "Interval(DayTime)",
    "Interval(MonthDayNano)",
    "Decimal128(10,2)",
    "Decimal256(40,5)",
    "Utf8",
    "LargeUtf8",
    "Utf8View",
    "Utf8View(long)",
    "Utf8View(>10KB, gc)",
    "Binary",
    "LargeBinary",
    "BinaryView",
    "FixedSizeBinary(3)",
    "Dictionary(Int8,Utf8)",
    "Dictionary(Int32,Utf8)",
    "Dictionary(UInt16,Int64)",
    "List(Int32)",
    "LargeList(Utf8)",
    "FixedSizeList(Int32,2)",
    "ListView(Int32)",
    "List(Utf8View)",
    "List(Dictionary(Int8,Utf8))",
    "Struct(Int32,Utf8)",
    "Struct(List(Int32))",
    "Map(Utf8,Int32)",
    "Union(sparse)",
    "Union(dense)",
    "RunEndEncoded(Int32,Utf8)",
    "RunEndEncoded(Int16,Int64)",
    "Null",
    "multi",
];

const MULTI: &[&str] = &["Int32", "Utf8View", "Dictionary(Int8,Utf8)", "List(Int32)", "Float64"];

fn columns_of(kind: &str) -> Vec<&str> {
    if kind == "multi" { MULTI.to_vec() } else { vec![kind] }
}

fn schema_of(kind: &str) -> SchemaRef {
    let fields: Vec<Field> = columns_of(kind)
        .iter()
        .enumerate()
        .map(|(i, k)| Field::new(format!("c{i}"), column(k, 0).data_type().clone(), true))
        .collect();
    Arc::new(Schema::new(fields))
}

/// shape: 0 = full, 1 = sliced at offset 1 (ROWS - 2 rows), 2 = empty as a zero-row slice at offset 2,
/// 3 = empty as `RecordBatch::new_empty`
fn batch_of(kind: &str, seed: usize, shape: u8) -> RecordBatch {
    let cols: Vec<ArrayRef> = columns_of(kind).iter().enumerate().map(|(i, k)| column(k, seed * 5 + i)).collect();
    let b = RecordBatch::try_new(schema_of(kind), cols).expect("harness: batch construction");
    match shape {
        0 => b,
        1 => b.slice(1, ROWS - 2),
        2 => b.slice(2, 0),
        _ => RecordBatch::new_empty(schema_of(kind)),
    }
}

/// Independent rendering of a batch: per column the data type and every row as text.
fn render(b: &RecordBatch) -> Result<Vec<(String, Vec<String>)>, String> {
    let opts = FormatOptions::default().with_null("<NULL>").with_display_error(false);
    let mut out = vec![];
    for c in b.columns() {
        let f = ArrayFormatter::try_new(c.as_ref(), &opts).map_err(|e| format!("cannot render {}: {e}", c.data_type()))?;
        let mut rows = vec![];
        for i in 0..c.len() {
            rows.push(f.value(i).try_to_string().map_err(|e| format!("cannot render row {i} of {}: {e}", c.data_type()))?);
        }
        out.push((format!("{}", c.data_type()), rows));
    }
    Ok(out)
}

// ---------------------------------------------------------------- cases

#[derive(Serialize, Deserialize, Clone, Debug, Hash)]
struct Case {
    kind: String,
    /// shapes of the batches written, in order
    shapes: Vec<u8>,
    /// 0 = uncompressed, 1 = lz4_frame, 2 = zstd
    codec: u8,
    /// true: create_in_progress_file + append_batch (+ flush after the first) + finish; false: spill_record_batch_and_finish
    incremental: bool,
    /// 0 = read_spill_as_stream(None), 1 = unbuffered(None), 2 = read_spill_as_stream(Some(64)), 3 = unbuffered(Some(64))
    read_path: u8,
    /// Some(l): `max_temp_directory_size` = l, the spill is expected to be rejected (fault part)
    limit: Option<u64>,
}

fn base_dir() -> &'static PathBuf {
    static BASE: OnceLock<PathBuf> = OnceLock::new();
    BASE.get_or_init(|| {
        let root = if std::path::Path::new("/dev/shm").is_dir() { PathBuf::from("/dev/shm") } else { std::env::temp_dir() };
        let d = root.join(format!("verif-c21rt-{}", std::process::id()));
        let _ = std::fs::create_dir_all(&d);
        d
    })
}

fn env() -> Result<Arc<RuntimeEnv>, String> {
    RuntimeEnvBuilder::new()
        .with_disk_manager_builder(DiskManagerBuilder::default().with_mode(DiskManagerMode::Directories(vec![base_dir().clone()])))
        .build_arc()
        .map_err(|e| format!("HARNESS: runtime env: {e}"))
}

enum Outcome {
    /// round trip fine; bytes on disk
    Ok { file_len: u64 },
    /// the IPC writer does not support the type (rejection is success)
    Unsupported(String),
    /// fault part: rejected with `on_disk` bytes of the partial file
    Rejected { on_disk: u64 },
    /// fault part: the limit was large enough after all
    NotRejected,
}

fn run_case(c: &Case) -> Result<Outcome, String> {
    thread_local! {
        static RT: tokio::runtime::Runtime = tokio::runtime::Builder::new_current_thread().enable_all().build().unwrap();
    }
    RT.with(|rt| rt.block_on(run_case_async(c)))
}

async fn run_case_async(c: &Case) -> Result<Outcome, String> {
    let env = env()?;
    let dm = Arc::clone(&env.disk_manager);
    let schema = schema_of(&c.kind);
    let metrics = SpillMetrics::new(&ExecutionPlanMetricsSet::new(), 0);
    let codec = match c.codec {
        0 => SpillCompression::Uncompressed,
        1 => SpillCompression::Lz4Frame,
        _ => SpillCompression::Zstd,
    };
    let sm = SpillManager::new(Arc::clone(&env), metrics, Arc::clone(&schema)).with_compression_type(codec);
    let batches: Vec<RecordBatch> = c.shapes.iter().enumerate().map(|(i, s)| batch_of(&c.kind, i, *s)).collect();
    if let Some(l) = c.limit {
        dm.set_max_temp_directory_size(l).map_err(|e| format!("HARNESS: set limit: {e}"))?;
    }
    if dm.used_disk_space() != 0 {
        return Err(format!("fresh disk manager reports used_disk_space() = {}", dm.used_disk_space()));
    }

    // ---- write
    let mut in_progress = None;
    let mut path: Option<PathBuf> = None;
    let mut write_err: Option<String> = None;
    let mut finished = None;
    if c.incremental || c.limit.is_some() {
        let mut ip = sm.create_in_progress_file("c21rt").map_err(|e| format!("create_in_progress_file: {e}"))?;
        path = ip.file().and_then(|f| f.path().map(|p| p.to_path_buf()));
        for (i, b) in batches.iter().enumerate() {
            if let Err(e) = ip.append_batch(b) {
                write_err = Some(format!("append_batch #{i}: {e}"));
                break;
            }
            if i == 0 {
                if let Err(e) = ip.flush() {
                    write_err = Some(format!("flush: {e}"));
                    break;
                }
            }
        }
        if write_err.is_none() {
            match ip.finish() {
                Ok(f) => finished = f,
                Err(e) => write_err = Some(format!("finish: {e}")),
            }
        }
        in_progress = Some(ip);
    } else {
        match sm.spill_record_batch_and_finish(&batches, "c21rt") {
            Ok(f) => finished = f,
            Err(e) => write_err = Some(format!("spill_record_batch_and_finish: {e}")),
        }
    }

    if let Some(limit) = c.limit {
        // ---- fault part: a write was (probably) rejected by the size limit
        let path = path.ok_or("HARNESS: in-progress file has no path")?;
        let on_disk = std::fs::metadata(&path).map(|m| m.len()).map_err(|e| format!("HARNESS: stat partial file: {e}"))?;
        let used = dm.used_disk_space();
        let Some(err) = write_err else {
            // limit was not binding: the complete file fits
            if used > limit {
                return Err(format!("spill succeeded with used_disk_space() = {used} > limit {limit}"));
            }
            drop(finished);
            drop(in_progress);
            return Ok(Outcome::NotRejected);
        };
        if !err.contains("exceeded the allowable limit") {
            return Err(format!("with limit {limit} the spill failed with an unexpected error: {err}"));
        }
        if used != on_disk {
            return Err(format!(
                "after a write was rejected by the limit {limit}: used_disk_space() = {used}, the partial spill file holds {on_disk} bytes ({err})"
            ));
        }
        if used > limit {
            return Err(format!("after a rejected write used_disk_space() = {used} > limit {limit}"));
        }
        drop(finished);
        drop(in_progress);
        if dm.used_disk_space() != 0 {
            return Err(format!(
                "after dropping the in-progress spill file whose write was rejected (limit {limit}, {on_disk} bytes on disk) used_disk_space() = {}",
                dm.used_disk_space()
            ));
        }
        if path.exists() {
            return Err("partial spill file still exists after the in-progress file was dropped".into());
        }
        return Ok(Outcome::Rejected { on_disk });
    }

    if let Some(e) = write_err {
        drop(in_progress);
        if dm.used_disk_space() != 0 {
            return Err(format!("writer refused the type ({e}) and used_disk_space() = {} afterwards", dm.used_disk_space()));
        }
        if e.contains("not yet implemented") || e.contains("NotYetImplemented") || e.contains("not supported") || e.contains("Not yet implemented") {
            return Ok(Outcome::Unsupported(e));
        }
        return Err(format!("spill failed: {e}"));
    }
    drop(in_progress);
    let file = finished.ok_or("spill of a non-empty batch list returned no file")?;
    let fpath = file.path().ok_or("HARNESS: spill file has no path")?.to_path_buf();

    // ---- accounting after a successful spill
    let file_len = std::fs::metadata(&fpath).map(|m| m.len()).map_err(|e| format!("HARNESS: stat spill file: {e}"))?;
    if dm.used_disk_space() != file_len {
        return Err(format!("after a successful spill used_disk_space() = {}, the spill file holds {file_len} bytes", dm.used_disk_space()));
    }
    if file.size() != Some(file_len) {
        return Err(format!("SpillFile::size() = {:?}, the spill file holds {file_len} bytes", file.size()));
    }

    // ---- read back
    let hint = if c.read_path >= 2 { Some(64) } else { None };
    let mut stream = if c.read_path % 2 == 0 {
        sm.read_spill_as_stream(Arc::clone(&file), hint)
    } else {
        sm.read_spill_as_stream_unbuffered(Arc::clone(&file), hint)
    }
    .map_err(|e| format!("open reader: {e}"))?;
    if stream.schema() != schema {
        return Err(format!("reader reports schema {:?}, spill manager schema is {:?}", stream.schema(), schema));
    }
    let mut got = vec![];
    while let Some(b) = stream.next().await {
        got.push(b.map_err(|e| format!("reading batch #{}: {e}", got.len()))?);
    }
    if got.len() != batches.len() {
        return Err(format!("wrote {} batches (rows {:?}), read back {} batches (rows {:?})", batches.len(),
            batches.iter().map(|b| b.num_rows()).collect::<Vec<_>>(), got.len(), got.iter().map(|b| b.num_rows()).collect::<Vec<_>>()));
    }
    for (i, (w, r)) in batches.iter().zip(&got).enumerate() {
        if r.schema() != schema {
            return Err(format!("batch #{i}: schema {:?} differs from the written schema {:?}", r.schema(), schema));
        }
        if r.num_rows() != w.num_rows() {
            return Err(format!("batch #{i}: wrote {} rows, read {}", w.num_rows(), r.num_rows()));
        }
        let (rw, rr) = (render(w)?, render(r)?);
        if rw != rr {
            return Err(format!("batch #{i}: wrote {rw:?}, read {rr:?}"));
        }
    }
    // ---- release
    drop(stream);
    drop(got);
    drop(file);
    // the buffered reader runs in a spawned task; give it a chance to finish dropping its handle
    for _ in 0..50 {
        if dm.used_disk_space() == 0 {
            break;
        }
        tokio::task::yield_now().await;
    }
    if dm.used_disk_space() != 0 {
        return Err(format!("after dropping the spill file and its reader used_disk_space() = {}", dm.used_disk_space()));
    }
    if fpath.exists() {
        return Err("spill file still exists after the file and its reader were dropped".into());
    }
    Ok(Outcome::Ok { file_len })
}

fn shape_sequences(max_len: usize) -> Vec<Vec<u8>> {
    mc_core::enumerate::sequences(&[0u8, 1, 2, 3], 1, max_len)
}

fn explore(ctx: &Ctx) {
    let max_len = ctx.pick(2, 3);
    let seqs = shape_sequences(max_len);
    let mut cases = vec![];
    for kind in KINDS {
        for shapes in &seqs {
            for codec in 0..3u8 {
                for incremental in [false, true] {
                    for read_path in 0..4u8 {
                        // the read path is independent of the write API / codec: take the full product only in the thorough tier
                        if ctx.quick() && read_path >= 2 && (codec != 0 || incremental) {
                            continue;
                        }
                        cases.push(Case { kind: kind.to_string(), shapes: shapes.clone(), codec, incremental, read_path, limit: None });
                    }
                }
            }
        }
    }
    let n_rt = cases.len();
    ctx.set_extra(
        "bounds",
        json!({"column_kinds": KINDS, "multi_column_batch": MULTI, "rows_per_full_batch": ROWS, "batch_shapes": ["full", "sliced(1, ROWS-2)", "empty: slice(2, 0)", "empty: RecordBatch::new_empty"],
               "max_batches_per_file": max_len, "codecs": ["uncompressed", "lz4_frame", "zstd"], "write_apis": ["spill_record_batch_and_finish", "in-progress append/flush/finish"],
               "read_paths": ["buffered", "unbuffered", "buffered+hint", "unbuffered+hint"], "round_trip_cases": n_rt,
               "fault_part": "per column kind the sequence [full, sliced], uncompressed, every limit 0..file size"}),
    );
    ctx.assume("value comparison is by row-wise text rendering (arrow ArrayFormatter) plus data type and schema equality");
    ctx.assume("limit rejections stand in for write failures in this part; OS-level write failures are injected in part acct (chk-exec/c21) one layer below");
    let unsupported = std::sync::Mutex::new(std::collections::BTreeSet::<String>::new());
    let file_sizes = std::sync::Mutex::new(std::collections::BTreeMap::<String, u64>::new());
    let results: Vec<Option<Result<Outcome, String>>> = cases
        .par_iter()
        .map(|c| {
            if ctx.should_stop() {
                return None;
            }
            ctx.eval();
            Some(mc_core::catch(|| run_case(c)).unwrap_or_else(|e| Err(format!("panic: {e}"))))
        })
        .collect();
    for (c, r) in cases.iter().zip(results) {
        let Some(r) = r else { continue };
        match r {
            Ok(Outcome::Ok { file_len }) => {
                // non-trivial: at least one non-empty batch and more than one batch, or a sliced batch
                if c.shapes.iter().any(|s| *s < 2) && (c.shapes.len() > 1 || c.shapes[0] == 1) {
                    ctx.nontrivial(c);
                }
                if c.shapes == [0, 1] && c.codec == 0 && c.incremental && c.read_path == 0 {
                    file_sizes.lock().unwrap().insert(c.kind.clone(), file_len);
                    if (c.kind == "Dictionary(Int8,Utf8)" || c.kind == "multi") && ctx.want_sample() {
                        ctx.sample(json!({"case": c, "file_len": file_len,
                            "batches_written": c.shapes.iter().enumerate().map(|(i, s)| render(&batch_of(&c.kind, i, *s)).unwrap()).collect::<Vec<_>>()}));
                    }
                }
            }
            Ok(Outcome::Unsupported(e)) => {
                unsupported.lock().unwrap().insert(format!("{}: {}", c.kind, e.chars().take(160).collect::<String>()));
            }
            Ok(_) => {}
            Err(what) if what.starts_with("HARNESS") => ctx.machinery_error(format!("{what} in {}", serde_json::to_string(c).unwrap())),
            Err(what) => {
                // One report per column kind for the one recognised failure class (first = simplest case wins;
                // cases are enumerated simplest first and handled here in enumeration order); every other
                // failure is keyed by its exact case.
                let key = if c.kind.starts_with("RunEndEncoded")
                    && c.shapes.contains(&2)
                    && what.contains("run_ends array should be strictly positive")
                {
                    format!("{}: a zero-row slice of a RunEndEncoded batch is spilled without error but the spill file cannot be read back", c.kind)
                } else {
                    serde_json::to_string(c).unwrap()
                };
                ctx.violation(key, what, serde_json::to_value(c).unwrap())
            }
        }
    }
    ctx.count("round_trips", n_rt as u64);
    let unsupported = unsupported.into_inner().unwrap();
    ctx.set_extra("types_rejected_by_the_ipc_writer", json!(unsupported));

    // ---- fault part: every limit below the clean file size
    let sizes = file_sizes.into_inner().unwrap();
    let mut fcases = vec![];
    for (kind, len) in &sizes {
        let step = if ctx.quick() { 1 } else { 1 };
        let mut l = 0;
        while l < *len {
            fcases.push(Case { kind: kind.clone(), shapes: vec![0, 1], codec: 0, incremental: true, read_path: 0, limit: Some(l) });
            l += step;
        }
    }
    ctx.count("limit_fault_cases", fcases.len() as u64);
    let positions = std::sync::Mutex::new(std::collections::BTreeSet::<(String, u64)>::new());
    fcases.par_iter().for_each(|c| {
        if ctx.should_stop() {
            return;
        }
        ctx.eval();
        match mc_core::catch(|| run_case(c)).unwrap_or_else(|e| Err(format!("panic: {e}"))) {
            Ok(Outcome::Rejected { on_disk }) => {
                // distinct failing write position = (kind, bytes on disk when the write was rejected)
                if positions.lock().unwrap().insert((c.kind.clone(), on_disk)) {
                    ctx.nontrivial(&(c.kind.as_str(), on_disk));
                }
            }
            Ok(Outcome::NotRejected) => {
                ctx.violation(
                    serde_json::to_string(c).unwrap(),
                    format!("a spill of {} bytes succeeded under max_temp_directory_size = {}", sizes[&c.kind], c.limit.unwrap()),
                    serde_json::to_value(c).unwrap(),
                );
            }
            Ok(_) => {}
            Err(what) if what.starts_with("HARNESS") => ctx.machinery_error(format!("{what} in {}", serde_json::to_string(c).unwrap())),
            Err(what) => ctx.violation(serde_json::to_string(c).unwrap(), what, serde_json::to_value(c).unwrap()),
        }
    });
    ctx.count("distinct_rejected_write_positions", positions.lock().unwrap().len() as u64);
    let _ = std::fs::remove_dir_all(base_dir());
}

fn replay(v: &Value) -> Result<(), String> {
    let c: Case = serde_json::from_value(v.clone()).map_err(|e| format!("bad case: {e}"))?;
    let r = mc_core::catch(|| run_case(&c)).unwrap_or_else(|e| Err(format!("panic: {e}")));
    let _ = std::fs::remove_dir(base_dir());
    match r? {
        Outcome::NotRejected if c.limit.is_some() => Err(format!("the spill succeeded under max_temp_directory_size = {}", c.limit.unwrap())),
        _ => Ok(()),
    }
}

fn main() {
    mc_core::quiet_panics();
    run_check(
        "C21",
        Level::FaultEnumeration,
        "every (column kind, sequence of 1..=N batches each full|sliced|empty with per-batch values, codec, write API, read path) is spilled with the real SpillManager and read back, \
         compared row by row through an independent rendering; plus, per column kind, the spill of [full, sliced] under every size limit 0..file size (each write call rejected in turn) with \
         used_disk_space() compared to the on-disk length; non-trivial = round trips with >= 2 batches or a sliced batch, and distinct (kind, rejected write position) pairs",
        explore,
        replay,
    );
}
