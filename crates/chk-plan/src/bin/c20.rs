//! C20 — execution errors always surface; no truncated result counts as success.
//!
//! Fault enumeration over the plan-shape list P (`c20/shapes.rs`): real
//! `datafusion-physical-plan` operators over gated sources, driven by engine
//! `evt` (paused-clock single-threaded runtime, driver-owned event order).
//! For every shape x memory budget {unbounded, calibrated spilling budget} the
//! fault-free run is measured first (rows, number of `try_grow` requests, spill
//! file creates / writes / finishes); then ONE fault per run (thorough: also
//! every pair) is injected at every point:
//!   * source error instead of item k of partition p of source s, for every (s, p, k)
//!     (k = number of batches: the error replaces the end of the stream),
//!   * the harness memory pool refuses the k-th `try_grow`, for every k < fault-free count,
//!   * the in-memory spill backend fails the k-th create / write / finish.
//! and every event order with <= 1 (thorough <= 2) deviations from the default
//! order is run.  Oracle (exactly the property): every output is polled to its
//! end; the run must not panic, hang (no enabled action / step horizon) or end
//! every output normally with rows of the fault-free result missing.  An error
//! that surfaces must carry the injected marker.
#[path = "c20/shapes.rs"]
mod shapes;

use chk_plan::evt::{self, RunRecord};
use mc_core::explore::Trace;
use mc_core::serde_json::{Value, json};
use mc_core::{Ctx, Level, rayon::prelude::*, run_check};
use serde::{Deserialize, Serialize};
use shapes::{ALL_SHAPES, Fault, Shape, Slot, Spec, missing_from, rows_text};
use std::collections::HashMap;
use std::sync::Arc;
use std::sync::atomic::Ordering;

#[derive(Serialize, Deserialize, Clone, Debug)]
struct Case {
    spec: Spec,
    prefix: Vec<usize>,
}

/// What one execution showed.
struct Outcome {
    trace: Trace,
    rec: RunRecord,
    requests: std::collections::BTreeMap<String, usize>,
    try_grows: usize,
    refused: usize,
    peak: usize,
    created: usize,
    writes: usize,
    finishes: usize,
    /// per fault of the spec: did the run reach it
    triggered: Vec<bool>,
    /// what the output streams did when polled once more after their first error: none / err / batch / pending / panic
    after_error: [usize; 5],
}

fn identity(p: Arc<dyn datafusion_physical_plan::ExecutionPlan>, _: &Spec) -> Arc<dyn datafusion_physical_plan::ExecutionPlan> {
    p
}

fn run(spec: &Spec, prefix: &[usize]) -> Outcome {
    let slot: Slot = Default::default();
    let s2 = Arc::clone(&slot);
    let sp = spec.clone();
    let build = move || shapes::build_world(&sp, &s2, &identity);
    let (trace, rec) = evt::run_one(&build, prefix);
    let probe = slot.lock().take().expect("probe");
    let st = &probe.spill.stats;
    let (created, writes, finishes) = (st.created.load(Ordering::SeqCst), st.writes.load(Ordering::SeqCst), st.finishes.load(Ordering::SeqCst));
    let refused = probe.pool.refused.load(Ordering::SeqCst);
    let triggered = spec
        .faults
        .iter()
        .map(|f| match f {
            Fault::Source { s, p, .. } => probe.source_ended(*s, *p),
            Fault::Refuse { .. } => refused > 0,
            Fault::SpillCreate { k } => created > *k,
            Fault::SpillWrite { k } => writes > *k,
            Fault::SpillFinish { k } => finishes > *k,
        })
        .collect();
    Outcome {
        trace,
        rec,
        requests: probe.pool.requests(),
        try_grows: probe.pool.try_grows.load(Ordering::SeqCst),
        refused,
        peak: probe.pool.peak.load(Ordering::SeqCst),
        created,
        writes,
        finishes,
        triggered,
        after_error: [
            probe.consumer.after_error_none.load(Ordering::SeqCst),
            probe.consumer.after_error_err.load(Ordering::SeqCst),
            probe.consumer.after_error_batch.load(Ordering::SeqCst),
            probe.consumer.after_error_pending.load(Ordering::SeqCst),
            probe.consumer.after_error_panic.load(Ordering::SeqCst),
        ],
    }
}

fn all_rows_text(rec: &RunRecord) -> Vec<String> {
    rec.outputs.iter().flat_map(|o| rows_text(&o.batches)).collect()
}

/// The fault-free run of a scenario (default event order).
#[derive(Clone, Debug)]
struct Baseline {
    rows: Vec<String>,
    /// try_grow requests per memory consumer
    requests: std::collections::BTreeMap<String, usize>,
    try_grows: usize,
    created: usize,
    writes: usize,
    finishes: usize,
    peak: usize,
    steps: usize,
    /// per source: batches per partition
    layout: Vec<Vec<usize>>,
}

fn baseline(spec: &Spec) -> Result<Baseline, String> {
    let mut s = spec.clone();
    s.faults.clear();
    s.drop_after = None;
    s.stop_at = None;
    let o = run(&s, &[]);
    if o.rec.deadlock || o.rec.execute_error.is_some() || o.rec.outputs.iter().any(|x| x.error.is_some() || !x.finished) {
        return Err(format!(
            "fault-free run of {:?} (budget {:?}) does not complete: deadlock={} execute_error={:?} errors={:?}",
            spec.shape,
            spec.budget,
            o.rec.deadlock,
            o.rec.execute_error,
            o.rec.outputs.iter().map(|x| x.error.clone()).collect::<Vec<_>>()
        ));
    }
    let (_, _, infos) = shapes::build_plan(&s);
    let layout = infos.iter().map(|i| i.batches.clone()).collect();
    Ok(Baseline {
        rows: all_rows_text(&o.rec),
        requests: o.requests.clone(),
        try_grows: o.try_grows,
        created: o.created,
        writes: o.writes,
        finishes: o.finishes,
        peak: o.peak,
        steps: o.rec.steps,
        layout,
    })
}

/// Verdict of one faulted run; Ok = (how the fault showed: "error" | "full_result" | "not_reached")
fn check(spec: &Spec, base: &Baseline, o: &Outcome) -> Result<&'static str, (String, String)> {
    let rec = &o.rec;
    let v = |sym: &str, what: String| Err((sym.to_string(), what));
    if let Some(p) = &rec.panicked {
        return v("panic", format!("panic: {p}"));
    }
    if rec.deadlock {
        return v("hang", format!("hang: no action enabled (every source item released, every output polled to Pending) but outputs are unfinished; log {:?}", rec.log));
    }
    if !rec.outputs.iter().all(|x| x.finished) {
        return v("hang", format!("outputs unfinished after the step horizon ({} steps); log tail {:?}", rec.steps, &rec.log[rec.log.len().saturating_sub(8)..]));
    }
    let mut errors: Vec<String> = rec.outputs.iter().filter_map(|x| x.error.clone()).collect();
    if let Some(e) = &rec.execute_error {
        errors.push(e.clone());
    }
    if !errors.is_empty() {
        if let Some(e) = errors.iter().find(|e| e.contains("panic")) {
            return v("panic", format!("a panic was turned into the error: {e}"));
        }
        let markers: Vec<&str> = spec.faults.iter().map(|f| f.marker()).collect();
        if spec.faults.is_empty() {
            return v("spurious_error", format!("error without any fault: {errors:?}"));
        }
        // under a limited pool, or after a refused request, the failure may legitimately surface as the operator's
        // own out-of-memory error
        let oom_ok = spec.budget.is_some() || spec.faults.iter().any(|f| matches!(f, Fault::Refuse { .. }));
        if !errors.iter().any(|e| markers.iter().any(|m| e.contains(m)) || (oom_ok && e.contains("Resources exhausted"))) {
            return v("foreign_error", format!("the surfaced error(s) do not carry the injected failure: {errors:?}"));
        }
        return Ok("error");
    }
    // every output ended normally: nothing of the fault-free result may be missing
    let got = all_rows_text(rec);
    if spec.shape.exact_rows() {
        if let Some(m) = missing_from(&base.rows, &got) {
            return v(
                "truncated_success",
                format!(
                    "every output ended without an error but row [{m}] of the fault-free result is missing ({} of {} rows delivered); faults reached: {:?}",
                    got.len(),
                    base.rows.len(),
                    o.triggered
                ),
            );
        }
    } else if got.len() < base.rows.len() {
        return v(
            "truncated_success",
            format!("every output ended without an error with {} rows, the fault-free run delivers {}; faults reached: {:?}", got.len(), base.rows.len(), o.triggered),
        );
    }
    Ok(if o.triggered.iter().any(|t| *t) { "full_result" } else { "not_reached" })
}

/// Scenarios whose executions are not a function of the event order: `InterleaveExec` polls its inputs starting at a
/// random index (tokio's thread-local RNG); a coalescing `RepartitionExec` flushes its per-output residual batches
/// and fans out end-of-input / errors in the iteration order of randomly seeded `HashMap`s, which decides who gets
/// memory first under a limited pool and which spill file a globally counted spill operation belongs to.  They are
/// run with the default event order only (every execution is still a real one and is judged by the same oracle).
fn order_is_randomized(spec: &Spec) -> bool {
    spec.shape == Shape::Interleave
        || (spec.shape.has_coalescing_repartition()
            && (spec.budget.is_some() || spec.faults.iter().any(|f| matches!(f, Fault::SpillCreate { .. } | Fault::SpillWrite { .. } | Fault::SpillFinish { .. }))))
}

fn run_case(c: &Case) -> Result<(), String> {
    let base = baseline(&c.spec)?;
    let o = run(&c.spec, &c.prefix);
    if std::env::var("C20_TRACE").is_ok() {
        eprintln!("actions {:?}\nlog {:?}\nenabled {:?}\nerrors {:?}\nrows {:?}\nbase rows {:?}\ntry_grows {} created {} writes {} finishes {} triggered {:?}",
            o.rec.actions, o.rec.log, o.trace.enabled, o.rec.outputs.iter().map(|x| x.error.clone()).collect::<Vec<_>>(), all_rows_text(&o.rec), base.rows,
            o.try_grows, o.created, o.writes, o.finishes, o.triggered);
    }
    check(&c.spec, &base, &o).map(|_| ()).map_err(|(_, w)| w)
}

// ------------------------------------------------------------------ budgets

/// smallest FairSpillPool limit of a fixed grid (fractions of the unbounded peak) under which the
/// fault-free run still succeeds with the same rows and spills at least one file
fn calibrate(shape: Shape, batch_size: usize) -> Result<Option<(usize, usize)>, String> {
    let unb = baseline(&Spec::new(shape, None, batch_size))?;
    if unb.peak == 0 {
        return Ok(None);
    }
    let mut best = None;
    for div in [(3, 4), (1, 2), (1, 3), (1, 4), (1, 6), (1, 8), (1, 16)] {
        let limit = unb.peak * div.0 / div.1;
        if limit == 0 {
            continue;
        }
        let spec = Spec::new(shape, Some(limit), batch_size);
        if let Ok(b) = mc_core::catch(|| baseline(&spec)).unwrap_or_else(Err) {
            let mut a = b.rows.clone();
            let mut e = unb.rows.clone();
            a.sort();
            e.sort();
            if b.created >= 1 && (a == e || !shape.exact_rows()) {
                best = Some((limit, b.created));
            }
        }
    }
    Ok(best)
}

// ------------------------------------------------------------------ exploration

fn single_faults(spec: &Spec, base: &Baseline) -> Vec<Fault> {
    let mut v = vec![];
    for (s, parts) in base.layout.iter().enumerate() {
        for (p, n) in parts.iter().enumerate() {
            for k in 0..=*n {
                v.push(Fault::Source { s, p, k });
            }
        }
    }
    for (consumer, n) in &base.requests {
        for k in 0..*n {
            v.push(Fault::Refuse { consumer: consumer.clone(), k });
        }
    }
    for k in 0..base.created {
        v.push(Fault::SpillCreate { k });
    }
    for k in 0..base.writes {
        v.push(Fault::SpillWrite { k });
    }
    for k in 0..base.finishes {
        v.push(Fault::SpillFinish { k });
    }
    let _ = spec;
    v
}

fn fault_sets(ctx: &Ctx, spec: &Spec, base: &Baseline) -> Vec<Vec<Fault>> {
    let singles = single_faults(spec, base);
    let mut sets: Vec<Vec<Fault>> = singles.iter().map(|f| vec![f.clone()]).collect();
    if ctx.thorough() {
        for i in 0..singles.len() {
            for j in i + 1..singles.len() {
                let (a, b) = (&singles[i], &singles[j]);
                let same_stream = matches!((a, b), (Fault::Source { s: s1, p: p1, .. }, Fault::Source { s: s2, p: p2, .. }) if s1 == s2 && p1 == p2);
                // two faults of the same spill operation kind would need two slots in SpillFaults
                let same_kind = a.kind() == b.kind() && !matches!(a, Fault::Source { .. } | Fault::Refuse { .. });
                if !same_stream && !same_kind {
                    sets.push(vec![a.clone(), b.clone()]);
                }
            }
        }
        // a refusal on the unbounded pool makes spillable operators spill: pair it with the first spill faults
        if spec.budget.is_none() {
            for r in singles.iter().filter(|f| matches!(f, Fault::Refuse { .. })) {
                for f in [Fault::SpillCreate { k: 0 }, Fault::SpillWrite { k: 0 }, Fault::SpillWrite { k: 1 }, Fault::SpillFinish { k: 0 }] {
                    sets.push(vec![r.clone(), f]);
                }
            }
        }
    }
    sets
}

fn violation_key(spec: &Spec, sym: &str, singles: &parking_lot::Mutex<std::collections::HashSet<(Shape, &'static str, String)>>) -> String {
    let mut seen = singles.lock();
    if spec.faults.len() == 1 {
        seen.insert((spec.shape, spec.faults[0].kind(), sym.to_string()));
    } else if let Some(f) = spec.faults.iter().find(|f| seen.contains(&(spec.shape, f.kind(), sym.to_string()))) {
        return format!("{:?}|{}|{sym}", spec.shape, f.kind());
    }
    format!("{:?}|{}|{sym}", spec.shape, spec.faults.iter().map(|f| f.kind()).collect::<Vec<_>>().join("+"))
}

fn explore(ctx: &Ctx) {
    // scenarios = shape x batch size x budget
    let batch_sizes: Vec<usize> = ctx.pick(vec![8192], vec![8192, 2]);
    let protos: Vec<(Shape, usize)> = ALL_SHAPES.iter().flat_map(|s| batch_sizes.iter().map(move |b| (*s, *b))).collect();
    let calibrated: Vec<(Shape, usize, Option<(usize, usize)>)> = protos
        .par_iter()
        .map(|(s, b)| match mc_core::catch(|| calibrate(*s, *b)).unwrap_or_else(Err) {
            Ok(x) => (*s, *b, x),
            Err(e) => {
                ctx.machinery_error(format!("calibration of {s:?}: {e}"));
                (*s, *b, None)
            }
        })
        .collect();
    let mut scenarios: Vec<Spec> = vec![];
    let mut budgets = serde_json::Map::new();
    for (s, b, cal) in &calibrated {
        scenarios.push(Spec::new(*s, None, *b));
        if let Some((limit, files)) = cal {
            scenarios.push(Spec::new(*s, Some(*limit), *b));
            budgets.insert(format!("{s:?}/bs{b}"), json!({"fair_spill_pool_limit": limit, "spill_files_fault_free": files}));
        }
    }
    let bound = ctx.pick(1, 2);
    ctx.set_extra(
        "bounds",
        json!({
            "shapes": ALL_SHAPES.len(), "scenarios": scenarios.len(), "batch_sizes": batch_sizes,
            "randomized_scenarios": "Interleave; coalescing RepartitionExec under a limited pool or with spill faults: default event order only",
            "sources": "2 partitions x 2-3 batches x 2 rows per leaf (1-2 leaves)",
            "faults_per_run": ctx.pick("1", "1 and 2"),
            "fault_points": "source error at every (source, partition, item k incl. end of stream); refused k-th try_grow of every memory consumer for every k < its fault-free count; spill create/write/finish #k for every k < fault-free count",
            "event_orders": format!("default + <= {bound} deviations"),
            "spilling_budgets": budgets,
        }),
    );
    let per_shape: parking_lot::Mutex<HashMap<String, [u64; 4]>> = Default::default();
    // work items = (scenario, baseline, fault set)
    let bases: Vec<(Spec, Baseline)> = scenarios
        .par_iter()
        .filter_map(|s| match mc_core::catch(|| baseline(s)).unwrap_or_else(Err) {
            Ok(b) => Some((s.clone(), b)),
            Err(e) => {
                ctx.violation(format!("{:?}|none|fault_free_failure", s.shape), e, json!({"spec": s, "prefix": []}));
                None
            }
        })
        .collect();
    let mut items: Vec<(Spec, &Baseline)> = vec![];
    for (s, b) in &bases {
        for fs in fault_sets(ctx, s, b) {
            let mut sp = s.clone();
            sp.faults = fs;
            items.push((sp, b));
        }
    }
    // simplest first: single faults before pairs
    items.sort_by_key(|(s, _)| s.faults.len());
    ctx.count("scenarios", scenarios.len() as u64);
    ctx.count("fault_sets", items.len() as u64);
    // single faults first, then the pairs: a pair whose violation is already shown by one of its faults alone
    // is reported under the key of that single fault (one root cause = one key)
    let single_violations: parking_lot::Mutex<std::collections::HashSet<(Shape, &'static str, String)>> = Default::default();
    for phase in [1usize, 2] {
    items.par_iter().filter(|(s, _)| (s.faults.len() > 1) == (phase == 2)).for_each(|(spec, base)| {
        if ctx.should_stop() {
            return;
        }
        let b = if order_is_randomized(spec) {
            ctx.count("fault_sets_default_order_only(randomized_operator_internals)", 1);
            0
        } else if spec.faults.len() > 1 {
            1
        } else {
            bound
        };
        let local: std::cell::RefCell<HashMap<String, u64>> = Default::default();
        let lcount = |name: String, n: u64| *local.borrow_mut().entry(name).or_insert(0) += n;
        let mut shape_counts = [0u64; 4];
        let stats = mc_core::explore::dfs_deviations(
            b,
            |prefix| {
                let o = match mc_core::catch(|| run(spec, prefix)) {
                    Ok(o) => o,
                    Err(p) => {
                        let key = violation_key(spec, "panic", &single_violations);
                        if std::env::var("C20_TRACE").is_ok() {
                            eprintln!("PANIC-CASE {}", json!({"spec": spec, "prefix": prefix}));
                        }
                        ctx.violation(key, p, json!({"spec": spec, "prefix": prefix}));
                        return Trace { choices: prefix.to_vec(), enabled: vec![1; prefix.len()] };
                    }
                };
                if std::env::var("C20_DETERMINISM").is_ok() {
                    let o2 = run(spec, prefix);
                    if o2.trace.choices != o.trace.choices || o2.trace.enabled != o.trace.enabled || o2.rec.log != o.rec.log {
                        eprintln!("NONDETERMINISTIC {} prefix {:?}\n  run1 {:?}\n  run2 {:?}", json!(spec), prefix, o.rec.log, o2.rec.log);
                        ctx.count("nondeterministic_executions", 1);
                    }
                }
                ctx.eval();
                for (i, n) in ["none", "err_again", "batch", "pending", "panic"].iter().enumerate() {
                    if o.after_error[i] > 0 {
                        lcount(format!("informational.poll_after_first_error.{n}"), o.after_error[i] as u64);
                        if i > 0 {
                            lcount(format!("informational.poll_after_first_error.{n}.{:?}", spec.shape), o.after_error[i] as u64);
                        }
                    }
                }
                let kinds = spec.faults.iter().map(|f| f.kind()).collect::<Vec<_>>().join("+");
                match check(spec, base, &o) {
                    Ok(how) => {
                        lcount(format!("runs.{kinds}.{how}"), 1);
                        let e = &mut shape_counts;
                        e[0] += 1;
                        match how {
                            "error" => e[1] += 1,
                            "full_result" => e[2] += 1,
                            _ => e[3] += 1,
                        }
                        if how != "not_reached" {
                            // distinct non-trivial = distinct (scenario, fault set, observable outcome)
                            let sig: Vec<(usize, bool)> = o.rec.outputs.iter().map(|x| (x.batches.iter().map(|b| b.num_rows()).sum(), x.error.is_some())).collect();
                            ctx.nontrivial(&(serde_json::to_string(spec).unwrap(), how, sig));
                            if ctx.want_sample() && how == "error" && prefix.is_empty() && o.rec.steps > 8 {
                                ctx.sample(json!({"spec": spec, "actions": format!("{:?}", o.rec.actions), "log": o.rec.log,
                                    "errors": o.rec.outputs.iter().map(|x| x.error.clone()).collect::<Vec<_>>(),
                                    "rows_delivered": o.rec.outputs.iter().map(|x| x.batches.iter().map(|b| b.num_rows()).sum::<usize>()).collect::<Vec<_>>(),
                                    "fault_free_rows": base.rows.len()}));
                            }
                        }
                    }
                    Err((sym, what)) => {
                        let key = violation_key(spec, &sym, &single_violations);
                        if std::env::var("C20_TRACE").is_ok() {
                            eprintln!("VIOLATION-CASE {key} {what} {}", json!({"spec": spec, "prefix": o.trace.choices}));
                        }
                        ctx.violation(key, format!("{what} [budget {:?}, batch_size {}, faults {:?}]", spec.budget, spec.batch_size, spec.faults), json!({"spec": spec, "prefix": o.trace.choices}));
                    }
                }
                o.trace
            },
            || ctx.should_stop(),
        );
        for (k, v) in local.borrow().iter() {
            ctx.count(k, *v);
        }
        {
            let mut m = per_shape.lock();
            let e = m.entry(spec.shape.name()).or_insert([0; 4]);
            for i in 0..4 {
                e[i] += shape_counts[i];
            }
        }
        if !stats.complete {
            ctx.mark_capped("wall cap hit during fault enumeration");
        }
    });
    }
    let m = per_shape.lock();
    let mut shapes_json = serde_json::Map::new();
    for (k, v) in m.iter() {
        shapes_json.insert(k.clone(), json!({"runs": v[0], "error_surfaced": v[1], "fault_reached_full_result": v[2], "fault_not_reached": v[3]}));
    }
    ctx.set_extra("per_shape", Value::Object(shapes_json));
    ctx.assume("event orders are explored at poll granularity on a single-threaded runtime; the spill backend is the in-memory TempFileFactory (no OS I/O errors)");
    ctx.assume("RecursiveQueryExec and file scans are not in the shape list (not buildable from chk-plan's dependencies without the optimizer / datasource crates)");
}

fn replay(v: &Value) -> Result<(), String> {
    let c: Case = serde_json::from_value(v.clone()).map_err(|e| e.to_string())?;
    mc_core::catch(|| run_case(&c)).unwrap_or_else(Err)
}

fn main() {
    mc_core::quiet_panics();
    run_check(
        "C20",
        Level::FaultEnumeration,
        "for every plan shape of list P (33 shapes: single operators and two/three-level compositions over gated sources) x memory budget {unbounded, calibrated FairSpillPool limit that makes the fault-free run spill} : \
         every single fault point (source error at every (source, partition, item); refused k-th try_grow; failed k-th spill create/write/finish, k below the fault-free count; thorough: every pair) x every event order within the deviation bound; \
         the real plan is run to the end of every output and must yield an error carrying the injected marker or the complete fault-free result - never a hang, a panic or a normal end with rows missing; \
         non-trivial = distinct (scenario, fault set, per-output rows/error outcome) in which the fault point was reached",
        explore,
        replay,
    );
}
