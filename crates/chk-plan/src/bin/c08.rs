//! C08 — sorting, merging and TopK return correctly ordered results.
//!
//! Style I (inputs / configurations).  Real `SortExec` (± fetch = TopK with its
//! dynamic filter, ± preserve_partitioning, ± declared sorted prefix),
//! `SortPreservingMergeExec` over 1–3 pre-sorted partitions (± fetch),
//! `PartialSortExec` (common prefix 1, ± fetch) and `PartitionedTopKExec`
//! (ROW_NUMBER / RANK / DENSE_RANK) are built over in-memory inputs, executed on a
//! single-threaded runtime (optionally under tiny memory pools that force spills
//! and multi-level merges) and checked against an independently written
//! comparator that follows arrow's documented total order: NULL placement by
//! `nulls_first`, `descending` reverses the non-NULL order only, NaN greatest,
//! -0.0 < +0.0, strings byte-wise, struct fields compared in order with the same
//! options.
//!
//! Oracle: without fetch the output is a permutation of the input (every row
//! carries a unique id) whose adjacent rows are non-decreasing; with fetch k the
//! output has min(k, n) rows, all of them input rows, and its key sequence equals
//! the first k keys of the reference order (ties may pick any row).
use std::cell::RefCell;
use std::cmp::Ordering;
use std::collections::BTreeMap;
use std::sync::{Arc, Mutex};
use std::time::Duration;

use arrow::array::{
    Array, ArrayRef, DictionaryArray, Float64Array, Int32Array, Int64Array, RecordBatch, StringArray, StringViewArray, StructArray,
};
use arrow::buffer::NullBuffer;
use arrow::compute::SortOptions;
use arrow::datatypes::{DataType, Field, Fields, Int32Type, Schema, SchemaRef};
use datafusion_common::DataFusionError;
use datafusion_execution::TaskContext;
use datafusion_execution::config::SessionConfig;
use datafusion_execution::memory_pool::{FairSpillPool, GreedyMemoryPool};
use datafusion_execution::runtime_env::RuntimeEnvBuilder;
use datafusion_physical_expr::expressions::Column;
use datafusion_physical_expr::{LexOrdering, PhysicalSortExpr};
use datafusion_physical_plan::ExecutionPlan;
use datafusion_physical_plan::sorts::partial_sort::PartialSortExec;
use datafusion_physical_plan::sorts::partitioned_topk::{PartitionedTopKExec, WindowFnKind};
use datafusion_physical_plan::sorts::sort::SortExec;
use datafusion_physical_plan::sorts::sort_preserving_merge::SortPreservingMergeExec;
use datafusion_physical_plan::test::TestMemoryExec;
use mc_core::serde_json::{Value, json};
use mc_core::{Ctx, Level, enumerate, rayon::prelude::*, run_check};
use serde::{Deserialize, Serialize};

// ---------------------------------------------------------------------------
// values, key sets, arrays
// ---------------------------------------------------------------------------

#[derive(Clone, Debug, PartialEq, Eq, Hash, Serialize, Deserialize)]
enum V {
    N,
    I(i64),
    /// f64 bits
    F(u64),
    S(String),
    /// struct (x: Int32, y: Utf8)
    T(Vec<V>),
}

fn fl(x: f64) -> V {
    V::F(x.to_bits())
}
fn st(x: &str) -> V {
    V::S(x.to_string())
}

#[derive(Clone, Copy, Debug, PartialEq, Eq, Hash, Serialize, Deserialize)]
enum KeySet {
    Int64,
    Float64,
    Utf8,
    Utf8View,
    DictUtf8,
    Struct,
    /// two keys: (Int64, Utf8)
    Int64Utf8,
}

const LONG1: &str = "abcdefghijklmnop_1";
const LONG2: &str = "abcdefghijklmnop_2";

impl KeySet {
    fn nkeys(&self) -> usize {
        if *self == KeySet::Int64Utf8 { 2 } else { 1 }
    }
    fn types(&self) -> Vec<DataType> {
        match self {
            KeySet::Int64 => vec![DataType::Int64],
            KeySet::Float64 => vec![DataType::Float64],
            KeySet::Utf8 => vec![DataType::Utf8],
            KeySet::Utf8View => vec![DataType::Utf8View],
            KeySet::DictUtf8 => vec![DataType::Dictionary(Box::new(DataType::Int32), Box::new(DataType::Utf8))],
            KeySet::Struct => vec![DataType::Struct(struct_fields())],
            KeySet::Int64Utf8 => vec![DataType::Int64, DataType::Utf8],
        }
    }
    /// all key tuples a row may carry
    fn domain(&self) -> Vec<Vec<V>> {
        let one = |vs: Vec<V>| vs.into_iter().map(|v| vec![v]).collect::<Vec<_>>();
        match self {
            KeySet::Int64 => one(vec![V::N, V::I(1), V::I(2), V::I(3)]),
            KeySet::Float64 => one(vec![V::N, fl(f64::NAN), fl(-0.0), fl(0.0), fl(1.5)]),
            KeySet::Utf8 => one(vec![V::N, st(""), st("a"), st("b")]),
            KeySet::Utf8View => one(vec![V::N, st("a"), st(LONG1), st(LONG2)]),
            KeySet::DictUtf8 => one(vec![V::N, st(""), st("a"), st("b")]),
            KeySet::Struct => one(vec![
                V::N,
                V::T(vec![V::N, V::N]),
                V::T(vec![V::I(1), st("a")]),
                V::T(vec![V::I(1), st("b")]),
                V::T(vec![V::I(2), V::N]),
            ]),
            KeySet::Int64Utf8 => {
                let mut out = vec![];
                for a in [V::N, V::I(1), V::I(2)] {
                    for b in [V::N, st("a")] {
                        out.push(vec![a.clone(), b]);
                    }
                }
                out
            }
        }
    }
}

fn struct_fields() -> Fields {
    vec![Field::new("x", DataType::Int32, true), Field::new("y", DataType::Utf8, true)].into()
}

fn build_array(dt: &DataType, vals: &[V]) -> ArrayRef {
    let opt_s = |v: &V| match v {
        V::N => None,
        V::S(x) => Some(x.clone()),
        o => panic!("harness: expected string, got {o:?}"),
    };
    match dt {
        DataType::Int64 => Arc::new(Int64Array::from(
            vals.iter()
                .map(|v| match v {
                    V::N => None,
                    V::I(i) => Some(*i),
                    o => panic!("harness: expected int, got {o:?}"),
                })
                .collect::<Vec<_>>(),
        )),
        DataType::Int32 => Arc::new(Int32Array::from(
            vals.iter()
                .map(|v| match v {
                    V::N => None,
                    V::I(i) => Some(*i as i32),
                    o => panic!("harness: expected int, got {o:?}"),
                })
                .collect::<Vec<_>>(),
        )),
        DataType::Float64 => Arc::new(Float64Array::from(
            vals.iter()
                .map(|v| match v {
                    V::N => None,
                    V::F(b) => Some(f64::from_bits(*b)),
                    o => panic!("harness: expected float, got {o:?}"),
                })
                .collect::<Vec<_>>(),
        )),
        DataType::Utf8 => Arc::new(StringArray::from(vals.iter().map(opt_s).collect::<Vec<_>>())),
        DataType::Utf8View => Arc::new(StringViewArray::from(vals.iter().map(opt_s).collect::<Vec<_>>())),
        DataType::Dictionary(_, _) => {
            // dictionary values in order of first appearance *reversed*, so key order != value order
            let mut distinct: Vec<String> = vec![];
            for v in vals {
                if let Some(s) = opt_s(v) {
                    if !distinct.contains(&s) {
                        distinct.push(s);
                    }
                }
            }
            distinct.reverse();
            let keys: Int32Array = vals.iter().map(|v| opt_s(v).map(|s| distinct.iter().position(|d| *d == s).unwrap() as i32)).collect();
            let values = StringArray::from(distinct);
            Arc::new(DictionaryArray::<Int32Type>::try_new(keys, Arc::new(values)).expect("harness: dictionary"))
        }
        DataType::Struct(fields) => {
            let valid: Vec<bool> = vals.iter().map(|v| *v != V::N).collect();
            let children: Vec<ArrayRef> = fields
                .iter()
                .enumerate()
                .map(|(ci, f)| {
                    let cv: Vec<V> = vals
                        .iter()
                        .map(|v| match v {
                            V::T(cs) => cs[ci].clone(),
                            V::N => V::N,
                            o => panic!("harness: expected struct, got {o:?}"),
                        })
                        .collect();
                    build_array(f.data_type(), &cv)
                })
                .collect();
            let nulls = if valid.iter().all(|b| *b) { None } else { Some(NullBuffer::from(valid)) };
            Arc::new(StructArray::new(fields.clone(), children, nulls))
        }
        o => panic!("harness: unsupported type {o}"),
    }
}

/// Decode a key column back to logical values (independent of how it was encoded).
fn decode(a: &ArrayRef) -> Result<Vec<V>, String> {
    let n = a.len();
    let out = match a.data_type() {
        DataType::Int64 => {
            let x = a.as_any().downcast_ref::<Int64Array>().unwrap();
            (0..n).map(|i| if x.is_null(i) { V::N } else { V::I(x.value(i)) }).collect()
        }
        DataType::Int32 => {
            let x = a.as_any().downcast_ref::<Int32Array>().unwrap();
            (0..n).map(|i| if x.is_null(i) { V::N } else { V::I(x.value(i) as i64) }).collect()
        }
        DataType::Float64 => {
            let x = a.as_any().downcast_ref::<Float64Array>().unwrap();
            (0..n).map(|i| if x.is_null(i) { V::N } else { V::F(x.value(i).to_bits()) }).collect()
        }
        DataType::Utf8 => {
            let x = a.as_any().downcast_ref::<StringArray>().unwrap();
            (0..n).map(|i| if x.is_null(i) { V::N } else { V::S(x.value(i).to_string()) }).collect()
        }
        DataType::Utf8View => {
            let x = a.as_any().downcast_ref::<StringViewArray>().unwrap();
            (0..n).map(|i| if x.is_null(i) { V::N } else { V::S(x.value(i).to_string()) }).collect()
        }
        DataType::Dictionary(_, _) => {
            let x = a.as_any().downcast_ref::<DictionaryArray<Int32Type>>().ok_or("unexpected dictionary key type")?;
            let vals = x.values().as_any().downcast_ref::<StringArray>().ok_or("unexpected dictionary value type")?;
            (0..n)
                .map(|i| {
                    if x.is_null(i) {
                        V::N
                    } else {
                        let k = x.keys().value(i) as usize;
                        if vals.is_null(k) { V::N } else { V::S(vals.value(k).to_string()) }
                    }
                })
                .collect()
        }
        DataType::Struct(_) => {
            let x = a.as_any().downcast_ref::<StructArray>().unwrap();
            let children: Vec<Vec<V>> = x.columns().iter().map(decode).collect::<Result<_, _>>()?;
            (0..n).map(|i| if x.is_null(i) { V::N } else { V::T(children.iter().map(|c| c[i].clone()).collect()) }).collect()
        }
        o => return Err(format!("unexpected output column type {o}")),
    };
    Ok(out)
}

// ---------------------------------------------------------------------------
// the reference comparator (arrow's documented total order)
// ---------------------------------------------------------------------------

type Opt = (bool, bool); // (descending, nulls_first)

fn cmp_f64(a: f64, b: f64) -> Ordering {
    // NaN is greater than every number (and equal to NaN); -0.0 sorts before +0.0
    match (a.is_nan(), b.is_nan()) {
        (true, true) => Ordering::Equal,
        (true, false) => Ordering::Greater,
        (false, true) => Ordering::Less,
        _ => {
            if a == 0.0 && b == 0.0 {
                // false < true : negative zero first
                b.is_sign_negative().cmp(&a.is_sign_negative())
            } else if a < b {
                Ordering::Less
            } else if a > b {
                Ordering::Greater
            } else {
                Ordering::Equal
            }
        }
    }
}

fn cmp_v(a: &V, b: &V, o: Opt) -> Ordering {
    let (desc, nulls_first) = o;
    match (a, b) {
        (V::N, V::N) => Ordering::Equal,
        (V::N, _) => {
            if nulls_first {
                Ordering::Less
            } else {
                Ordering::Greater
            }
        }
        (_, V::N) => {
            if nulls_first {
                Ordering::Greater
            } else {
                Ordering::Less
            }
        }
        (V::T(x), V::T(y)) => {
            // fields in order, each with the same options
            for (p, q) in x.iter().zip(y) {
                let c = cmp_v(p, q, o);
                if c != Ordering::Equal {
                    return c;
                }
            }
            Ordering::Equal
        }
        _ => {
            let c = match (a, b) {
                (V::I(x), V::I(y)) => x.cmp(y),
                (V::F(x), V::F(y)) => cmp_f64(f64::from_bits(*x), f64::from_bits(*y)),
                (V::S(x), V::S(y)) => x.as_bytes().cmp(y.as_bytes()),
                _ => panic!("harness: comparing values of different kinds"),
            };
            if desc { c.reverse() } else { c }
        }
    }
}

/// Are two key tuples peers for the purpose of *which rows a fetch keeps*?  Equal under the
/// comparator, or differing only in the sign of a floating-point zero: DataFusion's SQL
/// comparison semantics make `-0.0 = +0.0`, so the two are ties of an ORDER BY ... LIMIT
/// (the emitted sequence itself must still be in total order, see `check_sorted`).
fn same_rank(a: &[V], b: &[V], opts: &[Opt]) -> bool {
    fn unsign(v: &V) -> V {
        match v {
            V::F(bits) if f64::from_bits(*bits) == 0.0 => V::F(0f64.to_bits()),
            V::T(cs) => V::T(cs.iter().map(unsign).collect()),
            o => o.clone(),
        }
    }
    let a: Vec<V> = a.iter().map(unsign).collect();
    let b: Vec<V> = b.iter().map(unsign).collect();
    cmp_keys(&a, &b, opts) == Ordering::Equal
}

fn cmp_keys(a: &[V], b: &[V], opts: &[Opt]) -> Ordering {
    for i in 0..opts.len() {
        let c = cmp_v(&a[i], &b[i], opts[i]);
        if c != Ordering::Equal {
            return c;
        }
    }
    Ordering::Equal
}

// ---------------------------------------------------------------------------
// cases
// ---------------------------------------------------------------------------

#[derive(Clone, Debug, PartialEq, Eq, Hash, Serialize, Deserialize)]
enum OpSpec {
    /// SortExec over one partition
    Sort,
    /// SortExec.with_preserve_partitioning(true) over `parts` partitions
    SortPreserve,
    /// SortPreservingMergeExec over `parts` partitions, each pre-sorted (and declared sorted)
    Merge,
    /// PartialSortExec with common prefix length 1 over an input sorted (and declared sorted) on the first key
    PartialSort,
    /// SortExec with fetch over an input sorted (and declared sorted) on the first key: TopK with a common sort prefix
    TopKPrefix,
    /// PartitionedTopKExec: partition prefix = first key, order = second key; kind 0 ROW_NUMBER, 1 RANK, 2 DENSE_RANK
    PartitionedTopK { kind: u8 },
}

impl OpSpec {
    fn family(&self) -> &'static str {
        match self {
            OpSpec::Sort => "SortExec",
            OpSpec::SortPreserve => "SortExec/preserve_partitioning",
            OpSpec::Merge => "SortPreservingMergeExec",
            OpSpec::PartialSort => "PartialSortExec",
            OpSpec::TopKPrefix => "SortExec/TopK+common-prefix",
            OpSpec::PartitionedTopK { .. } => "PartitionedTopKExec",
        }
    }
}

#[derive(Clone, Debug, Serialize, Deserialize)]
struct Case {
    op: OpSpec,
    keys: KeySet,
    /// per key (descending, nulls_first)
    opts: Vec<Opt>,
    /// key tuple of every row, in input order; row i carries id i
    rows: Vec<Vec<V>>,
    /// batch lengths (consecutive cut of the row sequence); batch j feeds partition j % parts
    split: Vec<usize>,
    parts: usize,
    fetch: Option<usize>,
    batch_size: usize,
    /// 0 unbounded, 1 GreedyMemoryPool(mem), 2 FairSpillPool(mem)
    pool: u8,
    mem: usize,
    /// sort_in_place_threshold_bytes: false = 0, true = default (1 MiB)
    in_place_default: bool,
    /// max_spill_merge_fan_in (0 = unlimited)
    fan_in: usize,
}

type Row = (Vec<V>, usize); // (keys, id)

fn schema_of(k: KeySet) -> SchemaRef {
    let mut f: Vec<Field> = k.types().into_iter().enumerate().map(|(i, t)| Field::new(format!("k{i}"), t, true)).collect();
    f.push(Field::new("id", DataType::Int32, false));
    Arc::new(Schema::new(f))
}

fn batch_of(k: KeySet, schema: &SchemaRef, rows: &[Row]) -> RecordBatch {
    let mut cols: Vec<ArrayRef> = vec![];
    for (i, t) in k.types().iter().enumerate() {
        cols.push(build_array(t, &rows.iter().map(|r| r.0[i].clone()).collect::<Vec<_>>()));
    }
    cols.push(Arc::new(Int32Array::from(rows.iter().map(|r| r.1 as i32).collect::<Vec<_>>())));
    RecordBatch::try_new(Arc::clone(schema), cols).expect("harness: batch")
}

fn ordering(c: &Case, nkeys: usize) -> LexOrdering {
    LexOrdering::new(
        (0..nkeys)
            .map(|i| {
                PhysicalSortExpr::new(
                    Arc::new(Column::new(&format!("k{i}"), i)),
                    SortOptions { descending: c.opts[i].0, nulls_first: c.opts[i].1 },
                )
            })
            .collect::<Vec<_>>(),
    )
    .expect("harness: ordering")
}

/// Input partitions as lists of batches (pre-sorted where the operator requires it).
fn partitions(c: &Case) -> Vec<Vec<Vec<Row>>> {
    let all: Vec<Row> = c.rows.iter().cloned().enumerate().map(|(i, k)| (k, i)).collect();
    assert_eq!(c.split.iter().sum::<usize>(), all.len(), "harness: split does not cover the rows");
    let presort_prefix = matches!(c.op, OpSpec::PartialSort | OpSpec::TopKPrefix);
    let all = if presort_prefix {
        let mut s = all.clone();
        s.sort_by(|a, b| cmp_keys(&a.0, &b.0, &c.opts[..1]));
        s
    } else {
        all
    };
    let batches = enumerate::apply_split(&all, &c.split);
    let mut parts: Vec<Vec<Vec<Row>>> = vec![vec![]; c.parts];
    for (j, b) in batches.into_iter().enumerate() {
        parts[j % c.parts].push(b);
    }
    if c.op == OpSpec::Merge {
        // every partition must be sorted on the full key: sort its rows, keep its batch lengths
        for p in parts.iter_mut() {
            let lens: Vec<usize> = p.iter().map(|b| b.len()).collect();
            let mut rows: Vec<Row> = p.iter().flatten().cloned().collect();
            rows.sort_by(|a, b| cmp_keys(&a.0, &b.0, &c.opts));
            *p = enumerate::apply_split(&rows, &lens);
        }
    }
    parts
}

fn build_plan(c: &Case) -> datafusion_common::Result<Arc<dyn ExecutionPlan>> {
    let schema = schema_of(c.keys);
    let nkeys = c.keys.nkeys();
    let parts = partitions(c);
    let batches: Vec<Vec<RecordBatch>> = parts.iter().map(|p| p.iter().map(|b| batch_of(c.keys, &schema, b)).collect()).collect();
    let mem = TestMemoryExec::try_new(&batches, Arc::clone(&schema), None)?;
    let declared = match c.op {
        OpSpec::Merge => Some(ordering(c, nkeys)),
        OpSpec::PartialSort | OpSpec::TopKPrefix => Some(ordering(c, 1)),
        _ => None,
    };
    let mem = match declared {
        Some(o) => mem.try_with_sort_information(vec![o])?,
        None => mem,
    };
    let input: Arc<dyn ExecutionPlan> = Arc::new(TestMemoryExec::update_cache(&Arc::new(mem)));
    let full = ordering(c, nkeys);
    Ok(match &c.op {
        OpSpec::Sort | OpSpec::TopKPrefix => Arc::new(SortExec::new(full, input).with_fetch(c.fetch)),
        OpSpec::SortPreserve => Arc::new(SortExec::new(full, input).with_preserve_partitioning(true).with_fetch(c.fetch)),
        OpSpec::Merge => Arc::new(SortPreservingMergeExec::new(full, input).with_fetch(c.fetch)),
        OpSpec::PartialSort => Arc::new(PartialSortExec::new(full, input, 1).with_fetch(c.fetch)),
        OpSpec::PartitionedTopK { kind } => {
            let k = [WindowFnKind::RowNumber, WindowFnKind::Rank, WindowFnKind::DenseRank][*kind as usize];
            Arc::new(PartitionedTopKExec::try_new(input, full, 1, c.fetch.expect("harness: PartitionedTopK needs a fetch"), k)?)
        }
    })
}

fn task_ctx(c: &Case) -> Arc<TaskContext> {
    let mut cfg = SessionConfig::new().with_batch_size(c.batch_size);
    {
        let ex = &mut cfg.options_mut().execution;
        ex.sort_spill_reservation_bytes = 0;
        if !c.in_place_default {
            ex.sort_in_place_threshold_bytes = 0;
        }
    }
    let rb = RuntimeEnvBuilder::new().with_max_spill_merge_fan_in(c.fan_in);
    let rb = match c.pool {
        0 => rb,
        1 => rb.with_memory_pool(Arc::new(GreedyMemoryPool::new(c.mem))),
        _ => rb.with_memory_pool(Arc::new(FairSpillPool::new(c.mem))),
    };
    let rt = rb.build_arc().expect("harness: runtime env");
    Arc::new(TaskContext::default().with_session_config(cfg).with_runtime(rt))
}

thread_local! {
    static RT: RefCell<Option<tokio::runtime::Runtime>> = const { RefCell::new(None) };
}

fn block_on<F: std::future::Future>(f: F) -> F::Output {
    RT.with(|cell| {
        let mut slot = cell.borrow_mut();
        let rt = slot.get_or_insert_with(|| {
            tokio::runtime::Builder::new_current_thread().enable_all().build().expect("harness: tokio runtime")
        });
        rt.block_on(f)
    })
}

fn metric_sum(plan: &Arc<dyn ExecutionPlan>, name: &str) -> usize {
    plan.metrics()
        .map(|m| m.aggregate_by_name().iter().filter(|x| x.value().name() == name).map(|x| x.value().as_usize()).sum())
        .unwrap_or(0)
}

#[derive(Default, Debug)]
struct Stats {
    rejected: Option<String>,
    resources_exhausted: bool,
    spills: usize,
    nontrivial: bool,
    out_rows: usize,
}

fn decode_rows(k: KeySet, batches: &[RecordBatch]) -> Result<Vec<Row>, String> {
    let nk = k.nkeys();
    let mut out = vec![];
    for b in batches {
        if b.num_columns() != nk + 1 {
            return Err(format!("output has {} columns, expected {}", b.num_columns(), nk + 1));
        }
        let keys: Vec<Vec<V>> = (0..nk).map(|i| decode(b.column(i))).collect::<Result<_, _>>()?;
        let ids = decode(b.column(nk))?;
        for r in 0..b.num_rows() {
            let id = match &ids[r] {
                V::I(i) => *i as usize,
                _ => return Err("NULL id in output".into()),
            };
            out.push((keys.iter().map(|c| c[r].clone()).collect(), id));
        }
    }
    Ok(out)
}

/// `got` must consist of distinct input rows (matched through the id column).
fn check_subset(input: &[Row], got: &[Row]) -> Result<(), String> {
    let mut seen = vec![false; input.len()];
    for (keys, id) in got {
        let Some(orig) = input.get(*id) else {
            return Err(format!("output row with unknown id {id}"));
        };
        if seen[*id] {
            return Err(format!("input row id {id} appears twice in the output"));
        }
        seen[*id] = true;
        if orig.0 != *keys {
            return Err(format!("output row id {id} has keys {keys:?}, the input row had {:?}", orig.0));
        }
    }
    Ok(())
}

fn check_sorted(got: &[Row], opts: &[Opt]) -> Result<(), String> {
    for w in got.windows(2) {
        if cmp_keys(&w[0].0, &w[1].0, opts) == Ordering::Greater {
            return Err(format!("output not ordered: {:?} before {:?}", w[0].0, w[1].0));
        }
    }
    Ok(())
}

/// Sort contract for one stream: `input` sorted by `opts`, optionally only the first `fetch` rows.
fn check_sort_output(input: &[Row], got: &[Row], opts: &[Opt], fetch: Option<usize>) -> Result<(), String> {
    check_subset(input, got)?;
    let mut reference: Vec<Row> = input.to_vec();
    reference.sort_by(|a, b| cmp_keys(&a.0, &b.0, opts));
    let want_len = fetch.map(|k| k.min(input.len())).unwrap_or(input.len());
    if got.len() != want_len {
        return Err(format!("{} rows returned, expected {want_len} (input {} rows, fetch {fetch:?})", got.len(), input.len()));
    }
    check_sorted(got, opts)?;
    for (i, (g, r)) in got.iter().zip(&reference).enumerate() {
        if !same_rank(&g.0, &r.0, opts) {
            return Err(format!(
                "position {i}: key {:?} but the reference order has {:?} there; got keys {:?}, reference keys {:?}",
                g.0,
                r.0,
                got.iter().map(|x| &x.0).collect::<Vec<_>>(),
                reference.iter().take(want_len).map(|x| &x.0).collect::<Vec<_>>()
            ));
        }
    }
    Ok(())
}

/// PartitionedTopK contract: per partition key the rows a `WHERE fn() <= k` filter keeps, globally ordered.
fn check_partitioned_topk(input: &[Row], got: &[Row], opts: &[Opt], k: usize, kind: u8) -> Result<(), String> {
    check_subset(input, got)?;
    check_sorted(got, opts)?;
    // groups of the input by first key (comparator equality)
    let mut reference: Vec<Row> = input.to_vec();
    reference.sort_by(|a, b| cmp_keys(&a.0, &b.0, opts));
    let mut expected: Vec<Vec<V>> = vec![]; // expected key tuples, in order
    let mut i = 0;
    while i < reference.len() {
        let mut j = i;
        while j < reference.len() && cmp_v(&reference[j].0[0], &reference[i].0[0], opts[0]) == Ordering::Equal {
            j += 1;
        }
        let group = &reference[i..j];
        let mut rank = 0usize; // RANK of the current row
        let mut dense = 0usize;
        for (pos, row) in group.iter().enumerate() {
            let tie = pos > 0 && cmp_v(&row.0[1], &group[pos - 1].0[1], opts[1]) == Ordering::Equal;
            if !tie {
                rank = pos + 1;
                dense += 1;
            }
            let keep = match kind {
                0 => pos + 1 <= k,
                1 => rank <= k,
                _ => dense <= k,
            };
            if keep {
                expected.push(row.0.clone());
            }
        }
        i = j;
    }
    let got_keys: Vec<&Vec<V>> = got.iter().map(|r| &r.0).collect();
    if got_keys.len() != expected.len() || got_keys.iter().zip(&expected).any(|(g, e)| cmp_keys(g, e, opts) != Ordering::Equal) {
        return Err(format!("kept keys {got_keys:?}, expected {expected:?}"));
    }
    Ok(())
}

fn run_case(c: &Case) -> Result<Stats, String> {
    let mut st = Stats::default();
    let input_parts = partitions(c);
    let all_input: Vec<Row> = {
        let mut v: Vec<Row> = input_parts.iter().flatten().flatten().cloned().collect();
        v.sort_by_key(|r| r.1);
        v
    };
    // non-trivial: at least two distinct keys and at least one tie, or a fetch that cuts the input
    {
        let mut s: Vec<Row> = all_input.clone();
        s.sort_by(|a, b| cmp_keys(&a.0, &b.0, &c.opts));
        let distinct = s.windows(2).filter(|w| cmp_keys(&w[0].0, &w[1].0, &c.opts) != Ordering::Equal).count() + (!s.is_empty()) as usize;
        let presorted = all_input.windows(2).all(|w| cmp_keys(&w[0].0, &w[1].0, &c.opts) != Ordering::Greater);
        st.nontrivial = distinct >= 2 && !presorted || c.fetch.map(|k| k > 0 && k < all_input.len() && distinct >= 2).unwrap_or(false);
    }
    let plan = match mc_core::catch(|| build_plan(c)) {
        Ok(Ok(p)) => p,
        Ok(Err(e)) => {
            st.rejected = Some(e.to_string());
            return Ok(st);
        }
        Err(p) => return Err(format!("constructing the plan: {p}")),
    };
    let ctx = task_ctx(c);
    let plan2 = Arc::clone(&plan);
    let res: Result<datafusion_common::Result<Vec<Vec<RecordBatch>>>, tokio::time::error::Elapsed> = block_on(async move {
        tokio::time::timeout(Duration::from_secs(20), async move {
            let streams = datafusion_physical_plan::execute_stream_partitioned(plan2, ctx)?;
            let parts = futures::future::join_all(streams.into_iter().map(datafusion_physical_plan::common::collect)).await;
            parts.into_iter().collect::<datafusion_common::Result<Vec<_>>>()
        })
        .await
    });
    let outputs = match res {
        Err(_) => return Err("the plan did not finish within 20 s (deadlock / lost wake-up)".into()),
        Ok(Err(e)) => {
            let root = e.find_root();
            if matches!(root, DataFusionError::ResourcesExhausted(_)) && c.pool != 0 {
                st.resources_exhausted = true;
                return Ok(st);
            }
            return Err(format!("execution failed: {e}"));
        }
        Ok(Ok(o)) => o,
    };
    st.spills = metric_sum(&plan, "spill_count");
    let decoded: Vec<Vec<Row>> = outputs.iter().map(|b| decode_rows(c.keys, b)).collect::<Result<_, _>>()?;
    st.out_rows = decoded.iter().map(|d| d.len()).sum();
    match &c.op {
        OpSpec::SortPreserve => {
            if decoded.len() != input_parts.len() {
                return Err(format!("{} output partitions for {} input partitions", decoded.len(), input_parts.len()));
            }
            let mut union: Vec<Row> = vec![];
            for (p, got) in decoded.iter().enumerate() {
                let inp: Vec<Row> = input_parts[p].iter().flatten().cloned().collect();
                check_subset(&all_input, got).map_err(|e| format!("partition {p}: {e}"))?;
                if let Some(r) = got.iter().find(|r| !inp.iter().any(|x| x.1 == r.1)) {
                    return Err(format!("partition {p}: row id {} belongs to another partition", r.1));
                }
                check_sorted(got, &c.opts).map_err(|e| format!("partition {p}: {e}"))?;
                match c.fetch {
                    None => {
                        if got.len() != inp.len() {
                            return Err(format!("partition {p}: {} rows returned for {} input rows", got.len(), inp.len()));
                        }
                    }
                    Some(k) => {
                        // The local TopKs of a partition-preserving SortExec share one threshold (documented on
                        // `TopKDynamicFilters`): a partition may drop rows that cannot be in the *global* top k.
                        if got.len() > k.min(inp.len()) {
                            return Err(format!("partition {p}: {} rows returned with fetch {k} and {} input rows", got.len(), inp.len()));
                        }
                    }
                }
                union.extend(got.iter().cloned());
            }
            if let Some(k) = c.fetch {
                // merging the partitions and keeping k rows must give the global top k
                union.sort_by(|a, b| cmp_keys(&a.0, &b.0, &c.opts));
                union.truncate(k);
                check_sort_output(&all_input, &union, &c.opts, Some(k)).map_err(|e| format!("merged partitions: {e}"))?;
            }
        }
        OpSpec::PartitionedTopK { kind } => {
            if decoded.len() != 1 {
                return Err(format!("{} output partitions, expected 1", decoded.len()));
            }
            check_partitioned_topk(&all_input, &decoded[0], &c.opts, c.fetch.unwrap(), *kind)?;
        }
        _ => {
            if decoded.len() != 1 {
                return Err(format!("{} output partitions, expected 1", decoded.len()));
            }
            check_sort_output(&all_input, &decoded[0], &c.opts, c.fetch)?;
        }
    }
    Ok(st)
}

// ---------------------------------------------------------------------------
// enumeration
// ---------------------------------------------------------------------------

struct Proto {
    case: Case,
    max_rows: usize,
    /// maximal number of batches the row sequence is cut into
    max_batches: usize,
    /// fetch values relative to the row count n: None = no fetch, Some(d) = fetch d if d >= 0 else n + 1 + d ... see `fetches`
    fetches: Vec<Fetch>,
}

#[derive(Clone, Copy, Debug)]
enum Fetch {
    None,
    Abs(usize),
    /// n (all rows)
    N,
    /// n + 1
    N1,
}

fn all_opts(nkeys: usize) -> Vec<Vec<Opt>> {
    let one = [(false, false), (false, true), (true, false), (true, true)];
    if nkeys == 1 {
        one.iter().map(|o| vec![*o]).collect()
    } else {
        let mut out = vec![];
        for a in one {
            for b in one {
                out.push(vec![a, b]);
            }
        }
        out
    }
}

fn for_each_case(p: &Proto, seqs: &[Vec<Vec<V>>], si: usize, mut f: impl FnMut(&Case)) {
    let rows = &seqs[si];
    let n = rows.len();
    let mut c = p.case.clone();
    c.rows = rows.clone();
    for split in enumerate::splits(n, p.max_batches) {
        c.split = split;
        let mut done: Vec<Option<usize>> = vec![];
        for fe in &p.fetches {
            let fetch = match fe {
                Fetch::None => None,
                Fetch::Abs(k) => Some(*k),
                Fetch::N => Some(n),
                Fetch::N1 => Some(n + 1),
            };
            if done.contains(&fetch) || fetch == Some(0) {
                continue; // fetch = 0 never reaches a sort operator (see above)
            }
            done.push(fetch);
            c.fetch = fetch;
            f(&c);
        }
    }
}

fn explore(ctx: &Ctx) {
    let quick = ctx.quick();
    let max_rows = ctx.pick(3, 5);
    let batch_sizes: Vec<usize> = if quick { vec![1, 8192] } else { vec![1, 2, 8192] };
    let keysets: Vec<KeySet> = vec![KeySet::Int64, KeySet::Float64, KeySet::Utf8, KeySet::Utf8View, KeySet::DictUtf8, KeySet::Struct, KeySet::Int64Utf8];
    let base = Case {
        op: OpSpec::Sort,
        keys: KeySet::Int64,
        opts: vec![(false, false)],
        rows: vec![],
        split: vec![],
        parts: 1,
        fetch: None,
        batch_size: 8192,
        pool: 0,
        mem: 0,
        in_place_default: true,
        fan_in: 0,
    };
    // fetch = 0 is not explored: `LIMIT 0` never reaches a sort operator (the optimizer folds it) and TopK asserts k > 0
    let with_fetch = vec![Fetch::None, Fetch::Abs(1), Fetch::Abs(2), Fetch::N, Fetch::N1];
    let mut protos: Vec<Proto> = vec![];
    for ks in &keysets {
        let two = ks.nkeys() == 2;
        let rows_here = if two { max_rows - if quick { 0 } else { 1 } } else { max_rows };
        for opts in all_opts(ks.nkeys()) {
            for bs in &batch_sizes {
                let mk = |op: OpSpec, parts: usize| {
                    let mut c = base.clone();
                    c.op = op;
                    c.keys = *ks;
                    c.opts = opts.clone();
                    c.batch_size = *bs;
                    c.parts = parts;
                    c
                };
                // SortExec, one partition: plain sort and TopK
                protos.push(Proto { case: mk(OpSpec::Sort, 1), max_rows: rows_here, max_batches: 2, fetches: with_fetch.clone() });
                // SortExec preserving 2 partitions
                protos.push(Proto { case: mk(OpSpec::SortPreserve, 2), max_rows: rows_here, max_batches: 2, fetches: vec![Fetch::None, Fetch::Abs(1)] });
                // SortPreservingMergeExec over 1..3 partitions
                for parts in 1..=3usize {
                    if quick && parts == 1 {
                        continue;
                    }
                    protos.push(Proto {
                        case: mk(OpSpec::Merge, parts),
                        max_rows: rows_here,
                        max_batches: parts.max(2),
                        fetches: vec![Fetch::None, Fetch::Abs(1), Fetch::Abs(2), Fetch::N1],
                    });
                }
                if two {
                    protos.push(Proto { case: mk(OpSpec::PartialSort, 1), max_rows: rows_here, max_batches: 2, fetches: vec![Fetch::None, Fetch::Abs(1), Fetch::Abs(2), Fetch::N1] });
                    protos.push(Proto { case: mk(OpSpec::TopKPrefix, 1), max_rows: rows_here, max_batches: 2, fetches: vec![Fetch::Abs(1), Fetch::Abs(2), Fetch::N] });
                    for kind in 0..3u8 {
                        protos.push(Proto { case: mk(OpSpec::PartitionedTopK { kind }, 1), max_rows: rows_here, max_batches: 2, fetches: vec![Fetch::Abs(1), Fetch::Abs(2)] });
                    }
                }
            }
        }
    }
    // memory budgets: SortExec without fetch (external sort with spills, multi-level merges) and TopK
    let budgets: Vec<(u8, usize)> = if quick { vec![(1, 1200), (2, 2500)] } else { vec![(1, 0), (1, 600), (1, 1200), (1, 2500), (1, 5000), (2, 1200), (2, 2500), (2, 5000)] };
    for ks in [KeySet::Int64, KeySet::Utf8View, KeySet::Int64Utf8] {
        for opts in all_opts(ks.nkeys()) {
            if ks.nkeys() == 2 && opts[0] != opts[1] {
                continue;
            }
            for (pool, mem) in &budgets {
                for fan_in in [0usize, 2] {
                    for in_place_default in [true, false] {
                        if quick && (fan_in == 2) != in_place_default {
                            continue;
                        }
                        let mut c = base.clone();
                        c.keys = ks;
                        c.opts = opts.clone();
                        c.batch_size = 1;
                        c.pool = *pool;
                        c.mem = *mem;
                        c.fan_in = fan_in;
                        c.in_place_default = in_place_default;
                        protos.push(Proto {
                            case: c,
                            max_rows: if quick { 3 } else { 4 },
                            max_batches: 4, // one row per batch possible: every batch spills
                            fetches: vec![Fetch::None, Fetch::Abs(2)],
                        });
                    }
                }
            }
        }
    }

    // sequences per proto (shared per key set / length)
    let mut seq_cache: BTreeMap<(String, usize), Arc<Vec<Vec<Vec<V>>>>> = BTreeMap::new();
    let mut items: Vec<(usize, usize)> = vec![];
    let mut proto_seqs: Vec<Arc<Vec<Vec<Vec<V>>>>> = vec![];
    let mut n_cases: u64 = 0;
    for (pi, p) in protos.iter().enumerate() {
        let key = (format!("{:?}", p.case.keys), p.max_rows);
        let seqs = seq_cache.entry(key).or_insert_with(|| Arc::new(enumerate::sequences(&p.case.keys.domain(), 0, p.max_rows))).clone();
        for si in 0..seqs.len() {
            items.push((pi, si));
            n_cases += (enumerate::splits(seqs[si].len(), p.max_batches).len() * p.fetches.len()) as u64;
        }
        proto_seqs.push(seqs);
    }
    items.sort_by_key(|(pi, si)| (proto_seqs[*pi][*si].len(), *si, *pi));

    ctx.set_extra(
        "bounds",
        json!({
            "rows": format!("all sequences of <= {max_rows} rows (<= {} for the two-key set and for the memory-budget runs) over the key domain; every row carries a unique id", if quick { 3 } else { 4 }),
            "key_sets": {"Int64": "NULL,1,2,3", "Float64": "NULL,NaN,-0.0,0.0,1.5", "Utf8": "NULL,'',a,b", "Utf8View": "NULL,a,two 18-byte strings differing in the last byte",
                         "Dictionary<Int32,Utf8>": "NULL,'',a,b (dictionary order reversed)", "Struct{x:Int32,y:Utf8}": "NULL,(NULL,NULL),(1,a),(1,b),(2,NULL)", "(Int64,Utf8)": "{NULL,1,2} x {NULL,a}"},
            "sort_options": "all 4 per key; all 16 for the two-key set",
            "batch_cuts": "every cut into <= 2 batches (<= parts for merges; one row per batch possible in budget runs)",
            "fetch": "none, 1, 2, n, n+1 (operator dependent)",
            "batch_size": batch_sizes,
            "operators": "SortExec | SortExec(fetch)=TopK | SortExec preserve_partitioning(2) | SortPreservingMergeExec(1..3 partitions) | PartialSortExec(prefix 1) | SortExec(fetch) over declared prefix | PartitionedTopKExec(row_number, rank, dense_rank)",
            "memory_budgets(pool,bytes)": budgets,
            "spill_config": "sort_spill_reservation_bytes = 0; sort_in_place_threshold_bytes in {0, default}; max_spill_merge_fan_in in {0, 2}",
            "approx_cases": n_cases,
        }),
    );
    ctx.assume("only the positive quiet NaN is used; NaN payloads / negative NaN are outside the bound");
    ctx.assume("for the choice of rows kept by a fetch, -0.0 and +0.0 are peers (SQL equality in this tree); emitted sequences must still be in total order (-0.0 before +0.0)");
    ctx.assume("SortExec(preserve_partitioning, fetch=k): the local TopKs share one threshold by design, so the demand is on the merged partitions (global top k), not on each partition's own top k");
    ctx.assume("a run that ends in ResourcesExhausted under a finite memory budget is counted, not compared");

    let found: Mutex<BTreeMap<String, ((usize, usize, String), String, Case)>> = Mutex::new(BTreeMap::new());
    items.par_iter().for_each(|(pi, si)| {
        for_each_case(&protos[*pi], &proto_seqs[*pi], *si, |c| {
            if ctx.out_of_time() {
                return;
            }
            ctx.eval();
            let fam = c.op.family();
            match mc_core::catch(|| run_case(c)).unwrap_or_else(Err) {
                Ok(st) => {
                    if st.rejected.is_some() {
                        ctx.count(&format!("rejected[{fam} fetch={:?}]", c.fetch), 1);
                        return;
                    }
                    if st.resources_exhausted {
                        ctx.count(&format!("resources_exhausted[{fam} pool={} mem={}]", c.pool, c.mem), 1);
                        return;
                    }
                    ctx.count(&format!("compared[{fam}{}]", if c.fetch.is_some() { " fetch" } else { "" }), 1);
                    if c.pool != 0 {
                        let bucket = match st.spills {
                            0 => "0",
                            1 => "1",
                            2 => "2",
                            _ => ">=3",
                        };
                        ctx.count(&format!("budget_runs[{fam}{} pool={} mem={} fan_in={}] spills={bucket}", if c.fetch.is_some() { " fetch" } else { "" }, c.pool, c.mem, c.fan_in), 1);
                    }
                    if st.nontrivial {
                        ctx.nontrivial(&(fam, c.keys, &c.opts, &c.rows, c.fetch));
                        if c.rows.len() >= 3 && c.split.len() == 2 && c.fetch == Some(2) && c.keys == KeySet::Float64 && ctx.want_sample() {
                            ctx.sample(json!({"case": c, "output_rows": st.out_rows}));
                        }
                    }
                }
                Err(what) => {
                    let key = if c.fetch == Some(0) {
                        format!("{fam}|fetch=0")
                    } else {
                        format!(
                            "{fam}|{:?}|{}{}",
                            c.keys,
                            if c.fetch.is_some() { "fetch" } else { "no-fetch" },
                            if c.pool != 0 { "|memory-budget" } else { "" }
                        )
                    };
                    let rank = (c.rows.len(), c.split.len(), serde_json::to_string(c).unwrap());
                    ctx.count("violating_cases", 1);
                    let mut f = found.lock().unwrap();
                    if f.get(&key).map(|old| old.0 > rank).unwrap_or(true) {
                        f.insert(key, (rank, what, c.clone()));
                    }
                }
            }
        });
    });
    for (key, (_, what, case)) in found.into_inner().unwrap() {
        ctx.violation(key, what, serde_json::to_value(&case).unwrap());
    }
}

fn replay(v: &Value) -> Result<(), String> {
    let c: Case = serde_json::from_value(v.get("case").cloned().unwrap_or(v.clone())).map_err(|e| format!("bad case: {e}"))?;
    mc_core::catch(|| run_case(&c)).unwrap_or_else(Err).map(|_| ())
}

fn main() {
    if std::env::var("VERIF_LOUD_PANICS").is_err() {
        mc_core::quiet_panics();
    }
    run_check(
        "C08",
        Level::Exploration,
        "every (sort operator variant, key set, sort options, row sequence, batch cut, fetch, batch_size[, memory budget, merge fan-in, in-place threshold]) within the bounds; \
         each built as the real ExecutionPlan over in-memory inputs and executed; output checked to be made of input rows (unique ids), ordered under an independent comparator, \
         of the right length, and key-wise equal to the reference order's prefix; non-trivial = at least two distinct keys and the input not already in order, or a fetch that truncates",
        explore,
        replay,
    );
}
