//! C09 (a) — window functions match their frame definitions under every executor
//! (executor level).
//!
//! For every small input (rows (p, o, v): partition key, order key with ties
//! and NULLs, value with NULLs), every ORDER BY option pair, and every
//! (window function, frame) of the catalogue, the real `WindowAggExec` and the
//! real `BoundedWindowAggExec` (Sorted and Linear input modes, every cut of the
//! input into batches) are built from the same `create_window_expr` and
//! executed; each output cell is compared with an independent evaluator that
//! computes the row's frame from the SQL definition (ROWS offsets, GROUPS peer
//! groups, RANGE value offsets with NULL peers) and applies the function's
//! definition to the frame.
use std::cell::RefCell;
use std::collections::{BTreeMap, HashSet};
use std::sync::{Arc, Mutex};

use arrow::array::*;
use arrow::compute::SortOptions;
use arrow::datatypes::*;
use arrow::record_batch::RecordBatch;
use datafusion_common::ScalarValue;
use datafusion_execution::TaskContext;
use datafusion_execution::config::SessionConfig;
use datafusion_execution::runtime_env::RuntimeEnvBuilder;
use datafusion_expr::{WindowFrame, WindowFrameBound, WindowFrameUnits, WindowFunctionDefinition};
use datafusion_functions_aggregate as fa;
use datafusion_functions_window as fw;
use datafusion_physical_expr::expressions::{Column, Literal, cast};
use datafusion_physical_expr::window::WindowExpr;
use datafusion_physical_expr::{LexOrdering, PhysicalExpr, PhysicalSortExpr};
use datafusion_physical_plan::test::TestMemoryExec;
use datafusion_physical_plan::windows::{BoundedWindowAggExec, WindowAggExec, create_window_expr};
use datafusion_physical_plan::{ExecutionPlan, InputOrderMode, collect};
use mc_core::serde_json::{Value, json};
use mc_core::{Ctx, Level, enumerate, rayon::prelude::*, run_check};
use serde::{Deserialize, Serialize};

// ---------------------------------------------------------------------------
// catalogue
// ---------------------------------------------------------------------------

#[derive(Serialize, Deserialize, Clone, Copy, Debug, Hash, PartialEq, Eq, PartialOrd, Ord)]
enum Bound {
    /// UNBOUNDED PRECEDING
    UP,
    P(u8),
    CR,
    F(u8),
    /// UNBOUNDED FOLLOWING
    UF,
}

impl Bound {
    /// position on the axis UNBOUNDED PRECEDING < k PRECEDING < CURRENT ROW < k FOLLOWING < UNBOUNDED FOLLOWING
    fn pos(&self) -> i32 {
        match self {
            Bound::UP => -1000,
            Bound::P(k) => -(*k as i32),
            Bound::CR => 0,
            Bound::F(k) => *k as i32,
            Bound::UF => 1000,
        }
    }
}

#[derive(Serialize, Deserialize, Clone, Copy, Debug, Hash, PartialEq, Eq, PartialOrd, Ord)]
enum Units {
    Rows,
    Range,
    Groups,
}

#[derive(Serialize, Deserialize, Clone, Copy, Debug, Hash, PartialEq, Eq, PartialOrd, Ord)]
struct Frame {
    units: Units,
    start: Bound,
    end: Bound,
}

#[derive(Serialize, Deserialize, Clone, Copy, Debug, Hash, PartialEq, Eq, PartialOrd, Ord)]
enum Func {
    RowNumber,
    Rank,
    DenseRank,
    PercentRank,
    CumeDist,
    Ntile(u8),
    Lag { off: u8, default: bool },
    Lead { off: u8, default: bool },
    FirstValue { ignore_nulls: bool },
    LastValue { ignore_nulls: bool },
    NthValue { n: i8, ignore_nulls: bool },
    Sum,
    Count,
    Avg,
    Min,
    Max,
}

impl Func {
    fn uses_frame(&self) -> bool {
        matches!(
            self,
            Func::FirstValue { .. }
                | Func::LastValue { .. }
                | Func::NthValue { .. }
                | Func::Sum
                | Func::Count
                | Func::Avg
                | Func::Min
                | Func::Max
        )
    }
}

#[derive(Serialize, Deserialize, Clone, Copy, Debug, Hash, PartialEq, Eq, PartialOrd, Ord)]
struct ExprSpec {
    func: Func,
    frame: Frame,
}

const DEFAULT_LAG: i64 = 9;

/// All frames over the bound set: start <= end, start != UNBOUNDED FOLLOWING, end != UNBOUNDED PRECEDING.
fn frames_over(bs: &[Bound]) -> Vec<Frame> {
    let mut out = vec![];
    for units in [Units::Rows, Units::Range, Units::Groups] {
        for s in bs {
            for e in bs {
                if *s == Bound::UF || *e == Bound::UP || s.pos() > e.pos() {
                    continue;
                }
                out.push(Frame { units, start: *s, end: *e });
            }
        }
    }
    out
}

fn frames(level: u8) -> Vec<Frame> {
    use Bound::*;
    match level {
        // quick: offsets 1 everywhere, plus the frames whose start or end lies 2 away
        0 => {
            let mut f = frames_over(&[UP, P(1), CR, F(1), UF]);
            for units in [Units::Rows, Units::Range, Units::Groups] {
                for (s, e) in [(UP, P(2)), (P(2), P(1)), (P(2), CR), (P(2), F(2)), (CR, F(2)), (F(1), F(2)), (F(2), UF)] {
                    f.push(Frame { units, start: s, end: e });
                }
            }
            f
        }
        1 => frames_over(&[UP, P(2), P(1), CR, F(1), F(2), UF]),
        _ => frames_over(&[UP, P(2), P(1), P(0), CR, F(0), F(1), F(2), UF]),
    }
}

/// Catalogue levels: 0 = quick, 1 = thorough (rows <= 3), 2 = thorough with the 0 PRECEDING / 0 FOLLOWING
/// bounds for three representative functions.
fn catalogue(level: u8) -> Vec<ExprSpec> {
    let all = frames(level.min(1));
    // frames given to functions that must ignore them: the default one plus bounded ones
    // that invite the streaming executor to prune partition state early
    let few = vec![
        Frame { units: Units::Range, start: Bound::UP, end: Bound::CR },
        Frame { units: Units::Rows, start: Bound::UP, end: Bound::UF },
        Frame { units: Units::Rows, start: Bound::CR, end: Bound::CR },
        Frame { units: Units::Rows, start: Bound::P(1), end: Bound::F(1) },
        Frame { units: Units::Groups, start: Bound::CR, end: Bound::CR },
        Frame { units: Units::Range, start: Bound::P(1), end: Bound::F(1) },
    ];
    let mut funcs = vec![Func::RowNumber, Func::Rank, Func::DenseRank, Func::PercentRank, Func::CumeDist];
    for n in 1..=3 {
        funcs.push(Func::Ntile(n));
    }
    for off in 0..=2 {
        for default in [false, true] {
            funcs.push(Func::Lag { off, default });
            funcs.push(Func::Lead { off, default });
        }
    }
    for ignore_nulls in [false, true] {
        funcs.push(Func::FirstValue { ignore_nulls });
        funcs.push(Func::LastValue { ignore_nulls });
        for n in [1, 2, -1] {
            funcs.push(Func::NthValue { n, ignore_nulls });
        }
    }
    funcs.extend([Func::Sum, Func::Count, Func::Avg, Func::Min, Func::Max]);
    // quick: the full frame set for one representative of each evaluation path (retracting sum,
    // moving min, frame-indexed last_value / nth_value), the small set for the others
    let representative = |f: &Func| {
        matches!(
            f,
            Func::Sum | Func::Min | Func::LastValue { ignore_nulls: false } | Func::NthValue { n: 2, ignore_nulls: true }
        )
    };
    let mut out = vec![];
    for f in funcs {
        let fs: Vec<Frame> = if !f.uses_frame() {
            few.clone()
        } else if level == 0 && !representative(&f) {
            few.clone()
        } else if level == 2 && representative(&f) {
            frames(2)
        } else {
            all.clone()
        };
        for fr in fs {
            out.push(ExprSpec { func: f, frame: fr });
        }
    }
    out
}

// ---------------------------------------------------------------------------
// case
// ---------------------------------------------------------------------------

#[derive(Serialize, Deserialize, Clone, Copy, Debug, Hash, PartialEq, Eq, PartialOrd, Ord)]
enum Exec {
    /// whole-partition executor
    WindowAgg,
    /// streaming executor, input sorted on (PARTITION BY, ORDER BY)
    BoundedSorted,
    /// streaming executor, input sorted on ORDER BY only, partitions found by hashing
    BoundedLinear,
}

#[derive(Serialize, Deserialize, Clone, Debug, Hash, PartialEq, Eq)]
enum Exprs {
    /// every `of`-th entry of the tier's catalogue starting at `chunk`, in one operator
    /// (only the bounded-memory part for the streaming executor)
    Catalogue { level: u8, chunk: usize, of: usize },
    One(ExprSpec),
}

/// (p, o, v): partition key 1..=2, order key 0 = NULL or 1..=3, value 0 = NULL or 1..=2
type Row = (u8, u8, u8);

#[derive(Serialize, Deserialize, Clone, Debug, Hash)]
struct Case {
    exec: Exec,
    /// false: no PARTITION BY clause at all
    partition_by: bool,
    desc: bool,
    nulls_first: bool,
    rows: Vec<Row>,
    /// lengths of the consecutive input batches
    cut: Vec<usize>,
    exprs: Exprs,
}

// ---------------------------------------------------------------------------
// values
// ---------------------------------------------------------------------------

#[derive(Clone, Debug, PartialEq)]
enum Val {
    Null,
    I(i64),
    F(f64),
    Other(String),
}

impl Val {
    fn show(&self) -> String {
        match self {
            Val::Null => "NULL".into(),
            Val::I(i) => format!("{i}"),
            Val::F(f) => format!("{f:?}"),
            Val::Other(s) => format!("<{s}>"),
        }
    }
}

fn val_at(a: &dyn Array, i: usize) -> Val {
    use arrow::array::cast::*;
    if a.is_null(i) {
        return Val::Null;
    }
    match a.data_type() {
        DataType::Int64 => Val::I(as_primitive_array::<Int64Type>(a).value(i)),
        DataType::UInt64 => Val::I(as_primitive_array::<UInt64Type>(a).value(i) as i64),
        DataType::Float64 => Val::F(as_primitive_array::<Float64Type>(a).value(i)),
        t => Val::Other(format!("unexpected type {t}")),
    }
}

fn same(a: &Val, b: &Val) -> bool {
    match (a, b) {
        (Val::F(x), Val::F(y)) => x == y || (x - y).abs() <= 1e-12 * 1f64.max(x.abs()).max(y.abs()),
        (a, b) => a == b,
    }
}

// ---------------------------------------------------------------------------
// the reference: frames and functions from their SQL definitions
// ---------------------------------------------------------------------------

/// -1 / 0 / 1: does order key `a` sort before / with / after `b` under the ORDER BY options
fn key_cmp(a: Option<i64>, b: Option<i64>, desc: bool, nulls_first: bool) -> i32 {
    match (a, b) {
        (None, None) => 0,
        (None, Some(_)) => {
            if nulls_first {
                -1
            } else {
                1
            }
        }
        (Some(_), None) => {
            if nulls_first {
                1
            } else {
                -1
            }
        }
        (Some(x), Some(y)) => {
            let c = x.cmp(&y) as i32;
            if desc { -c } else { c }
        }
    }
}

fn okey(o: u8) -> Option<i64> {
    if o == 0 { None } else { Some(o as i64) }
}
fn vval(v: u8) -> Option<i64> {
    if v == 0 { None } else { Some(v as i64) }
}

/// Frame of partition position `i` as the half-open range of partition positions.
/// `keys` are the order keys of the partition's rows in their (sorted) order.
fn frame_of(fr: &Frame, keys: &[Option<i64>], i: usize, desc: bool, nulls_first: bool) -> (usize, usize) {
    let m = keys.len();
    match fr.units {
        Units::Rows => {
            let lo = match fr.start {
                Bound::UP => 0,
                Bound::P(k) => i.saturating_sub(k as usize),
                Bound::CR => i,
                Bound::F(k) => (i + k as usize).min(m),
                Bound::UF => unreachable!(),
            };
            let hi = match fr.end {
                Bound::UP => unreachable!(),
                Bound::P(k) => (i + 1).saturating_sub(k as usize),
                Bound::CR => i + 1,
                Bound::F(k) => (i + 1 + k as usize).min(m),
                Bound::UF => m,
            };
            (lo, hi.max(lo))
        }
        Units::Groups => {
            // peer groups = maximal runs of equal order keys
            let mut groups: Vec<(usize, usize)> = vec![];
            let mut s = 0;
            for j in 1..=m {
                if j == m || keys[j] != keys[s] {
                    groups.push((s, j));
                    s = j;
                }
            }
            let g = groups.iter().position(|(a, b)| *a <= i && i < *b).unwrap();
            let ng = groups.len();
            let lo = match fr.start {
                Bound::UP => 0,
                Bound::P(k) => groups[g.saturating_sub(k as usize)].0,
                Bound::CR => groups[g].0,
                Bound::F(k) => {
                    if g + (k as usize) < ng {
                        groups[g + k as usize].0
                    } else {
                        m
                    }
                }
                Bound::UF => unreachable!(),
            };
            let hi = match fr.end {
                Bound::UP => unreachable!(),
                Bound::P(k) => {
                    if g >= k as usize {
                        groups[g - k as usize].1
                    } else {
                        0
                    }
                }
                Bound::CR => groups[g].1,
                Bound::F(k) => groups[(g + k as usize).min(ng - 1)].1,
                Bound::UF => m,
            };
            (lo, hi.max(lo))
        }
        Units::Range => {
            // value offsets along the sort direction; a NULL key has only its NULL peers within any offset
            let x = keys[i];
            let shifted = |k: i64, preceding: bool| -> Option<i64> {
                x.map(|x| {
                    let towards_smaller = preceding != desc;
                    if towards_smaller { x - k } else { x + k }
                })
            };
            // first row that does not sort before `t` / first row that sorts after `t`
            let first_not_before = |t: Option<i64>| (0..m).find(|j| key_cmp(keys[*j], t, desc, nulls_first) >= 0).unwrap_or(m);
            let first_after = |t: Option<i64>| (0..m).find(|j| key_cmp(keys[*j], t, desc, nulls_first) > 0).unwrap_or(m);
            let lo = match fr.start {
                Bound::UP => 0,
                Bound::P(k) => first_not_before(shifted(k as i64, true)),
                Bound::CR => first_not_before(x),
                Bound::F(k) => first_not_before(shifted(k as i64, false)),
                Bound::UF => unreachable!(),
            };
            let hi = match fr.end {
                Bound::UP => unreachable!(),
                Bound::P(k) => first_after(shifted(k as i64, true)),
                Bound::CR => first_after(x),
                Bound::F(k) => first_after(shifted(k as i64, false)),
                Bound::UF => m,
            };
            (lo, hi.max(lo))
        }
    }
}

/// Expected value of `spec` for partition position `i`.
fn expected(spec: &ExprSpec, keys: &[Option<i64>], vals: &[Option<i64>], i: usize, desc: bool, nulls_first: bool) -> Val {
    let m = keys.len();
    let iv = |x: Option<i64>| x.map(Val::I).unwrap_or(Val::Null);
    // peers of i: rows with an equal order key
    let first_peer = (0..m).find(|j| keys[*j] == keys[i]).unwrap();
    let after_peers = (0..m).rev().find(|j| keys[*j] == keys[i]).unwrap() + 1;
    match spec.func {
        Func::RowNumber => Val::I(i as i64 + 1),
        Func::Rank => Val::I(first_peer as i64 + 1),
        Func::DenseRank => {
            let mut d = 1;
            for j in 1..=first_peer {
                if keys[j] != keys[j - 1] {
                    d += 1;
                }
            }
            Val::I(d)
        }
        Func::PercentRank => Val::F(if m <= 1 { 0.0 } else { first_peer as f64 / (m - 1) as f64 }),
        Func::CumeDist => Val::F(after_peers as f64 / m as f64),
        Func::Ntile(n) => {
            // as equal as possible, larger buckets first
            let n = n as usize;
            let (base, rem) = (m / n, m % n);
            let mut start = 0;
            let mut bucket = 0;
            for b in 0..n {
                let size = base + usize::from(b < rem);
                if i >= start && i < start + size {
                    bucket = b + 1;
                }
                start += size;
            }
            Val::I(bucket as i64)
        }
        Func::Lag { off, default } | Func::Lead { off, default } => {
            let lead = matches!(spec.func, Func::Lead { .. });
            let j = if lead { i as i64 + off as i64 } else { i as i64 - off as i64 };
            if j >= 0 && (j as usize) < m {
                iv(vals[j as usize])
            } else if default {
                Val::I(DEFAULT_LAG)
            } else {
                Val::Null
            }
        }
        _ => {
            let (lo, hi) = frame_of(&spec.frame, keys, i, desc, nulls_first);
            let fr: Vec<Option<i64>> = vals[lo..hi].to_vec();
            let nn: Vec<i64> = fr.iter().flatten().cloned().collect();
            match spec.func {
                Func::FirstValue { ignore_nulls } => {
                    if ignore_nulls {
                        iv(nn.first().cloned())
                    } else {
                        iv(fr.first().cloned().flatten())
                    }
                }
                Func::LastValue { ignore_nulls } => {
                    if ignore_nulls {
                        iv(nn.last().cloned())
                    } else {
                        iv(fr.last().cloned().flatten())
                    }
                }
                Func::NthValue { n, ignore_nulls } => {
                    let seq: Vec<Option<i64>> = if ignore_nulls { nn.iter().map(|v| Some(*v)).collect() } else { fr.clone() };
                    let idx = if n > 0 { n as i64 - 1 } else { seq.len() as i64 + n as i64 };
                    if idx >= 0 && (idx as usize) < seq.len() { iv(seq[idx as usize]) } else { Val::Null }
                }
                Func::Sum => {
                    if nn.is_empty() {
                        Val::Null
                    } else {
                        Val::I(nn.iter().sum())
                    }
                }
                Func::Count => Val::I(nn.len() as i64),
                Func::Avg => {
                    if nn.is_empty() {
                        Val::Null
                    } else {
                        Val::F(nn.iter().sum::<i64>() as f64 / nn.len() as f64)
                    }
                }
                Func::Min => iv(nn.iter().min().cloned()),
                Func::Max => iv(nn.iter().max().cloned()),
                _ => unreachable!(),
            }
        }
    }
}

// ---------------------------------------------------------------------------
// the implementation under check
// ---------------------------------------------------------------------------

fn schema() -> SchemaRef {
    Arc::new(Schema::new(vec![
        Field::new("id", DataType::Int64, false),
        Field::new("p", DataType::Int64, false),
        Field::new("o", DataType::Int64, true),
        Field::new("v", DataType::Int64, true),
    ]))
}

fn make_batch(rows: &[Row], first_id: usize) -> RecordBatch {
    RecordBatch::try_new(
        schema(),
        vec![
            Arc::new(Int64Array::from((0..rows.len()).map(|i| (first_id + i) as i64).collect::<Vec<_>>())),
            Arc::new(Int64Array::from(rows.iter().map(|r| r.0 as i64).collect::<Vec<_>>())),
            Arc::new(Int64Array::from(rows.iter().map(|r| okey(r.1)).collect::<Vec<_>>())),
            Arc::new(Int64Array::from(rows.iter().map(|r| vval(r.2)).collect::<Vec<_>>())),
        ],
    )
    .expect("batch")
}

fn col(name: &str) -> Arc<dyn PhysicalExpr> {
    Arc::new(Column::new(name, schema().index_of(name).unwrap()))
}

fn frame_bound(units: Units, b: Bound) -> WindowFrameBound {
    let num = |k: Option<u8>| match units {
        Units::Range => ScalarValue::Int64(k.map(|k| k as i64)),
        _ => ScalarValue::UInt64(k.map(|k| k as u64)),
    };
    match b {
        Bound::UP => WindowFrameBound::Preceding(num(None)),
        Bound::P(k) => WindowFrameBound::Preceding(num(Some(k))),
        Bound::CR => WindowFrameBound::CurrentRow,
        Bound::F(k) => WindowFrameBound::Following(num(Some(k))),
        Bound::UF => WindowFrameBound::Following(num(None)),
    }
}

fn build_expr(spec: &ExprSpec, c: &Case, name: String) -> Result<Arc<dyn WindowExpr>, String> {
    let sch = schema();
    let v = col("v");
    let lit = |i: i64| Arc::new(Literal::new(ScalarValue::Int64(Some(i)))) as Arc<dyn PhysicalExpr>;
    let udwf = |f: Arc<datafusion_expr::WindowUDF>| WindowFunctionDefinition::WindowUDF(f);
    let udaf = |f: Arc<datafusion_expr::AggregateUDF>| WindowFunctionDefinition::AggregateUDF(f);
    let mut ignore_nulls = false;
    let (fun, args): (WindowFunctionDefinition, Vec<Arc<dyn PhysicalExpr>>) = match spec.func {
        Func::RowNumber => (udwf(fw::row_number::row_number_udwf()), vec![]),
        Func::Rank => (udwf(fw::rank::rank_udwf()), vec![]),
        Func::DenseRank => (udwf(fw::rank::dense_rank_udwf()), vec![]),
        Func::PercentRank => (udwf(fw::rank::percent_rank_udwf()), vec![]),
        Func::CumeDist => (udwf(fw::cume_dist::cume_dist_udwf()), vec![]),
        Func::Ntile(n) => (udwf(fw::ntile::ntile_udwf()), vec![lit(n as i64)]),
        Func::Lag { off, default } | Func::Lead { off, default } => {
            let mut a = vec![v, lit(off as i64)];
            if default {
                a.push(lit(DEFAULT_LAG));
            }
            let f = if matches!(spec.func, Func::Lag { .. }) { fw::lead_lag::lag_udwf() } else { fw::lead_lag::lead_udwf() };
            (udwf(f), a)
        }
        Func::FirstValue { ignore_nulls: i } => {
            ignore_nulls = i;
            (udwf(fw::nth_value::first_value_udwf()), vec![v])
        }
        Func::LastValue { ignore_nulls: i } => {
            ignore_nulls = i;
            (udwf(fw::nth_value::last_value_udwf()), vec![v])
        }
        Func::NthValue { n, ignore_nulls: i } => {
            ignore_nulls = i;
            (udwf(fw::nth_value::nth_value_udwf()), vec![v, lit(n as i64)])
        }
        Func::Sum => (udaf(fa::sum::sum_udaf()), vec![v]),
        Func::Count => (udaf(fa::count::count_udaf()), vec![v]),
        Func::Avg => {
            (udaf(fa::average::avg_udaf()), vec![cast(v, &sch, DataType::Float64).map_err(|e| e.to_string())?])
        }
        Func::Min => (udaf(fa::min_max::min_udaf()), vec![v]),
        Func::Max => (udaf(fa::min_max::max_udaf()), vec![v]),
    };
    let partition_by: Vec<Arc<dyn PhysicalExpr>> = if c.partition_by { vec![col("p")] } else { vec![] };
    let order_by = vec![PhysicalSortExpr::new(col("o"), SortOptions { descending: c.desc, nulls_first: c.nulls_first })];
    let units = match spec.frame.units {
        Units::Rows => WindowFrameUnits::Rows,
        Units::Range => WindowFrameUnits::Range,
        Units::Groups => WindowFrameUnits::Groups,
    };
    let frame = WindowFrame::new_bounds(units, frame_bound(spec.frame.units, spec.frame.start), frame_bound(spec.frame.units, spec.frame.end));
    create_window_expr(&fun, name, &args, &partition_by, &order_by, Arc::new(frame), sch, ignore_nulls, false, None)
        .map_err(|e| format!("create_window_expr({spec:?}): {e}"))
}

thread_local! {
    static RT: RefCell<Option<tokio::runtime::Runtime>> = const { RefCell::new(None) };
}

fn block_on<F: std::future::Future>(f: F) -> F::Output {
    RT.with(|rt| {
        let mut rt = rt.borrow_mut();
        if rt.is_none() {
            *rt = Some(tokio::runtime::Builder::new_current_thread().enable_all().build().expect("runtime"));
        }
        rt.as_ref().unwrap().block_on(f)
    })
}

fn task_ctx() -> Arc<TaskContext> {
    static RT_ENV: std::sync::OnceLock<Arc<datafusion_execution::runtime_env::RuntimeEnv>> = std::sync::OnceLock::new();
    let rt = RT_ENV.get_or_init(|| RuntimeEnvBuilder::new().build_arc().expect("runtime env"));
    Arc::new(TaskContext::new(
        None,
        "c09".to_string(),
        SessionConfig::new(),
        Default::default(),
        Default::default(),
        Default::default(),
        Default::default(),
        Arc::clone(rt),
    ))
}

fn specs_of(c: &Case) -> Vec<ExprSpec> {
    match &c.exprs {
        Exprs::Catalogue { level, chunk, of } => {
            catalogue(*level).into_iter().enumerate().filter(|(i, _)| i % of == *chunk).map(|(_, s)| s).collect()
        }
        Exprs::One(s) => vec![*s],
    }
}

/// Is the input in the order the executor is told it has?
fn input_sorted(c: &Case) -> bool {
    let by_p = c.partition_by && c.exec != Exec::BoundedLinear;
    c.rows.windows(2).all(|w| {
        if by_p && w[0].0 != w[1].0 {
            return w[0].0 < w[1].0;
        }
        key_cmp(okey(w[0].1), okey(w[1].1), c.desc, c.nulls_first) <= 0
    })
}

struct Outcome {
    cells: u64,
    skipped_unbounded: u64,
    /// first mismatching expression, if any
    failure: Option<(ExprSpec, String)>,
}

fn run_case(c: &Case) -> Result<Outcome, String> {
    if !input_sorted(c) {
        return Err("bad case: input rows are not in the declared order".into());
    }
    let all = specs_of(c);
    let mut exprs: Vec<Arc<dyn WindowExpr>> = vec![];
    let mut specs: Vec<ExprSpec> = vec![];
    let mut skipped = 0u64;
    for (k, s) in all.iter().enumerate() {
        let e = build_expr(s, c, format!("w{k}"))?;
        if c.exec != Exec::WindowAgg && !e.uses_bounded_memory() {
            skipped += 1; // the planner never gives such an expression to the streaming executor
            continue;
        }
        exprs.push(e);
        specs.push(*s);
    }
    if exprs.is_empty() {
        return Ok(Outcome { cells: 0, skipped_unbounded: skipped, failure: None });
    }
    // input
    let mut batches = vec![];
    let mut o = 0;
    for len in &c.cut {
        batches.push(make_batch(&c.rows[o..o + len], o));
        o += len;
    }
    if o != c.rows.len() {
        return Err("bad case: cut does not cover the rows".into());
    }
    let e2s = |e: datafusion_common::DataFusionError| format!("plan construction: {e}");
    let opts = SortOptions { descending: c.desc, nulls_first: c.nulls_first };
    let mut ord = vec![];
    if c.partition_by && c.exec != Exec::BoundedLinear {
        ord.push(PhysicalSortExpr::new(col("p"), SortOptions { descending: false, nulls_first: true }));
    }
    ord.push(PhysicalSortExpr::new(col("o"), opts));
    let src = TestMemoryExec::try_new(&[batches], schema(), None)
        .map_err(e2s)?
        .try_with_sort_information(vec![LexOrdering::new(ord).unwrap()])
        .map_err(e2s)?;
    let src: Arc<dyn ExecutionPlan> = Arc::new(TestMemoryExec::update_cache(&Arc::new(src)));
    let plan: Arc<dyn ExecutionPlan> = match c.exec {
        Exec::WindowAgg => Arc::new(WindowAggExec::try_new(exprs, src, false).map_err(e2s)?),
        Exec::BoundedSorted => {
            Arc::new(BoundedWindowAggExec::try_new(exprs, src, InputOrderMode::Sorted, false).map_err(e2s)?)
        }
        Exec::BoundedLinear => {
            Arc::new(BoundedWindowAggExec::try_new(exprs, src, InputOrderMode::Linear, false).map_err(e2s)?)
        }
    };
    let out = block_on(collect(plan, task_ctx())).map_err(|e| format!("execution error: {e}"))?;
    // output rows by id
    let n = c.rows.len();
    let mut got: Vec<Option<Vec<Val>>> = vec![None; n];
    for b in &out {
        for i in 0..b.num_rows() {
            let id = match val_at(b.column(0).as_ref(), i) {
                Val::I(x) if x >= 0 && (x as usize) < n => x as usize,
                other => return Err(format!("output row with id {}", other.show())),
            };
            if got[id].is_some() {
                return Err(format!("input row {id} appears twice in the output"));
            }
            got[id] = Some((4..b.num_columns()).map(|k| val_at(b.column(k).as_ref(), i)).collect());
        }
    }
    // reference, partition by partition
    let mut parts: BTreeMap<u8, Vec<usize>> = BTreeMap::new();
    for (i, r) in c.rows.iter().enumerate() {
        parts.entry(if c.partition_by { r.0 } else { 0 }).or_default().push(i);
    }
    let mut cells = 0;
    let mut failure = None;
    'outer: for idxs in parts.values() {
        let keys: Vec<Option<i64>> = idxs.iter().map(|i| okey(c.rows[*i].1)).collect();
        let vals: Vec<Option<i64>> = idxs.iter().map(|i| vval(c.rows[*i].2)).collect();
        for (pos, id) in idxs.iter().enumerate() {
            let Some(row) = &got[*id] else {
                return Err(format!("input row {id} is missing from the output ({} of {n} rows returned)", got.iter().flatten().count()));
            };
            for (k, s) in specs.iter().enumerate() {
                cells += 1;
                let e = expected(s, &keys, &vals, pos, c.desc, c.nulls_first);
                if !same(&e, &row[k]) && failure.is_none() {
                    failure = Some((
                        *s,
                        format!(
                            "{:?} OVER ({}ORDER BY o {} NULLS {} {:?} BETWEEN {:?} AND {:?}) under {:?}: row {id} (p={}, o={}, v={}) got {}, definition gives {}",
                            s.func,
                            if c.partition_by { "PARTITION BY p " } else { "" },
                            if c.desc { "DESC" } else { "ASC" },
                            if c.nulls_first { "FIRST" } else { "LAST" },
                            s.frame.units,
                            s.frame.start,
                            s.frame.end,
                            c.exec,
                            c.rows[*id].0,
                            okey(c.rows[*id].1).map(|x| x.to_string()).unwrap_or("NULL".into()),
                            vval(c.rows[*id].2).map(|x| x.to_string()).unwrap_or("NULL".into()),
                            row[k].show(),
                            e.show()
                        ),
                    ));
                    break 'outer;
                }
            }
        }
    }
    Ok(Outcome { cells, skipped_unbounded: skipped, failure })
}

// ---------------------------------------------------------------------------
// exploration
// ---------------------------------------------------------------------------

fn inputs(n: usize, partition_by: bool, linear: bool, desc: bool, nulls_first: bool) -> Vec<Vec<Row>> {
    let mut alpha: Vec<Row> = vec![];
    for p in if partition_by { vec![1u8, 2] } else { vec![1u8] } {
        for o in 0..4u8 {
            for v in 0..3u8 {
                alpha.push((p, o, v));
            }
        }
    }
    // only sequences that are already in the declared order (each sorted input exactly once)
    let probe = |rows: &Vec<Row>| {
        let c = Case {
            exec: if linear { Exec::BoundedLinear } else { Exec::WindowAgg },
            partition_by,
            desc,
            nulls_first,
            rows: rows.clone(),
            cut: vec![],
            exprs: Exprs::Catalogue { level: 0, chunk: 0, of: 1 },
        };
        input_sorted(&c)
    };
    // build incrementally to avoid materialising 24^n sequences
    let mut layer: Vec<Vec<Row>> = vec![vec![]];
    for _ in 0..n {
        let mut next = vec![];
        for s in &layer {
            for a in &alpha {
                let mut t = s.clone();
                t.push(*a);
                if probe(&t) {
                    next.push(t);
                }
            }
        }
        layer = next;
    }
    layer
}

struct Sweep {
    n: usize,
    partition_by: bool,
    /// which inputs: all sorted sequences, only those with one partition key value, or only mixed ones with v in {NULL, 1}
    inputs: Which,
    level: u8,
    /// streaming executors: all cuts (true) or only one batch / one row per batch (false)
    all_cuts_linear: bool,
}

#[derive(Clone, Copy, PartialEq, Eq, Debug)]
enum Which {
    All,
    OnePartition,
    MixedSmallValues,
}

fn explore(ctx: &Ctx) {
    let thorough = ctx.thorough();
    let mut sweeps: Vec<Sweep> = vec![];
    let lvl = if thorough { 2 } else { 0 };
    for n in 0..=2 {
        for partition_by in [true, false] {
            sweeps.push(Sweep { n, partition_by, inputs: Which::All, level: lvl, all_cuts_linear: true });
        }
    }
    if thorough {
        sweeps.push(Sweep { n: 3, partition_by: true, inputs: Which::All, level: 2, all_cuts_linear: true });
        sweeps.push(Sweep { n: 3, partition_by: false, inputs: Which::All, level: 2, all_cuts_linear: true });
        sweeps.push(Sweep { n: 4, partition_by: true, inputs: Which::OnePartition, level: 0, all_cuts_linear: false });
    } else {
        sweeps.push(Sweep { n: 3, partition_by: true, inputs: Which::OnePartition, level: 0, all_cuts_linear: false });
        sweeps.push(Sweep { n: 3, partition_by: true, inputs: Which::MixedSmallValues, level: 0, all_cuts_linear: false });
    }
    let sort_opts: Vec<(bool, bool)> = if thorough {
        vec![(false, false), (false, true), (true, true), (true, false)]
    } else {
        vec![(false, false), (true, true)]
    };
    ctx.set_extra(
        "bounds",
        json!({
            "sweeps": sweeps.iter().map(|s| format!("rows = {}, PARTITION BY {}, inputs {:?}, catalogue level {} ({} expressions), streaming Linear cuts {}", s.n, s.partition_by, s.inputs, s.level, catalogue(s.level).len(), if s.all_cuts_linear {"all"} else {"one batch / one row per batch"})).collect::<Vec<_>>(),
            "domain": "partition key in {1,2} (or no PARTITION BY: one partition), order key in {NULL,1,2,3}, value in {NULL,1,2}; every row sequence that is in the declared order; MixedSmallValues = both partition keys present, value in {NULL,1}",
            "order_by_options": if thorough { "ASC/DESC x NULLS FIRST/LAST" } else { "ASC NULLS LAST, DESC NULLS FIRST" },
            "executors": "WindowAggExec (one batch), BoundedWindowAggExec Sorted (every cut into consecutive batches) and Linear",
            "frames_per_level": [frames(0).len(), frames(1).len(), frames(2).len()],
            "functions": "row_number, rank, dense_rank, percent_rank, cume_dist, ntile(1..3), lag/lead(offset 0..2, with/without default), first_value, last_value, nth_value(1,2,-1) (RESPECT/IGNORE NULLS), sum, count, avg, min, max; frame-insensitive functions get 6 frames; level 0 gives the full frame set to sum, min, last_value, nth_value(2) IGNORE NULLS and 6 frames to the other frame-sensitive functions",
        }),
    );
    ctx.assume("RANGE offsets follow the PostgreSQL/SQL:2011 reading: a NULL order key has only its NULL peers within any offset, non-NULL rows never reach NULL rows through an offset bound");
    ctx.assume("the order of tied rows is the input order (inputs are given already sorted, executors are stable)");
    ctx.assume("only expressions with uses_bounded_memory() are given to BoundedWindowAggExec, as the planner does");

    let chunks_for = |level: u8| -> usize { (catalogue(level).len() / 160).max(1) };
    let reported: Mutex<HashSet<String>> = Mutex::new(HashSet::new());
    let all_failing: Mutex<std::collections::BTreeSet<String>> = Mutex::new(Default::default());
    let max_n = sweeps.iter().map(|s| s.n).max().unwrap();
    for n in 0..=max_n {
        if ctx.should_stop() {
            break;
        }
        let mut cases: Vec<Case> = vec![];
        for sw in sweeps.iter().filter(|s| s.n == n) {
            let chunks = chunks_for(sw.level);
            for (desc, nulls_first) in &sort_opts {
                for exec in [Exec::WindowAgg, Exec::BoundedSorted, Exec::BoundedLinear] {
                    if exec == Exec::BoundedLinear && !sw.partition_by {
                        continue; // Linear mode is about unsorted PARTITION BY columns
                    }
                    let cuts: Vec<Vec<usize>> = if n == 0 {
                        vec![vec![]]
                    } else if exec == Exec::WindowAgg {
                        vec![vec![n]]
                    } else if exec == Exec::BoundedLinear && !sw.all_cuts_linear && n > 1 {
                        vec![vec![n], vec![1; n]]
                    } else {
                        enumerate::splits(n, n)
                    };
                    for rows in inputs(n, sw.partition_by, exec == Exec::BoundedLinear, *desc, *nulls_first) {
                        let one_p = rows.iter().all(|r| r.0 == rows[0].0);
                        let keep = match sw.inputs {
                            Which::All => true,
                            Which::OnePartition => rows.iter().all(|r| r.0 == 1),
                            Which::MixedSmallValues => !one_p && rows.iter().all(|r| r.2 <= 1),
                        };
                        if !keep {
                            continue;
                        }
                        for cut in &cuts {
                            for chunk in 0..chunks {
                                cases.push(Case {
                                    exec,
                                    partition_by: sw.partition_by,
                                    desc: *desc,
                                    nulls_first: *nulls_first,
                                    rows: rows.clone(),
                                    cut: cut.clone(),
                                    exprs: Exprs::Catalogue { level: sw.level, chunk, of: chunks },
                                });
                            }
                        }
                    }
                }
            }
        }
        let results: Vec<Option<Result<Outcome, String>>> = cases
            .par_iter()
            .map(|c| {
                if ctx.should_stop() {
                    return None;
                }
                Some(mc_core::catch(|| run_case(c)).unwrap_or_else(Err))
            })
            .collect();
        let mut fs: Vec<(Case, String)> = vec![];
        let (mut cells, mut skipped) = (0u64, 0u64);
        for (c, r) in cases.iter().zip(results) {
            let Some(r) = r else { continue };
            ctx.eval();
            match r {
                Ok(o) => {
                    cells += o.cells;
                    skipped += o.skipped_unbounded;
                    if let Some((spec, what)) = o.failure {
                        // reduce to the single expression when it fails on its own as well
                        let single = Case { exprs: Exprs::One(spec), ..c.clone() };
                        match mc_core::catch(|| run_case(&single)).unwrap_or_else(Err) {
                            Ok(Outcome { failure: Some((_, w)), .. }) => fs.push((single, w)),
                            Err(w) => fs.push((single, w)),
                            Ok(_) => fs.push((c.clone(), format!("(only together with the other expressions of the operator) {what}"))),
                        }
                    } else {
                        // non-trivial: some partition has a tie or a NULL in the order key and >= 2 rows
                        let mut by_p: BTreeMap<u8, Vec<u8>> = BTreeMap::new();
                        for r in &c.rows {
                            by_p.entry(if c.partition_by { r.0 } else { 0 }).or_default().push(r.1);
                        }
                        let interesting = by_p.values().any(|os| {
                            os.len() >= 2 && (os.contains(&0) || os.windows(2).any(|w| w[0] == w[1]))
                        });
                        if interesting {
                            ctx.nontrivial(c);
                            if c.cut.len() >= 2 && c.rows.len() >= 3 && ctx.want_sample() {
                                ctx.sample(serde_json::to_value(c).unwrap());
                            }
                        }
                    }
                }
                Err(what) => fs.push((c.clone(), what)),
            }
        }
        ctx.count("cells_compared", cells);
        ctx.count("expressions_not_given_to_streaming_executor", skipped);
        // deterministic reporting: one violation per (function, frame units, frame end kind, executor kind)
        fs.sort_by_key(|(c, _)| (c.rows.len(), serde_json::to_string(c).unwrap()));
        for (c, what) in fs {
            let class = match &c.exprs {
                Exprs::One(s) => format!(
                    "{}/{:?}/{}",
                    format!("{:?}", s.func).split(|ch: char| !ch.is_alphanumeric()).next().unwrap_or("").to_string(),
                    s.frame.units,
                    if c.exec == Exec::WindowAgg { "whole" } else { "streaming" }
                ),
                _ => format!("batch/{:?}/{}", c.exec, what.chars().filter(|ch| !ch.is_ascii_digit()).take(60).collect::<String>()),
            };
            if let Exprs::One(sp) = &c.exprs {
                all_failing.lock().unwrap().insert(format!(
                    "{:?} {:?} BETWEEN {:?} AND {:?} [{}; ORDER BY {} NULLS {}]",
                    sp.func,
                    sp.frame.units,
                    sp.frame.start,
                    sp.frame.end,
                    if c.exec == Exec::WindowAgg { "WindowAggExec" } else { "BoundedWindowAggExec" },
                    if c.desc { "DESC" } else { "ASC" },
                    if c.nulls_first { "FIRST" } else { "LAST" }
                ));
            }
            if !reported.lock().unwrap().insert(class) {
                ctx.count("violations_of_an_already_reported_class", 1);
                continue;
            }
            let key = serde_json::to_string(&c).unwrap();
            ctx.violation(key, what, serde_json::to_value(&c).unwrap());
        }
    }
    let af = all_failing.into_inner().unwrap();
    if !af.is_empty() {
        ctx.set_extra("all_failing_expressions", json!(af.into_iter().collect::<Vec<_>>()));
    }
}

fn replay(v: &Value) -> Result<(), String> {
    let c: Case = serde_json::from_value(v.clone()).map_err(|e| format!("bad case: {e}"))?;
    match mc_core::catch(|| run_case(&c)).unwrap_or_else(Err)? {
        Outcome { failure: Some((_, what)), .. } => Err(what),
        _ => Ok(()),
    }
}

fn main() {
    mc_core::quiet_panics();
    run_check(
        "C09",
        Level::Exploration,
        "every (executor, PARTITION BY yes/no, ORDER BY options, sorted input row sequence, cut into batches) within the bounds, each run with the whole (function, frame) catalogue in one operator; one evaluation = one plan executed; every output cell is compared with the frame evaluator written from the SQL definition (cells_compared); non-trivial = some partition has >= 2 rows and a tie or NULL in the order key",
        explore,
        replay,
    );
}
