//! C50 — queries accepted over unbounded inputs keep producing results.
//!
//! Streaming shapes (filter/project, union, SymmetricHashJoinExec with ordering +
//! range filter (pruning), BoundedWindowAggExec, ordered (Sorted / PartiallySorted /
//! Partial->Final) AggregateExec, SortPreservingMergeExec, limit, hash join with an
//! unbounded probe side) are built directly over ENDLESS ordered gated sources
//! declared `Boundedness::Unbounded` and must be accepted by the real
//! `SanityCheckPlan`.  Input: every sequence of <= L batches over a 3-symbol
//! alphabet (the order key stays / advances inside the batch / jumps), for
//! two-input shapes x the input each batch arrives on; after this prefix every
//! input keeps producing (|prefix| + 2 further batches each, alternately).  After
//! every arrival the plan runs to quiescence (paused-clock runtime, outputs polled
//! to Pending) while the sources stay OPEN (end of stream is never released).
//! Oracle, against an independent reference on the rows released so far:
//!   soundness, after EVERY arrival, every batch size: delivered ⊆ rows that are
//!     final for every continuation consistent with the input order (no
//!     speculative, wrong or duplicated row); merged output ordered; no stream ends
//!     while its input is open (except LIMIT);
//!   completeness, batch sizes 1 and 2: every row determined by the prefix (rows
//!     passing the filter; join matches; window rows / groups closed by the order
//!     key advancing; merged rows below the other partition's high-water mark; the
//!     first LIMIT rows, and the stream ENDS once the limit is reached) has been
//!     delivered by the end of the continuation ("eventually, while the input
//!     continues"; the observed delivery lag per shape is recorded).
//! Rejection list: hash aggregate on an unordered key, full sort, hash join / cross
//! join with the build side unbounded, unbounded-frame window, symmetric hash join
//! without a prunable filter must be refused by `SanityCheckPlan`.
use arrow::compute::SortOptions;
use arrow::datatypes::{DataType, Field, Schema, SchemaRef};
use arrow::record_batch::RecordBatch;
use chk_plan::evt::{GatedSourceExec, Item, all_rows, int_batch, int_schema};
use datafusion_common::config::ConfigOptions;
use datafusion_common::{JoinSide, JoinType, NullEquality, ScalarValue};
use datafusion_execution::config::SessionConfig;
use datafusion_execution::{SendableRecordBatchStream, TaskContext};
use datafusion_expr::{Operator, WindowFrame, WindowFrameBound, WindowFrameUnits, WindowFunctionDefinition};
use datafusion_functions_aggregate as fa;
use datafusion_physical_expr::aggregate::AggregateExprBuilder;
use datafusion_physical_expr::expressions::{BinaryExpr, Column, Literal};
use datafusion_physical_expr::{LexOrdering, PhysicalExpr, PhysicalSortExpr};
use datafusion_physical_optimizer::PhysicalOptimizerRule;
use datafusion_physical_optimizer::sanity_checker::SanityCheckPlan;
use datafusion_physical_plan::aggregates::{AggregateExec, AggregateMode, PhysicalGroupBy};
use datafusion_physical_plan::execution_plan::Boundedness;
use datafusion_physical_plan::filter::FilterExecBuilder;
use datafusion_physical_plan::joins::utils::{ColumnIndex, JoinFilter};
use datafusion_physical_plan::joins::{CrossJoinExec, HashJoinExec, PartitionMode, StreamJoinPartitionMode, SymmetricHashJoinExec};
use datafusion_physical_plan::limit::GlobalLimitExec;
use datafusion_physical_plan::projection::ProjectionExec;
use datafusion_physical_plan::sorts::sort::SortExec;
use datafusion_physical_plan::sorts::sort_preserving_merge::SortPreservingMergeExec;
use datafusion_physical_plan::union::UnionExec;
use datafusion_physical_plan::windows::{BoundedWindowAggExec, WindowAggExec, create_window_expr};
use datafusion_physical_plan::{ExecutionPlan, ExecutionPlanProperties, InputOrderMode};
use futures::StreamExt;
use mc_core::serde_json::{Value, json};
use mc_core::{Ctx, Level, enumerate, rayon::prelude::*, run_check};
use serde::{Deserialize, Serialize};
use std::collections::BTreeMap;
use std::sync::Arc;
use std::sync::atomic::{AtomicBool, Ordering};
use std::task::{Context, Poll, Wake, Waker};
use std::time::Duration;

type Plan = Arc<dyn ExecutionPlan>;
/// (t, g, v, id): order key, secondary key (id % 2), value (id % 3), unique id
type Row = [i64; 4];
type Out = Vec<Option<i64>>;

#[derive(Serialize, Deserialize, Clone, Copy, Debug, Hash, PartialEq, Eq, PartialOrd, Ord)]
enum Shape {
    FilterProject,
    Union,
    ShjInner,
    ShjLeft,
    BoundedWindowRows,
    BoundedWindowRange,
    AggSorted,
    AggPartiallySorted,
    AggPartialFinal,
    Spm,
    Limit,
    HashJoinProbe,
}

const SHAPES: &[Shape] = &[
    Shape::FilterProject,
    Shape::Union,
    Shape::ShjInner,
    Shape::ShjLeft,
    Shape::BoundedWindowRows,
    Shape::BoundedWindowRange,
    Shape::AggSorted,
    Shape::AggPartiallySorted,
    Shape::AggPartialFinal,
    Shape::Spm,
    Shape::Limit,
    Shape::HashJoinProbe,
];

impl Shape {
    /// number of independently ordered unbounded inputs the arrival sequence is distributed over
    fn inputs(&self) -> usize {
        match self {
            Shape::Union | Shape::ShjInner | Shape::ShjLeft | Shape::Spm => 2,
            _ => 1,
        }
    }
}

const LIMIT: usize = 3;
/// bounded build side of the HashJoinProbe shape: (k, w)
const BUILD: [[i64; 2]; 3] = [[0, 100], [1, 101], [1, 102]];

// ------------------------------------------------------------------ input model

/// One arriving batch: symbol 0 = both rows at the current key, 1 = (T, T+1), 2 = (T+1, T+2); on `input`.
#[derive(Serialize, Deserialize, Clone, Copy, Debug, Hash, PartialEq, Eq)]
struct Arrival {
    sym: u8,
    input: u8,
}

/// rows of every arriving batch, in arrival order
fn materialize(seq: &[Arrival], inputs: usize) -> Vec<(usize, Vec<Row>)> {
    let mut t = vec![1i64; inputs];
    let mut id = 0i64;
    let mut out = vec![];
    for a in seq {
        let i = a.input as usize;
        let keys = match a.sym {
            0 => [t[i], t[i]],
            1 => [t[i], t[i] + 1],
            _ => [t[i] + 1, t[i] + 2],
        };
        t[i] = keys[1];
        let rows: Vec<Row> = keys
            .iter()
            .map(|k| {
                let r = [*k, id % 2, id % 3, id];
                id += 1;
                r
            })
            .collect();
        out.push((i, rows));
    }
    out
}

// ------------------------------------------------------------------ plans

fn col(name: &str, i: usize) -> Arc<dyn PhysicalExpr> {
    Arc::new(Column::new(name, i))
}
fn lit(v: i64) -> Arc<dyn PhysicalExpr> {
    Arc::new(Literal::new(ScalarValue::Int64(Some(v))))
}
fn bin(l: Arc<dyn PhysicalExpr>, op: Operator, r: Arc<dyn PhysicalExpr>) -> Arc<dyn PhysicalExpr> {
    Arc::new(BinaryExpr::new(l, op, r))
}
fn asc(e: Arc<dyn PhysicalExpr>) -> PhysicalSortExpr {
    PhysicalSortExpr::new(e, SortOptions { descending: false, nulls_first: false })
}
fn arc<T: ExecutionPlan + 'static>(t: T) -> Plan {
    Arc::new(t)
}
fn by_name(p: &Plan, n: &str) -> Arc<dyn PhysicalExpr> {
    col(n, p.schema().index_of(n).expect("column"))
}

struct Built {
    plan: Plan,
    /// the unbounded inputs: (source, partition) of input i
    inputs: Vec<(Arc<GatedSourceExec>, usize)>,
    /// bounded helper source that is released completely (incl. end of stream) before the run
    bounded: Option<Arc<GatedSourceExec>>,
}

/// an endless ordered source: schema (<p>t, <p>g, <p>v, <p>id), ordered by <p>t, `parts` partitions
fn unbounded_source(prefix: &str, scripts: Vec<Vec<Vec<Row>>>, declared_unbounded: bool) -> Arc<GatedSourceExec> {
    let names: Vec<String> = ["t", "g", "v", "id"].iter().map(|n| format!("{prefix}{n}")).collect();
    let schema = int_schema(&names.iter().map(|s| s.as_str()).collect::<Vec<_>>());
    let items: Vec<Vec<Item>> = scripts
        .iter()
        .map(|p| p.iter().map(|b| Item::Batch(int_batch(&schema, &b.iter().map(|r| r.iter().map(|x| Some(*x)).collect()).collect::<Vec<_>>()))).collect())
        .collect();
    let ord = LexOrdering::new(vec![asc(col(&names[0], 0))]);
    let b = if declared_unbounded { Boundedness::Unbounded { requires_infinite_memory: false } } else { Boundedness::Bounded };
    GatedSourceExec::new_opts(prefix, schema, items, ord, b)
}

fn sum_count(schema: &SchemaRef, v: &str) -> Vec<Arc<datafusion_physical_expr::aggregate::AggregateFunctionExpr>> {
    let vi = schema.index_of(v).unwrap();
    let mk = |f, args: Vec<Arc<dyn PhysicalExpr>>, name: &str| {
        Arc::new(AggregateExprBuilder::new(f, args).schema(Arc::clone(schema)).alias(name).build().expect("aggregate"))
    };
    vec![mk(fa::sum::sum_udaf(), vec![col(v, vi)], "s"), mk(fa::count::count_udaf(), vec![lit(1)], "c")]
}

fn aggregate(p: Plan, keys: &[&str], two_stage: bool) -> Plan {
    let schema = p.schema();
    let gb = PhysicalGroupBy::new_single(keys.iter().map(|k| (by_name(&p, k), k.to_string())).collect());
    let a = sum_count(&schema, "v");
    let nf: Vec<Option<Arc<dyn PhysicalExpr>>> = vec![None; a.len()];
    let mk = |mode, gb: PhysicalGroupBy, input: Plan| -> Plan {
        arc(AggregateExec::try_new(mode, gb, a.clone(), nf.clone(), input, Arc::clone(&schema)).expect("AggregateExec"))
    };
    if two_stage {
        let part = mk(AggregateMode::Partial, gb.clone(), p);
        mk(AggregateMode::Final, gb.as_final(), part)
    } else {
        mk(AggregateMode::Single, gb, p)
    }
}

fn window(p: Plan, range: bool) -> Plan {
    let fun = WindowFunctionDefinition::AggregateUDF(fa::sum::sum_udaf());
    let frame = if range {
        WindowFrame::new_bounds(WindowFrameUnits::Range, WindowFrameBound::Preceding(ScalarValue::Int64(Some(1))), WindowFrameBound::CurrentRow)
    } else {
        WindowFrame::new_bounds(
            WindowFrameUnits::Rows,
            WindowFrameBound::Preceding(ScalarValue::UInt64(Some(1))),
            WindowFrameBound::Following(ScalarValue::UInt64(Some(1))),
        )
    };
    let e = create_window_expr(&fun, "w".into(), &[by_name(&p, "v")], &[], &[asc(by_name(&p, "t"))], Arc::new(frame), p.schema(), false, false, None)
        .expect("window expr");
    arc(BoundedWindowAggExec::try_new(vec![e], p, InputOrderMode::Sorted, true).expect("BoundedWindowAggExec"))
}

/// `lt > rt - 2 AND lt < rt + 2` over the order columns of both sides
fn band_filter() -> JoinFilter {
    let schema = Arc::new(Schema::new(vec![Field::new("lt", DataType::Int64, true), Field::new("rt", DataType::Int64, true)]));
    let e = bin(
        bin(col("lt", 0), Operator::Gt, bin(col("rt", 1), Operator::Minus, lit(2))),
        Operator::And,
        bin(col("lt", 0), Operator::Lt, bin(col("rt", 1), Operator::Plus, lit(2))),
    );
    JoinFilter::new(e, vec![ColumnIndex { index: 0, side: JoinSide::Left }, ColumnIndex { index: 0, side: JoinSide::Right }], schema)
}

fn shj(l: Plan, r: Plan, jt: JoinType, filter: Option<JoinFilter>) -> datafusion_common::Result<Plan> {
    let on = vec![(by_name(&l, "lg"), by_name(&r, "rg"))];
    let lo = LexOrdering::new(vec![asc(by_name(&l, "lt"))]);
    let ro = LexOrdering::new(vec![asc(by_name(&r, "rt"))]);
    Ok(arc(SymmetricHashJoinExec::try_new(l, r, on, filter, &jt, NullEquality::NullEqualsNothing, lo, ro, StreamJoinPartitionMode::SinglePartition)?))
}

fn bounded_build_source() -> Arc<GatedSourceExec> {
    let schema = int_schema(&["k", "w"]);
    let rows: Vec<Vec<Option<i64>>> = BUILD.iter().map(|r| r.iter().map(|x| Some(*x)).collect()).collect();
    GatedSourceExec::new("build", Arc::clone(&schema), vec![vec![Item::Batch(int_batch(&schema, &rows))]], None)
}

/// per-input scripts (batches in arrival order of that input) of a sequence
fn scripts_of(seq: &[Arrival], inputs: usize) -> Vec<Vec<Vec<Row>>> {
    let mut s = vec![vec![]; inputs];
    for (i, rows) in materialize(seq, inputs) {
        s[i].push(rows);
    }
    s
}

fn build(shape: Shape, seq: &[Arrival], batch_size: usize) -> Built {
    let scripts = scripts_of(seq, shape.inputs());
    let one = |prefix: &str| unbounded_source(prefix, vec![scripts[0].clone()], true);
    let single = |plan: Plan, s: Arc<GatedSourceExec>| Built { plan, inputs: vec![(s, 0)], bounded: None };
    match shape {
        Shape::FilterProject | Shape::Limit => {
            let s = one("");
            let p: Plan = s.clone();
            // FilterExec carries its own target batch size (the planner copies the session's into it)
            let f: Plan = arc(
                FilterExecBuilder::new(bin(by_name(&p, "v"), Operator::NotEq, lit(0)), p).with_batch_size(batch_size).build().expect("FilterExec"),
            );
            let exprs = vec![
                (by_name(&f, "t"), "t".to_string()),
                (bin(by_name(&f, "v"), Operator::Multiply, lit(10)), "v10".to_string()),
                (by_name(&f, "id"), "id".to_string()),
            ];
            let pr: Plan = arc(ProjectionExec::try_new(exprs, f).expect("ProjectionExec"));
            let plan = if shape == Shape::Limit { arc(GlobalLimitExec::new(pr, 0, Some(LIMIT))) } else { pr };
            single(plan, s)
        }
        Shape::Union => {
            let a = unbounded_source("", vec![scripts[0].clone()], true);
            let b = unbounded_source("", vec![scripts[1].clone()], true);
            let plan = UnionExec::try_new(vec![a.clone() as Plan, b.clone() as Plan]).expect("UnionExec");
            Built { plan, inputs: vec![(a, 0), (b, 0)], bounded: None }
        }
        Shape::ShjInner | Shape::ShjLeft => {
            let l = unbounded_source("l", vec![scripts[0].clone()], true);
            let r = unbounded_source("r", vec![scripts[1].clone()], true);
            let jt = if shape == Shape::ShjInner { JoinType::Inner } else { JoinType::Left };
            let plan = shj(l.clone(), r.clone(), jt, Some(band_filter())).expect("SymmetricHashJoinExec");
            Built { plan, inputs: vec![(l, 0), (r, 0)], bounded: None }
        }
        Shape::BoundedWindowRows => {
            let s = one("");
            single(window(s.clone(), false), s)
        }
        Shape::BoundedWindowRange => {
            let s = one("");
            single(window(s.clone(), true), s)
        }
        Shape::AggSorted => {
            let s = one("");
            single(aggregate(s.clone(), &["t"], false), s)
        }
        Shape::AggPartiallySorted => {
            let s = one("");
            single(aggregate(s.clone(), &["t", "g"], false), s)
        }
        Shape::AggPartialFinal => {
            let s = one("");
            single(aggregate(s.clone(), &["t"], true), s)
        }
        Shape::Spm => {
            let s = unbounded_source("", vec![scripts[0].clone(), scripts[1].clone()], true);
            let p: Plan = s.clone();
            let ord = LexOrdering::new(vec![asc(by_name(&p, "t"))]).unwrap();
            Built { plan: arc(SortPreservingMergeExec::new(ord, p)), inputs: vec![(s.clone(), 0), (s, 1)], bounded: None }
        }
        Shape::HashJoinProbe => {
            let b = bounded_build_source();
            let s = one("");
            let l: Plan = b.clone();
            let r: Plan = s.clone();
            let on = vec![(by_name(&l, "k"), by_name(&r, "g"))];
            let plan = arc(
                HashJoinExec::try_new(l, r, on, None, &JoinType::Inner, None, PartitionMode::CollectLeft, NullEquality::NullEqualsNothing, false)
                    .expect("HashJoinExec"),
            );
            Built { plan, inputs: vec![(s, 0)], bounded: Some(b) }
        }
    }
}

// ------------------------------------------------------------------ reference

struct Expect {
    /// rows that must have been delivered (determined by the prefix)
    must: Vec<Out>,
    /// rows that may have been delivered (final under every continuation); superset of `must`
    may: Vec<Out>,
    /// the delivered sequence must be non-decreasing in column 0
    sorted: bool,
    /// Some(b): the output stream must (b) / must not (!b) have ended
    ended: Option<bool>,
}

fn o(v: &[i64]) -> Out {
    v.iter().map(|x| Some(*x)).collect()
}

fn reference(shape: Shape, arrived: &[(usize, Vec<Row>)]) -> Expect {
    let n_in = shape.inputs();
    let mut per: Vec<Vec<Row>> = vec![vec![]; n_in];
    for (i, rows) in arrived {
        per[*i].extend(rows.iter().cloned());
    }
    let all: Vec<Row> = arrived.iter().flat_map(|(_, r)| r.iter().cloned()).collect();
    let tmax = |rows: &Vec<Row>| rows.iter().map(|r| r[0]).max();
    let same = |must: Vec<Out>| Expect { may: must.clone(), must, sorted: false, ended: Some(false) };
    match shape {
        Shape::FilterProject => same(all.iter().filter(|r| r[2] != 0).map(|r| o(&[r[0], r[2] * 10, r[3]])).collect()),
        Shape::Limit => {
            let pass: Vec<Out> = all.iter().filter(|r| r[2] != 0).map(|r| o(&[r[0], r[2] * 10, r[3]])).collect();
            let reached = pass.len() >= LIMIT;
            let first: Vec<Out> = pass.into_iter().take(LIMIT).collect();
            Expect { may: first.clone(), must: first, sorted: false, ended: Some(reached) }
        }
        Shape::Union => same(all.iter().map(|r| o(r)).collect()),
        Shape::ShjInner | Shape::ShjLeft => {
            let (l, r) = (&per[0], &per[1]);
            let matches = |a: &Row, b: &Row| a[1] == b[1] && a[0] > b[0] - 2 && a[0] < b[0] + 2;
            let mut must = vec![];
            for a in l {
                for b in r {
                    if matches(a, b) {
                        must.push(o(&[a[0], a[1], a[2], a[3], b[0], b[1], b[2], b[3]]));
                    }
                }
            }
            let mut may = must.clone();
            if shape == Shape::ShjLeft {
                // an unmatched left row is final once no future right row (rt >= max released rt) can be in its band
                if let Some(rmax) = tmax(r) {
                    for a in l {
                        if !r.iter().any(|b| matches(a, b)) && rmax >= a[0] + 2 {
                            let mut row = o(&[a[0], a[1], a[2], a[3]]);
                            row.extend([None, None, None, None]);
                            may.push(row);
                        }
                    }
                }
            }
            Expect { must, may, sorted: false, ended: Some(false) }
        }
        Shape::BoundedWindowRows => {
            // ROWS BETWEEN 1 PRECEDING AND 1 FOLLOWING in arrival (= key) order: final once the next row exists
            let v: Vec<i64> = all.iter().map(|r| r[2]).collect();
            let n = all.len();
            same(
                (0..n.saturating_sub(1))
                    .map(|i| {
                        let s = v[i] + if i > 0 { v[i - 1] } else { 0 } + v[i + 1];
                        o(&[all[i][0], all[i][1], all[i][2], all[i][3], s])
                    })
                    .collect(),
            )
        }
        Shape::BoundedWindowRange => {
            // RANGE BETWEEN 1 PRECEDING AND CURRENT ROW on t: final once the key advanced beyond the row's key
            let m = tmax(&all).unwrap_or(i64::MIN);
            same(
                all.iter()
                    .filter(|r| r[0] < m)
                    .map(|r| {
                        let s: i64 = all.iter().filter(|x| x[0] >= r[0] - 1 && x[0] <= r[0]).map(|x| x[2]).sum();
                        o(&[r[0], r[1], r[2], r[3], s])
                    })
                    .collect(),
            )
        }
        Shape::AggSorted | Shape::AggPartialFinal | Shape::AggPartiallySorted => {
            let m = tmax(&all).unwrap_or(i64::MIN);
            let mut groups: BTreeMap<Vec<i64>, (i64, i64)> = BTreeMap::new();
            for r in all.iter().filter(|r| r[0] < m) {
                let key = if shape == Shape::AggPartiallySorted { vec![r[0], r[1]] } else { vec![r[0]] };
                let e = groups.entry(key).or_insert((0, 0));
                e.0 += r[2];
                e.1 += 1;
            }
            same(groups.into_iter().map(|(k, (s, c))| o(&[k, vec![s, c]].concat())).collect())
        }
        Shape::Spm => {
            let hi: Vec<Option<i64>> = per.iter().map(tmax).collect();
            let mut must = vec![];
            let mut may = vec![];
            for (i, rows) in per.iter().enumerate() {
                let other = hi[1 - i];
                for r in rows {
                    if let Some(h) = other {
                        if r[0] < h {
                            must.push(o(r));
                        }
                        if r[0] <= h {
                            may.push(o(r));
                        }
                    }
                }
            }
            Expect { must, may, sorted: true, ended: Some(false) }
        }
        Shape::HashJoinProbe => {
            let mut must = vec![];
            for r in &all {
                for b in BUILD.iter().filter(|b| b[0] == r[1]) {
                    must.push(o(&[b[0], b[1], r[0], r[1], r[2], r[3]]));
                }
            }
            same(must)
        }
    }
}

/// multiset difference a - b (elements of a not covered by b)
fn minus(a: &[Out], b: &[Out]) -> Vec<Out> {
    let mut m: BTreeMap<&Out, i64> = BTreeMap::new();
    for x in b {
        *m.entry(x).or_insert(0) += 1;
    }
    let mut out = vec![];
    for x in a {
        let e = m.entry(x).or_insert(0);
        if *e > 0 {
            *e -= 1;
        } else {
            out.push(x.clone());
        }
    }
    out
}

// ------------------------------------------------------------------ driver (sources stay open)

struct Flag(AtomicBool);
impl Wake for Flag {
    fn wake(self: Arc<Self>) {
        self.0.store(true, Ordering::SeqCst);
    }
}

async fn quiesce() {
    tokio::time::sleep(Duration::from_nanos(1)).await;
}

#[derive(Default, Clone)]
struct OutState {
    batches: Vec<RecordBatch>,
    ended: bool,
    error: Option<String>,
}

/// polls every output until none makes progress (each poll: to a fixpoint of Pending-without-wake-up)
async fn drain(streams: &mut [Option<SendableRecordBatchStream>], flags: &[Arc<Flag>], wakers: &[Waker], outs: &mut [OutState]) {
    loop {
        let mut progressed = false;
        for j in 0..streams.len() {
            let mut rounds = 0;
            while let Some(s) = streams[j].as_mut() {
                rounds += 1;
                flags[j].0.store(false, Ordering::SeqCst);
                let mut cx = Context::from_waker(&wakers[j]);
                match s.poll_next_unpin(&mut cx) {
                    Poll::Ready(Some(Ok(b))) => {
                        outs[j].batches.push(b);
                        progressed = true;
                    }
                    Poll::Ready(Some(Err(e))) => {
                        outs[j].error = Some(e.to_string());
                        streams[j] = None;
                        progressed = true;
                    }
                    Poll::Ready(None) => {
                        outs[j].ended = true;
                        streams[j] = None;
                        progressed = true;
                    }
                    Poll::Pending => {
                        quiesce().await;
                        if !flags[j].0.load(Ordering::SeqCst) || rounds > 512 {
                            break;
                        }
                    }
                }
            }
        }
        if !progressed {
            break;
        }
    }
}

/// Releases the arrivals one by one; `eager`: the outputs are polled to quiescence after every arrival and a
/// snapshot is taken each time; otherwise only once after the last arrival.
fn drive(shape: Shape, seq: &[Arrival], batch_size: usize, eager: bool) -> Result<Vec<Vec<OutState>>, String> {
    thread_local! {
        static RT: tokio::runtime::Runtime = tokio::runtime::Builder::new_current_thread().enable_time().start_paused(true).build().expect("runtime");
    }
    RT.with(|rt| {
        rt.block_on(async move {
            let built = build(shape, seq, batch_size);
            let ctx = Arc::new(TaskContext::default().with_session_config(SessionConfig::new().with_batch_size(batch_size)));
            let n = built.plan.output_partitioning().partition_count();
            let mut streams: Vec<Option<SendableRecordBatchStream>> = vec![];
            for j in 0..n {
                streams.push(Some(built.plan.execute(j, Arc::clone(&ctx)).map_err(|e| format!("execute: {e}"))?));
            }
            let flags: Vec<Arc<Flag>> = (0..n).map(|_| Arc::new(Flag(AtomicBool::new(true)))).collect();
            let wakers: Vec<Waker> = flags.iter().map(|f| Waker::from(Arc::clone(f))).collect();
            let mut outs = vec![OutState::default(); n];
            let mut snaps = vec![];
            quiesce().await;
            if let Some(b) = &built.bounded {
                // the bounded side arrives completely, including its end of stream
                drain(&mut streams, &flags, &wakers, &mut outs).await;
                for _ in 0..2 {
                    b.release(0);
                    quiesce().await;
                }
            }
            drain(&mut streams, &flags, &wakers, &mut outs).await;
            if eager {
                snaps.push(outs.clone());
            }
            for a in seq {
                let (src, part) = &built.inputs[a.input as usize];
                src.release(*part);
                quiesce().await;
                if eager {
                    drain(&mut streams, &flags, &wakers, &mut outs).await;
                    snaps.push(outs.clone());
                }
            }
            if !eager {
                drain(&mut streams, &flags, &wakers, &mut outs).await;
                snaps.push(outs.clone());
            }
            // abandon the query
            for s in streams.iter_mut() {
                *s = None;
            }
            drop(built);
            for _ in 0..4 {
                quiesce().await;
                tokio::task::yield_now().await;
            }
            Ok(snaps)
        })
    })
}

// ------------------------------------------------------------------ cases

#[derive(Serialize, Deserialize, Clone, Debug, Hash)]
struct Case {
    shape: Shape,
    seq: Vec<Arrival>,
    batch_size: usize,
    eager: bool,
}

#[derive(Default)]
struct Stats {
    /// the reference demands at least one delivered row for the prefix
    rows_demanded: usize,
    snapshots: usize,
    /// eager consumer: number of further arrivals after the prefix until every determined row was delivered
    lag: Option<usize>,
}

/// The inputs "keep producing": after the prefix every input receives `|prefix| + 2` further batches (key jumps),
/// alternately.  A row determined by the prefix must be delivered by then (eventual delivery within a stated bound).
fn continuation(prefix_len: usize, inputs: usize) -> Vec<Arrival> {
    let mut c = vec![];
    for _ in 0..prefix_len + 2 {
        for i in 0..inputs {
            c.push(Arrival { sym: 2, input: i as u8 });
        }
    }
    c
}

fn delivered_of(outs: &[OutState]) -> Vec<Out> {
    outs.iter().flat_map(|x| all_rows(&x.batches)).collect()
}

/// soundness of one snapshot: only final rows, in order, no early end
fn check_sound(shape: Shape, arrived: &[(usize, Vec<Row>)], outs: &[OutState]) -> Result<(), String> {
    let e = reference(shape, arrived);
    if let Some(err) = outs.iter().find_map(|x| x.error.clone()) {
        return Err(format!("the query failed: {err}"));
    }
    let delivered = delivered_of(outs);
    let wrong = minus(&delivered, &e.may);
    if !wrong.is_empty() {
        return Err(format!(
            "delivered row(s) {wrong:?} are not (yet) part of the result for the input released so far ({} arrivals): speculative, wrong or duplicated; allowed {:?}",
            arrived.len(),
            e.may
        ));
    }
    if e.sorted {
        let keys: Vec<Option<i64>> = delivered.iter().map(|r| r[0]).collect();
        if !keys.windows(2).all(|w| w[0] <= w[1]) {
            return Err(format!("merged output is not ordered: {keys:?}"));
        }
    }
    if e.ended == Some(false) && outs.iter().any(|x| x.ended) {
        return Err("an output stream ended although its unbounded input is still open".into());
    }
    Ok(())
}

fn run_case(c: &Case) -> Result<Stats, String> {
    let n_in = c.shape.inputs();
    let mut full = c.seq.clone();
    full.extend(continuation(c.seq.len(), n_in));
    let arrivals = materialize(&full, n_in);
    let snaps = drive(c.shape, &full, c.batch_size, c.eager)?;
    let mut st = Stats::default();
    let want = reference(c.shape, &arrivals[..c.seq.len()]);
    st.rows_demanded = want.must.len();
    for (i, outs) in snaps.iter().enumerate() {
        let upto = if c.eager { i } else { full.len() };
        if std::env::var("C50_TRACE").is_ok() {
            eprintln!("after {upto} arrivals (last {:?}): delivered {:?} ended {:?}", arrivals[..upto].last(), outs.iter().map(|x| all_rows(&x.batches)).collect::<Vec<_>>(), outs.iter().map(|x| x.ended).collect::<Vec<_>>());
        }
        check_sound(c.shape, &arrivals[..upto], outs).map_err(|w| format!("after {upto} arrivals: {w}"))?;
        st.snapshots += 1;
        if upto >= c.seq.len() && st.lag.is_none() && minus(&want.must, &delivered_of(outs)).is_empty() {
            st.lag = Some(upto - c.seq.len());
        }
    }
    // completeness: decidable only when no operator may hold rows back to fill an output batch
    if c.batch_size <= 2 {
        let last = snaps.last().expect("snapshot");
        let delivered = delivered_of(last);
        let missing = minus(&want.must, &delivered);
        if !missing.is_empty() {
            return Err(format!(
                "row(s) {missing:?} are determined by the first {} batches but were still not delivered after every input produced {} more batches (input still open; {} of {} determined rows delivered)",
                c.seq.len(),
                c.seq.len() + 2,
                want.must.len() - missing.len(),
                want.must.len()
            ));
        }
        if want.ended == Some(true) && !last.iter().all(|x| x.ended) {
            return Err("the LIMIT is reached but the stream did not end while the input is still open".into());
        }
    }
    Ok(st)
}

// ------------------------------------------------------------------ planner acceptance / rejection

fn sanity(plan: &Plan) -> Result<(), String> {
    // `allow_symmetric_joins_without_pruning` (default true) lets a symmetric hash join without a prunable filter
    // through; it is switched off so that the rule's own notion of "cannot run on a stream" is exercised
    let mut cfg = ConfigOptions::default();
    cfg.optimizer.allow_symmetric_joins_without_pruning = false;
    SanityCheckPlan::new().optimize(Arc::clone(plan), &cfg).map(|_| ()).map_err(|e| e.to_string())
}

#[derive(Serialize, Deserialize, Clone, Copy, Debug, Hash, PartialEq, Eq)]
enum Reject {
    HashAggUnorderedKey,
    HashAggUnorderedKeyTwoStage,
    FullSort,
    HashJoinBuildUnbounded,
    CrossJoinBuildUnbounded,
    UnboundedFrameWindow,
    ShjWithoutFilter,
}

const REJECTS: &[Reject] = &[
    Reject::HashAggUnorderedKey,
    Reject::HashAggUnorderedKeyTwoStage,
    Reject::FullSort,
    Reject::HashJoinBuildUnbounded,
    Reject::CrossJoinBuildUnbounded,
    Reject::UnboundedFrameWindow,
    Reject::ShjWithoutFilter,
];

fn reject_plan(r: Reject, declared_unbounded: bool) -> Plan {
    let batch = vec![vec![[1i64, 0, 1, 0], [2, 1, 2, 1]]];
    let src = |p: &str| -> Plan { unbounded_source(p, vec![batch.clone()], declared_unbounded) };
    match r {
        Reject::HashAggUnorderedKey => aggregate(src(""), &["g"], false),
        Reject::HashAggUnorderedKeyTwoStage => aggregate(src(""), &["g"], true),
        Reject::FullSort => {
            let s = src("");
            let ord = LexOrdering::new(vec![asc(by_name(&s, "v"))]).unwrap();
            arc(SortExec::new(ord, s))
        }
        Reject::HashJoinBuildUnbounded => {
            let l = src("");
            let r: Plan = bounded_build_source();
            let on = vec![(by_name(&l, "g"), by_name(&r, "k"))];
            arc(HashJoinExec::try_new(l, r, on, None, &JoinType::Inner, None, PartitionMode::CollectLeft, NullEquality::NullEqualsNothing, false).expect("HashJoinExec"))
        }
        Reject::CrossJoinBuildUnbounded => arc(CrossJoinExec::new(src(""), bounded_build_source())),
        Reject::UnboundedFrameWindow => {
            let s = src("");
            let fun = WindowFunctionDefinition::AggregateUDF(fa::sum::sum_udaf());
            let e = create_window_expr(&fun, "w".into(), &[by_name(&s, "v")], &[], &[asc(by_name(&s, "t"))], Arc::new(WindowFrame::new(None)), s.schema(), false, false, None)
                .expect("window expr");
            arc(WindowAggExec::try_new(vec![e], s, true).expect("WindowAggExec"))
        }
        Reject::ShjWithoutFilter => shj(src("l"), src("r"), JoinType::Inner, None).expect("SymmetricHashJoinExec"),
    }
}

fn check_reject(r: Reject) -> Result<(), String> {
    let plan = reject_plan(r, true);
    match sanity(&plan) {
        Ok(()) => Err(format!("SanityCheckPlan accepts {r:?} over an unbounded input although it can only answer at end of input")),
        Err(e) if e.contains("pipeline breaking") || e.contains("non-prunable") => {
            // control: the same plan over a bounded input is fine, i.e. the refusal is about unboundedness
            let bounded = reject_plan(r, false);
            match sanity(&bounded) {
                Ok(()) => Ok(()),
                Err(e2) if r == Reject::ShjWithoutFilter && e2.contains("non-prunable") => Ok(()),
                Err(e2) => Err(format!("harness: control plan {r:?} over a bounded input is refused: {e2}")),
            }
        }
        Err(e) => Err(format!("harness: {r:?} is refused for another reason: {e}")),
    }
}

fn check_accept(shape: Shape) -> Result<(), String> {
    let seq: Vec<Arrival> = (0..shape.inputs()).map(|i| Arrival { sym: 1, input: i as u8 }).collect();
    let b = build(shape, &seq, 8192);
    if shape != Shape::Limit && !b.plan.boundedness().is_unbounded() {
        return Err(format!("harness: {shape:?} is not unbounded"));
    }
    sanity(&b.plan).map_err(|e| format!("SanityCheckPlan refuses the streaming shape {shape:?}: {e}"))
}

// ------------------------------------------------------------------ exploration

fn sequences(inputs: usize, max_len: usize, exact: bool) -> Vec<Vec<Arrival>> {
    let mut alphabet = vec![];
    for input in 0..inputs as u8 {
        for sym in 0..3u8 {
            alphabet.push(Arrival { sym, input });
        }
    }
    enumerate::sequences(&alphabet, if exact { max_len } else { 0 }, max_len)
}

fn explore(ctx: &Ctx) {
    // planner part
    for s in SHAPES {
        ctx.eval();
        match mc_core::catch(|| check_accept(*s)).unwrap_or_else(Err) {
            Ok(()) => ctx.count("planner.accepted_streaming_shapes", 1),
            Err(w) => ctx.violation(format!("{s:?}|planner|refused"), w, json!({"accept": s})),
        }
    }
    for r in REJECTS {
        ctx.eval();
        match mc_core::catch(|| check_reject(*r)).unwrap_or_else(Err) {
            Ok(()) => {
                ctx.count("planner.rejected_pipeline_breakers", 1);
                ctx.nontrivial(&("reject", *r));
            }
            Err(w) => ctx.violation(format!("{r:?}|planner|accepted"), w, json!({"reject": r})),
        }
    }
    // execution part
    let len1 = 6;
    let len2 = ctx.pick(4, 6);
    let batch_sizes: Vec<usize> = ctx.pick(vec![1, 8192], vec![1, 2, 8192]);
    let mut cases: Vec<Case> = vec![];
    for shape in SHAPES {
        let l = if shape.inputs() == 1 { len1 } else { len2 };
        for bs in &batch_sizes {
            for seq in sequences(shape.inputs(), l, false) {
                for eager in [true, false] {
                    cases.push(Case { shape: *shape, seq: seq.clone(), batch_size: *bs, eager });
                }
            }
        }
    }
    ctx.set_extra(
        "bounds",
        json!({
            "streaming_shapes": SHAPES.len(), "rejected_shapes": REJECTS.len(),
            "alphabet": "3 batch symbols (2 rows each: key stays | advances inside the batch | jumps) x input (two-input shapes)",
            "max_prefix_len_one_input": len1, "max_prefix_len_two_inputs": len2,
            "continuation": "after the prefix every input produces |prefix|+2 further batches (alternately); determined rows must have been delivered by then; soundness is checked after every arrival",
            "batch_sizes": batch_sizes, "completeness_checked_at_batch_sizes": "1, 2",
            "consumers": "eager (poll to quiescence after every arrival) | lazy (first poll after all arrivals)",
            "cases": cases.len(),
        }),
    );
    let per_shape: parking_lot::Mutex<BTreeMap<String, [u64; 5]>> = Default::default();
    cases.par_iter().for_each(|c| {
        if ctx.should_stop() {
            return;
        }
        ctx.eval();
        match mc_core::catch(|| run_case(c)).unwrap_or_else(Err) {
            Ok(st) => {
                let mut m = per_shape.lock();
                let e = m.entry(format!("{:?}", c.shape)).or_insert([0; 5]);
                e[0] += 1;
                e[1] += st.snapshots as u64;
                e[2] += (st.rows_demanded > 0) as u64;
                e[3] += st.rows_demanded as u64;
                if c.batch_size == 1 && c.eager {
                    e[4] = e[4].max(st.lag.unwrap_or(0) as u64);
                }
                drop(m);
                if st.rows_demanded > 0 {
                    ctx.nontrivial(c);
                    if ctx.want_sample() && c.eager && c.batch_size == 1 && c.shape == Shape::ShjLeft && st.rows_demanded > 3 {
                        ctx.sample(json!({"case": c, "arrivals": materialize(&c.seq, c.shape.inputs()), "determined_rows": st.rows_demanded, "delivered_after_further_arrivals": st.lag}));
                    }
                }
            }
            Err(w) => {
                let sym = if w.contains("not (yet) part") {
                    "speculative_or_wrong_row"
                } else if w.contains("determined by") {
                    "determined_row_not_delivered"
                } else if w.contains("did not end") {
                    "limit_does_not_end"
                } else if w.contains("ended although") {
                    "ended_early"
                } else if w.contains("not ordered") {
                    "unordered"
                } else {
                    "error"
                };
                ctx.violation(format!("{:?}|bs{}|{sym}", c.shape, c.batch_size), format!("{w} [{c:?}]"), json!({"case": c}));
            }
        }
    });
    let m = per_shape.lock();
    ctx.set_extra(
        "per_shape",
        Value::Object(m.iter().map(|(k, v)| (k.clone(), json!({"cases": v[0], "snapshots_checked": v[1], "cases_demanding_rows": v[2], "rows_demanded": v[3], "max_delivery_lag_in_arrivals_at_batch_size_1": v[4]}))).collect()),
    );
    ctx.assume("completeness is 'eventual delivery while every input keeps producing' within the stated continuation, decided at batch sizes 1 and 2 (with the default batch size operators legitimately hold rows back until a batch is full); soundness is checked after every arrival at every batch size");
    ctx.assume("the sources are GatedSourceExec leaves declared Boundedness::Unbounded (no StreamingTableExec / SQL layer)");
}

fn replay(v: &Value) -> Result<(), String> {
    if let Some(c) = v.get("case") {
        let c: Case = serde_json::from_value(c.clone()).map_err(|e| e.to_string())?;
        return mc_core::catch(|| run_case(&c).map(|_| ())).unwrap_or_else(Err);
    }
    if let Some(s) = v.get("accept") {
        let s: Shape = serde_json::from_value(s.clone()).map_err(|e| e.to_string())?;
        return mc_core::catch(|| check_accept(s)).unwrap_or_else(Err);
    }
    if let Some(r) = v.get("reject") {
        let r: Reject = serde_json::from_value(r.clone()).map_err(|e| e.to_string())?;
        return mc_core::catch(|| check_reject(r)).unwrap_or_else(Err);
    }
    Err("unknown case".into())
}

fn main() {
    mc_core::quiet_panics();
    run_check(
        "C50",
        Level::Exploration,
        "12 streaming plan shapes over endless ordered gated sources declared unbounded x every arrival sequence of <= 6 batches (two-input shapes: <= 4 quick / <= 6 thorough, x the input each batch arrives on) over a 3-symbol alphabet, followed by |prefix|+2 further batches per input, x batch size x consumer {eager, lazy}: \
         after every arrival the real plan runs to quiescence with the sources still open; after every arrival the delivered rows must be final under every continuation (all batch sizes); by the end of the continuation every row an independent reference derives as determined by the prefix must have been delivered (batch sizes 1, 2); LIMIT must end the stream; \
         plus SanityCheckPlan must accept the 12 streaming shapes and refuse 7 pipeline-breaking shapes (and accept the same shapes over bounded inputs); non-trivial = cases with at least one prefix for which the reference demands delivered rows while the input is open, and the refused plans",
        explore,
        replay,
    );
}
