//! C14 — join hash table lookups return exactly the matching build rows.
//!
//! Exhaustive over: build hash sequences (length ≤ N over {h1,h2,h3,NULL-key}),
//! every cut of the build side into ≤ 2 batches, both insertion orders the code
//! supports (hash join: batches reversed + rows reversed; plain forward),
//! both index widths, probe sequences (length ≤ M over {h1,h2,absent}), every
//! validity mask, every page limit 1..=total+1, resuming from every returned
//! offset until `None`.
use arrow::buffer::NullBuffer;
use datafusion_physical_plan::joins::join_hash_map::{JoinHashMapU32, JoinHashMapU64};
use datafusion_physical_plan::joins::utils::JoinHashMapType;
use mc_core::serde_json::{Value, json};
use mc_core::{Ctx, Level, enumerate, rayon::prelude::*, run_check};
use serde::{Deserialize, Serialize};

const HASHES: [u64; 3] = [11, 0x8000_0000_0000_0003, 42];
const ABSENT: u64 = 77;

#[derive(Serialize, Deserialize, Clone, Debug, Hash)]
struct Case {
    wide: bool,               // JoinHashMapU64 instead of U32
    fifo: bool,               // hash-join order: batches reversed, rows reversed
    build: Vec<Vec<Option<u64>>>, // batches of build hashes; None = NULL key (row not inserted)
    probe: Vec<u64>,
    valid: Option<Vec<bool>>, // None = no validity buffer
}

fn build_map(c: &Case) -> (Box<dyn JoinHashMapType>, Vec<(usize, u64)>) {
    let total: usize = c.build.iter().map(|b| b.len()).sum();
    let mut map: Box<dyn JoinHashMapType> = if c.wide {
        Box::new(JoinHashMapU64::with_capacity(total))
    } else {
        Box::new(JoinHashMapU32::with_capacity(total))
    };
    // row offsets of each batch in the concatenated build side
    let mut offsets = vec![];
    let mut o = 0;
    for b in &c.build {
        offsets.push(o);
        o += b.len();
    }
    // insertion log (row, hash) in the order inserted
    let mut inserted: Vec<(usize, u64)> = vec![];
    let order: Vec<usize> = if c.fifo { (0..c.build.len()).rev().collect() } else { (0..c.build.len()).collect() };
    for bi in order {
        let b = &c.build[bi];
        let off = offsets[bi];
        let hv: Vec<u64> = b.iter().map(|h| h.unwrap_or(0)).collect();
        let mut rows: Vec<(usize, &u64)> = hv
            .iter()
            .enumerate()
            .filter(|(i, _)| b[*i].is_some())
            .map(|(i, h)| (i + off, h))
            .collect();
        if c.fifo {
            rows.reverse();
        }
        for (r, h) in &rows {
            inserted.push((*r, **h));
        }
        map.extend_zero(b.len());
        map.update_from_iter(Box::new(rows.into_iter()), 0);
    }
    (map, inserted)
}

/// Reference: for every valid probe row, in order, all build rows with the same
/// hash in *reverse insertion order* (the documented chain order).
fn reference(c: &Case, inserted: &[(usize, u64)]) -> Vec<(u32, u64)> {
    let mut out = vec![];
    for (i, h) in c.probe.iter().enumerate() {
        if let Some(v) = &c.valid {
            if !v[i] {
                continue;
            }
        }
        for (row, bh) in inserted.iter().rev() {
            if bh == h {
                out.push((i as u32, *row as u64));
            }
        }
    }
    out
}

fn run_case(c: &Case) -> Result<usize, String> {
    let (map, inserted) = build_map(c);
    let expect = reference(c, &inserted);
    let distinct: std::collections::BTreeSet<u64> = inserted.iter().map(|x| x.1).collect();
    if map.len() != distinct.len() {
        return Err(format!("len() = {} but {} distinct hashes inserted", map.len(), distinct.len()));
    }
    if map.is_empty() != distinct.is_empty() {
        return Err("is_empty() inconsistent with len()".into());
    }
    let ch = map.contain_hashes(&c.probe);
    for (i, h) in c.probe.iter().enumerate() {
        if ch.value(i) != distinct.contains(h) {
            return Err(format!("contain_hashes[{i}] = {} for hash {h}", ch.value(i)));
        }
    }
    // unpaged lookup: ignores validity, iterates the given rows
    {
        let (pi, bi) = map.get_matched_indices(Box::new(c.probe.iter().enumerate()), None);
        let got: Vec<(u32, u64)> = pi.into_iter().zip(bi).collect();
        let mut all_valid = c.clone();
        all_valid.valid = None;
        let exp = reference(&all_valid, &inserted);
        if got != exp {
            return Err(format!("get_matched_indices: got {got:?}, expected {exp:?}"));
        }
    }
    let nulls = c.valid.as_ref().map(|v| NullBuffer::from(v.clone()));
    let total = expect.len();
    let mut pages_total = 0;
    for limit in 1..=total + 1 {
        let mut got: Vec<(u32, u64)> = vec![];
        let mut offset = (0usize, None);
        let mut calls = 0;
        let mut pi = vec![];
        let mut bi = vec![];
        loop {
            calls += 1;
            if calls > total + c.probe.len() + 3 {
                return Err(format!("limit={limit}: paging does not terminate (offset={offset:?})"));
            }
            if c.probe.is_empty() {
                break;
            }
            let next = map.get_matched_indices_with_limit_offset(
                &c.probe,
                nulls.as_ref(),
                limit,
                offset,
                &mut pi,
                &mut bi,
            );
            if pi.len() != bi.len() {
                return Err(format!("limit={limit}: index vectors of different length"));
            }
            if pi.len() > limit {
                return Err(format!("limit={limit}: page with {} > limit rows", pi.len()));
            }
            got.extend(pi.iter().cloned().zip(bi.iter().cloned()));
            match next {
                Some(o) => offset = o,
                None => break,
            }
        }
        pages_total += calls;
        if got != expect {
            return Err(format!("limit={limit}: pages concatenate to {got:?}, expected {expect:?}"));
        }
    }
    Ok(pages_total)
}

fn explore(ctx: &Ctx) {
    let n_build = ctx.pick(4, 5);
    let n_probe = ctx.pick(3, 4);
    let mut alpha: Vec<Option<u64>> = HASHES.iter().map(|h| Some(*h)).collect();
    alpha.push(None);
    let builds = enumerate::sequences(&alpha, 0, n_build);
    let probes = enumerate::sequences(&[HASHES[0], HASHES[1], ABSENT], 0, n_probe);
    // (probe sequence, validity mask) pairs, shared by every build
    let mut probe_cases: Vec<(Vec<u64>, Option<Vec<bool>>)> = vec![];
    for p in &probes {
        probe_cases.push((p.clone(), None));
        if !p.is_empty() {
            for m in enumerate::masks(p.len()) {
                if m.iter().any(|x| !*x) {
                    probe_cases.push((p.clone(), Some(m)));
                }
            }
        }
    }
    // the outer product is materialised, the probe dimension is generated per item (memory stays small)
    let mut outer: Vec<(Vec<Vec<Option<u64>>>, bool, bool)> = vec![];
    for b in &builds {
        for split in enumerate::splits(b.len(), 2) {
            let batches = enumerate::apply_split(b, &split);
            for fifo in [true, false] {
                for wide in [false, true] {
                    outer.push((batches.clone(), fifo, wide));
                }
            }
        }
    }
    ctx.set_extra("bounds", json!({"max_build_rows": n_build, "max_build_batches": 2, "max_probe_rows": n_probe,
        "build_alphabet": "3 hashes + NULL key", "probe_alphabet": "2 present hashes + 1 absent", "limits": "1..=total+1",
        "cases": outer.len() * probe_cases.len()}));
    outer.par_iter().for_each(|(batches, fifo, wide)| {
      for (p, v) in &probe_cases {
        if ctx.should_stop() {
            return;
        }
        let c = &Case { wide: *wide, fifo: *fifo, build: batches.clone(), probe: p.clone(), valid: v.clone() };
        ctx.eval();
        match mc_core::catch(|| run_case(c)).unwrap_or_else(Err) {
            Ok(pages) => {
                ctx.add_states(1);
                ctx.add_transitions(pages as u64);
                // non-trivial: some chain has ≥ 2 entries and some probe row matches
                let has_chain = {
                    let mut hs: Vec<u64> = c.build.iter().flatten().flatten().cloned().collect();
                    hs.sort();
                    hs.windows(2).any(|w| w[0] == w[1])
                };
                if has_chain && c.probe.iter().any(|h| *h != ABSENT) {
                    ctx.nontrivial(c);
                    if c.build.len() == 2 && c.valid.is_some() && ctx.want_sample() {
                        ctx.sample(serde_json::to_value(c).unwrap());
                    }
                }
            }
            Err(what) => {
                let key = format!("{}", serde_json::to_string(c).unwrap());
                ctx.violation(key, what, serde_json::to_value(c).unwrap());
            }
        }
      }
    });
}

fn replay(v: &Value) -> Result<(), String> {
    let c: Case = serde_json::from_value(v.clone()).map_err(|e| format!("bad case: {e}"))?;
    mc_core::catch(|| run_case(&c)).unwrap_or_else(Err).map(|_| ())
}

fn main() {
    mc_core::quiet_panics();
    run_check(
        "C14",
        Level::ModelChecking,
        "every (build hash sequence, batch cut, insertion order, index width, probe sequence, validity mask) within the bounds; \
         for each, every page limit with resume-until-None (each page call is one transition); non-trivial = some hash chain has >= 2 build rows and some probe row hits a present hash",
        explore,
        replay,
    );
}
