//! C06 (a) — grouped aggregation is exact under every aggregation strategy
//! (operator level).
//!
//! The real `AggregateExec` is built directly (no optimizer) over
//! `TestMemoryExec` inputs in every mode the planner can produce (Single,
//! SinglePartitioned, Partial→Final, Partial→FinalPartitioned through a hash
//! `RepartitionExec`, Partial→PartialReduce→Final in two shapes), with the
//! input declared Linear / Sorted / PartiallySorted, with the migrated and the
//! fallback stream implementations, with and without immediate "skip partial
//! aggregation", with three batch sizes, and — in the TopK part — with a pushed
//! `LimitOptions` below a `SortExec(fetch)` as `TopKAggregation` produces it.
//! Inputs: every row sequence up to a length bound over key ∈ {NULL, k1, k2}
//! (optionally a second key column) and value ∈ {NULL, 1, 2}, in every layout
//! (assignment of rows to <= 2 partitions × cut of each partition into <= 2
//! batches).  Oracle: a reference group-by written here (BTreeMap over the key
//! tuple, NULL its own group, textbook definitions of the aggregates).
use std::cell::RefCell;
use std::collections::{BTreeMap, BTreeSet, HashSet};
use std::sync::{Arc, Mutex};

use arrow::array::*;
use arrow::compute::SortOptions;
use arrow::datatypes::*;
use arrow::record_batch::RecordBatch;
use datafusion_common::ScalarValue;
use datafusion_execution::TaskContext;
use datafusion_execution::config::SessionConfig;
use datafusion_execution::runtime_env::RuntimeEnvBuilder;
use datafusion_expr::{AggregateUDF, Operator};
use datafusion_functions_aggregate as fa;
use datafusion_physical_expr::aggregate::{AggregateExprBuilder, AggregateFunctionExpr};
use datafusion_physical_expr::expressions::{BinaryExpr, Column, Literal, cast};
use datafusion_physical_expr::{LexOrdering, Partitioning, PhysicalExpr, PhysicalSortExpr};
use datafusion_physical_plan::aggregates::{AggregateExec, AggregateMode, LimitOptions, PhysicalGroupBy};
use datafusion_physical_plan::coalesce_partitions::CoalescePartitionsExec;
use datafusion_physical_plan::repartition::RepartitionExec;
use datafusion_physical_plan::sorts::sort::SortExec;
use datafusion_physical_plan::sorts::sort_preserving_merge::SortPreservingMergeExec;
use datafusion_physical_plan::test::TestMemoryExec;
use datafusion_physical_plan::{ExecutionPlan, ExecutionPlanProperties, collect_partitioned};
use mc_core::serde_json::{Value, json};
use mc_core::{Ctx, Level, enumerate, rayon::prelude::*, run_check};
use serde::{Deserialize, Serialize};

// ---------------------------------------------------------------------------
// case description
// ---------------------------------------------------------------------------

#[derive(Serialize, Deserialize, Clone, Copy, Debug, Hash, PartialEq, Eq, PartialOrd, Ord)]
enum KeyTy {
    /// no GROUP BY at all
    NoKey,
    I64,
    Utf8,
    Utf8View,
    Dict,
    Bool,
    Dec,
    /// two key columns (Int64, Utf8)
    I64Utf8,
}

#[derive(Serialize, Deserialize, Clone, Copy, Debug, Hash, PartialEq, Eq, PartialOrd, Ord)]
enum Mode {
    Single,
    /// Single per partition over a hash RepartitionExec (Linear) or over key-partitioned sorted inputs
    SinglePartitioned,
    /// Partial -> CoalescePartitions (Linear) / SortPreservingMerge (ordered) -> Final
    PartialFinal,
    /// Partial -> RepartitionExec(Hash(keys), 2) -> FinalPartitioned
    PartialFinalPartitioned,
    /// Partial -> CoalescePartitions -> PartialReduce -> Final
    PartialCoalesceReduceFinal,
    /// Partial -> PartialReduce (per partition) -> CoalescePartitions -> Final
    PartialReduceCoalesceFinal,
}

#[derive(Serialize, Deserialize, Clone, Copy, Debug, Hash, PartialEq, Eq, PartialOrd, Ord)]
enum OrderMode {
    Linear,
    /// every partition sorted on all group keys, and declared
    Sorted,
    /// two key columns, sorted (and declared) on the first only
    PartiallySorted,
}

#[derive(Serialize, Deserialize, Clone, Copy, Debug, Hash, PartialEq, Eq, PartialOrd, Ord)]
enum AggSet {
    /// count(*), count(v), sum(v), min(v), max(v), avg(v::float), count(DISTINCT v),
    /// first_value(v ORDER BY v), count(v) FILTER (WHERE v > 1) — all in one operator
    Basic,
    /// one single aggregate per plan
    One(One),
}

#[derive(Serialize, Deserialize, Clone, Copy, Debug, Hash, PartialEq, Eq, PartialOrd, Ord)]
enum One {
    Median,
    PercentileCont50,
    ArrayAggOrdered,
    SumDistinct,
    BitXorDistinct,
    StringAggOrdered,
    VarPop,
    BoolAnd,
    /// grouped TopK: min(v) with LimitOptions(k, asc) below SortExec(min ASC NULLS LAST, fetch k)
    TopKMin(usize),
    /// grouped TopK: max(v) with LimitOptions(k, desc) below SortExec(max DESC NULLS LAST, fetch k)
    TopKMax(usize),
}

#[derive(Serialize, Deserialize, Clone, Copy, Debug, Hash, PartialEq, Eq)]
struct Cfg {
    mode: Mode,
    order: OrderMode,
    migration: bool,
    skip_partial: bool,
    batch_size: usize,
    /// memory pool limit in bytes (None: unbounded); with a limit the operator may spill or give up
    #[serde(default)]
    mem_limit: Option<usize>,
}

/// (k1, k2, v) domain indices, 0 = NULL
type Row = (u8, u8, u8);

#[derive(Serialize, Deserialize, Clone, Debug, Hash)]
struct Case {
    key: KeyTy,
    aggs: AggSet,
    cfg: Cfg,
    rows: Vec<Row>,
    /// partition of every row
    part: Vec<usize>,
    /// per partition: lengths of its consecutive batches
    cuts: Vec<Vec<usize>>,
}

// ---------------------------------------------------------------------------
// values
// ---------------------------------------------------------------------------

#[derive(Clone, Debug, PartialEq, Eq, PartialOrd, Ord, Hash)]
enum Val {
    Null,
    B(bool),
    I(i128),
    D(i128, i8),
    F(u64),
    S(String),
    L(Vec<Val>),
    Other(String),
}

impl Val {
    fn show(&self) -> String {
        match self {
            Val::Null => "NULL".into(),
            Val::B(b) => format!("{b}"),
            Val::I(i) => format!("{i}"),
            Val::D(v, s) => format!("{v}e-{s}"),
            Val::F(b) => format!("{:?}", f64::from_bits(*b)),
            Val::S(s) => format!("{s:?}"),
            Val::L(l) => format!("[{}]", l.iter().map(|v| v.show()).collect::<Vec<_>>().join(", ")),
            Val::Other(s) => format!("<{s}>"),
        }
    }
}

fn show_row(r: &[Val]) -> String {
    format!("({})", r.iter().map(|v| v.show()).collect::<Vec<_>>().join(", "))
}

fn val_at(a: &dyn Array, i: usize) -> Val {
    use arrow::array::cast::*;
    if a.data_type() == &DataType::Null || a.is_null(i) {
        return Val::Null;
    }
    match a.data_type() {
        DataType::Boolean => Val::B(as_boolean_array(a).value(i)),
        DataType::Int32 => Val::I(as_primitive_array::<Int32Type>(a).value(i) as i128),
        DataType::Int64 => Val::I(as_primitive_array::<Int64Type>(a).value(i) as i128),
        DataType::UInt64 => Val::I(as_primitive_array::<UInt64Type>(a).value(i) as i128),
        DataType::Float64 => Val::F(as_primitive_array::<Float64Type>(a).value(i).to_bits()),
        DataType::Decimal128(_, s) => Val::D(as_primitive_array::<Decimal128Type>(a).value(i), *s),
        DataType::Utf8 => Val::S(as_string_array(a).value(i).to_string()),
        DataType::LargeUtf8 => Val::S(as_largestring_array(a).value(i).to_string()),
        DataType::Utf8View => Val::S(a.as_string_view().value(i).to_string()),
        DataType::List(_) => {
            let v = as_list_array(a).value(i);
            Val::L((0..v.len()).map(|j| val_at(v.as_ref(), j)).collect())
        }
        DataType::Dictionary(_, vt) => match arrow::compute::cast(a, vt) {
            Ok(c) => val_at(c.as_ref(), i),
            Err(e) => Val::Other(format!("dictionary cast: {e}")),
        },
        _ => match arrow::util::display::ArrayFormatter::try_new(a, &Default::default()) {
            Ok(f) => Val::Other(format!("{}:{}", a.data_type(), f.value(i))),
            Err(e) => Val::Other(format!("unformattable {}: {e}", a.data_type())),
        },
    }
}

const STR_KEYS: [&str; 2] = ["a", "b"];
const VIEW_KEYS: [&str; 2] = ["a", "a string longer than twelve bytes"];
const DEC_KEYS: [i128; 2] = [100, 250];

fn pick<T: Clone>(dom: &[T], i: u8) -> Option<T> {
    if i == 0 { None } else { Some(dom[(i - 1) as usize].clone()) }
}

fn key1_type(k: KeyTy) -> DataType {
    match k {
        KeyTy::NoKey | KeyTy::I64 | KeyTy::I64Utf8 => DataType::Int64,
        KeyTy::Utf8 => DataType::Utf8,
        KeyTy::Utf8View => DataType::Utf8View,
        KeyTy::Dict => DataType::Dictionary(Box::new(DataType::Int32), Box::new(DataType::Utf8)),
        KeyTy::Bool => DataType::Boolean,
        KeyTy::Dec => DataType::Decimal128(10, 2),
    }
}

fn key1_col(k: KeyTy, idx: &[u8]) -> ArrayRef {
    match k {
        KeyTy::NoKey | KeyTy::I64 | KeyTy::I64Utf8 => {
            Arc::new(Int64Array::from(idx.iter().map(|i| pick(&[1i64, 2], *i)).collect::<Vec<_>>()))
        }
        KeyTy::Utf8 => Arc::new(StringArray::from(idx.iter().map(|i| pick(&STR_KEYS, *i)).collect::<Vec<_>>())),
        KeyTy::Utf8View => {
            Arc::new(StringViewArray::from(idx.iter().map(|i| pick(&VIEW_KEYS, *i)).collect::<Vec<_>>()))
        }
        KeyTy::Dict => {
            let d: DictionaryArray<Int32Type> = idx.iter().map(|i| pick(&STR_KEYS, *i)).collect();
            Arc::new(d)
        }
        KeyTy::Bool => Arc::new(BooleanArray::from(idx.iter().map(|i| pick(&[false, true], *i)).collect::<Vec<_>>())),
        KeyTy::Dec => Arc::new(
            Decimal128Array::from(idx.iter().map(|i| pick(&DEC_KEYS, *i)).collect::<Vec<_>>())
                .with_precision_and_scale(10, 2)
                .unwrap(),
        ),
    }
}

fn key1_val(k: KeyTy, i: u8) -> Val {
    if i == 0 {
        return Val::Null;
    }
    let j = (i - 1) as usize;
    match k {
        KeyTy::NoKey | KeyTy::I64 | KeyTy::I64Utf8 => Val::I([1, 2][j]),
        KeyTy::Utf8 | KeyTy::Dict => Val::S(STR_KEYS[j].to_string()),
        KeyTy::Utf8View => Val::S(VIEW_KEYS[j].to_string()),
        KeyTy::Bool => Val::B([false, true][j]),
        KeyTy::Dec => Val::D(DEC_KEYS[j], 2),
    }
}

fn key2_val(i: u8) -> Val {
    if i == 0 { Val::Null } else { Val::S("x".into()) }
}

fn v_of(i: u8) -> Option<i64> {
    pick(&[1i64, 2], i)
}

// ---------------------------------------------------------------------------
// reference group-by
// ---------------------------------------------------------------------------

fn n_keys(k: KeyTy) -> usize {
    match k {
        KeyTy::NoKey => 0,
        KeyTy::I64Utf8 => 2,
        _ => 1,
    }
}

/// Expected output rows (key columns ++ aggregate columns), one per distinct key tuple.
fn reference(c: &Case) -> Vec<Vec<Val>> {
    let nk = n_keys(c.key);
    let mut groups: BTreeMap<Vec<Val>, Vec<Option<i64>>> = BTreeMap::new();
    if nk == 0 {
        groups.insert(vec![], vec![]); // aggregation without GROUP BY yields one row even for no input
    }
    for (k1, k2, v) in &c.rows {
        let mut key = vec![];
        if nk >= 1 {
            key.push(key1_val(c.key, *k1));
        }
        if nk == 2 {
            key.push(key2_val(*k2));
        }
        groups.entry(key).or_default().push(v_of(*v));
    }
    let mut out = vec![];
    for (key, vals) in groups {
        let nn: Vec<i64> = vals.iter().flatten().cloned().collect();
        let opt = |x: Option<i64>| x.map(|v| Val::I(v as i128)).unwrap_or(Val::Null);
        let mut row = key.clone();
        match c.aggs {
            AggSet::Basic => {
                row.push(Val::I(vals.len() as i128)); // count(*)
                row.push(Val::I(nn.len() as i128)); // count(v)
                row.push(if nn.is_empty() { Val::Null } else { Val::I(nn.iter().sum::<i64>() as i128) });
                row.push(opt(nn.iter().min().cloned()));
                row.push(opt(nn.iter().max().cloned()));
                row.push(if nn.is_empty() {
                    Val::Null
                } else {
                    Val::F((nn.iter().sum::<i64>() as f64 / nn.len() as f64).to_bits())
                });
                row.push(Val::I(nn.iter().collect::<BTreeSet<_>>().len() as i128));
                // first_value(v ORDER BY v ASC NULLS LAST): smallest non-NULL, NULL only if there is none
                row.push(opt(nn.iter().min().cloned()));
                row.push(Val::I(nn.iter().filter(|v| **v > 1).count() as i128));
            }
            AggSet::One(o) => {
                let mut s = nn.clone();
                s.sort();
                let fl = |x: f64| Val::F(x.to_bits());
                row.push(match o {
                    One::Median | One::PercentileCont50 => {
                        if s.is_empty() {
                            Val::Null
                        } else if s.len() % 2 == 1 {
                            fl(s[s.len() / 2] as f64)
                        } else {
                            fl((s[s.len() / 2 - 1] as f64 + s[s.len() / 2] as f64) / 2.0)
                        }
                    }
                    One::ArrayAggOrdered => {
                        // array_agg(v ORDER BY v ASC NULLS LAST): NULLs are kept, at the end
                        if vals.is_empty() {
                            Val::Null
                        } else {
                            let mut l: Vec<Val> = s.iter().map(|v| Val::I(*v as i128)).collect();
                            l.extend(vals.iter().filter(|v| v.is_none()).map(|_| Val::Null));
                            Val::L(l)
                        }
                    }
                    One::StringAggOrdered => {
                        if s.is_empty() {
                            Val::Null
                        } else {
                            Val::S(s.iter().map(|v| v.to_string()).collect::<Vec<_>>().join(","))
                        }
                    }
                    One::SumDistinct => {
                        let d: BTreeSet<i64> = s.iter().cloned().collect();
                        if d.is_empty() { Val::Null } else { Val::I(d.iter().sum::<i64>() as i128) }
                    }
                    One::BitXorDistinct => {
                        let d: BTreeSet<i64> = s.iter().cloned().collect();
                        if d.is_empty() { Val::Null } else { Val::I(d.iter().fold(0i64, |a, b| a ^ b) as i128) }
                    }
                    One::VarPop => {
                        if s.is_empty() {
                            Val::Null
                        } else {
                            let n = s.len() as f64;
                            let m = s.iter().sum::<i64>() as f64 / n;
                            fl(s.iter().map(|v| (*v as f64 - m) * (*v as f64 - m)).sum::<f64>() / n)
                        }
                    }
                    One::BoolAnd => {
                        // bool_and(v > 1)
                        if s.is_empty() { Val::Null } else { Val::B(s.iter().all(|v| *v > 1)) }
                    }
                    One::TopKMin(_) => opt(s.first().cloned()),
                    One::TopKMax(_) => opt(s.last().cloned()),
                });
            }
        }
        out.push(row);
    }
    out
}

// ---------------------------------------------------------------------------
// plan construction
// ---------------------------------------------------------------------------

fn input_schema(k: KeyTy) -> SchemaRef {
    let mut f = vec![Field::new("k1", key1_type(k), true)];
    if k == KeyTy::I64Utf8 {
        f.push(Field::new("k2", DataType::Utf8, true));
    }
    f.push(Field::new("v", DataType::Int64, true));
    Arc::new(Schema::new(f))
}

fn make_batch(k: KeyTy, rows: &[Row]) -> RecordBatch {
    let mut cols: Vec<ArrayRef> = vec![key1_col(k, &rows.iter().map(|r| r.0).collect::<Vec<_>>())];
    if k == KeyTy::I64Utf8 {
        cols.push(Arc::new(StringArray::from(
            rows.iter().map(|r| if r.1 == 0 { None } else { Some("x") }).collect::<Vec<_>>(),
        )));
    }
    cols.push(Arc::new(Int64Array::from(rows.iter().map(|r| v_of(r.2)).collect::<Vec<_>>())));
    RecordBatch::try_new(input_schema(k), cols).expect("batch")
}

fn col(name: &str, schema: &Schema) -> Arc<dyn PhysicalExpr> {
    Arc::new(Column::new(name, schema.index_of(name).unwrap()))
}

type Aggs = (Vec<Arc<AggregateFunctionExpr>>, Vec<Option<Arc<dyn PhysicalExpr>>>);

fn build_aggs(c: &Case, schema: &SchemaRef) -> Result<Aggs, String> {
    let v = col("v", schema);
    let vf = cast(Arc::clone(&v), schema, DataType::Float64).map_err(|e| e.to_string())?;
    let gt1: Arc<dyn PhysicalExpr> =
        Arc::new(BinaryExpr::new(Arc::clone(&v), Operator::Gt, Arc::new(Literal::new(ScalarValue::Int64(Some(1))))));
    let asc_last = |e: &Arc<dyn PhysicalExpr>| {
        vec![PhysicalSortExpr::new(Arc::clone(e), SortOptions { descending: false, nulls_first: false })]
    };
    let mk = |f: Arc<AggregateUDF>, args: Vec<Arc<dyn PhysicalExpr>>, name: &str| {
        AggregateExprBuilder::new(f, args).schema(Arc::clone(schema)).alias(name)
    };
    let fin = |b: AggregateExprBuilder| b.build().map(Arc::new).map_err(|e| format!("aggregate build: {e}"));
    match c.aggs {
        AggSet::Basic => {
            let one: Arc<dyn PhysicalExpr> = Arc::new(Literal::new(ScalarValue::Int64(Some(1))));
            let aggs = vec![
                fin(mk(fa::count::count_udaf(), vec![one], "count(*)"))?,
                fin(mk(fa::count::count_udaf(), vec![Arc::clone(&v)], "count(v)"))?,
                fin(mk(fa::sum::sum_udaf(), vec![Arc::clone(&v)], "sum(v)"))?,
                fin(mk(fa::min_max::min_udaf(), vec![Arc::clone(&v)], "min(v)"))?,
                fin(mk(fa::min_max::max_udaf(), vec![Arc::clone(&v)], "max(v)"))?,
                fin(mk(fa::average::avg_udaf(), vec![Arc::clone(&vf)], "avg(v)"))?,
                fin(mk(fa::count::count_udaf(), vec![Arc::clone(&v)], "count(distinct v)").distinct())?,
                fin(mk(fa::first_last::first_value_udaf(), vec![Arc::clone(&v)], "first_value(v order by v)")
                    .order_by(asc_last(&v)))?,
                fin(mk(fa::count::count_udaf(), vec![Arc::clone(&v)], "count(v) filter (where v > 1)"))?,
            ];
            let mut filters: Vec<Option<Arc<dyn PhysicalExpr>>> = vec![None; aggs.len()];
            filters[8] = Some(gt1);
            Ok((aggs, filters))
        }
        AggSet::One(o) => {
            let half: Arc<dyn PhysicalExpr> = Arc::new(Literal::new(ScalarValue::Float64(Some(0.5))));
            let comma: Arc<dyn PhysicalExpr> = Arc::new(Literal::new(ScalarValue::Utf8(Some(",".into()))));
            // string_agg runs over CAST(v AS Utf8) ("1" < "2" sorts like the integers)
            let a = match o {
                One::Median => fin(mk(fa::median::median_udaf(), vec![vf], "median(v)"))?,
                One::PercentileCont50 => {
                    fin(mk(fa::percentile_cont::percentile_cont_udaf(), vec![vf, half], "percentile_cont(v, 0.5)"))?
                }
                One::ArrayAggOrdered => {
                    fin(mk(fa::array_agg::array_agg_udaf(), vec![Arc::clone(&v)], "array_agg(v order by v)")
                        .order_by(asc_last(&v)))?
                }
                One::StringAggOrdered => {
                    let vs = cast(Arc::clone(&v), schema, DataType::Utf8).map_err(|e| e.to_string())?;
                    fin(mk(fa::string_agg::string_agg_udaf(), vec![Arc::clone(&vs), comma], "string_agg(v, ',' order by v)")
                        .order_by(asc_last(&vs)))?
                }
                One::SumDistinct => fin(mk(fa::sum::sum_udaf(), vec![Arc::clone(&v)], "sum(distinct v)").distinct())?,
                One::BitXorDistinct => {
                    fin(mk(fa::bit_and_or_xor::bit_xor_udaf(), vec![Arc::clone(&v)], "bit_xor(distinct v)").distinct())?
                }
                One::VarPop => fin(mk(fa::variance::var_pop_udaf(), vec![vf], "var_pop(v)"))?,
                One::BoolAnd => fin(mk(fa::bool_and_or::bool_and_udaf(), vec![gt1], "bool_and(v > 1)"))?,
                One::TopKMin(_) => fin(mk(fa::min_max::min_udaf(), vec![Arc::clone(&v)], "min(v)"))?,
                One::TopKMax(_) => fin(mk(fa::min_max::max_udaf(), vec![Arc::clone(&v)], "max(v)"))?,
            };
            Ok((vec![a], vec![None]))
        }
    }
}

fn sort_rank(i: u8) -> u8 {
    i // ascending, NULLS FIRST: NULL (0) < first value (1) < second value (2)
}

fn build_plan(c: &Case) -> Result<Arc<dyn ExecutionPlan>, String> {
    build_plan_opts(c, true)
}

/// `with_sort = false`: the grouped-TopK aggregate without the `SortExec(fetch)` above it, so that
/// every group the limited aggregate itself emits can be checked
fn build_plan_opts(c: &Case, with_sort: bool) -> Result<Arc<dyn ExecutionPlan>, String> {
    let schema = input_schema(c.key);
    let nk = n_keys(c.key);
    let e2s = |e: datafusion_common::DataFusionError| format!("plan construction: {e}");
    // --- source partitions
    let nparts = c.cuts.len().max(1);
    let mut parts: Vec<Vec<Row>> = vec![vec![]; nparts];
    for (r, p) in c.rows.iter().zip(c.part.iter()) {
        parts[*p].push(*r);
    }
    let sorted_keys: usize = match c.cfg.order {
        OrderMode::Linear => 0,
        OrderMode::Sorted => nk,
        OrderMode::PartiallySorted => 1,
    };
    if sorted_keys > 0 {
        for p in parts.iter_mut() {
            if sorted_keys == 1 {
                p.sort_by_key(|r| sort_rank(r.0));
            } else {
                p.sort_by_key(|r| (sort_rank(r.0), sort_rank(r.1)));
            }
        }
    }
    let mut partitions: Vec<Vec<RecordBatch>> = vec![];
    for (pi, rows) in parts.iter().enumerate() {
        let mut bs = vec![];
        let mut o = 0;
        for len in c.cuts.get(pi).cloned().unwrap_or_default() {
            bs.push(make_batch(c.key, &rows[o..o + len]));
            o += len;
        }
        if o != rows.len() {
            return Err("bad case: cuts do not cover the partition".into());
        }
        partitions.push(bs);
    }
    let mut src = TestMemoryExec::try_new(&partitions, Arc::clone(&schema), None).map_err(e2s)?;
    let key_names = ["k1", "k2"];
    let ordering = |names: &[&str], sch: &Schema| {
        LexOrdering::new(
            names
                .iter()
                .map(|n| PhysicalSortExpr::new(col(n, sch), SortOptions { descending: false, nulls_first: true }))
                .collect::<Vec<_>>(),
        )
        .expect("non-empty ordering")
    };
    if sorted_keys > 0 {
        src = src.try_with_sort_information(vec![ordering(&key_names[..sorted_keys], &schema)]).map_err(e2s)?;
    }
    let src: Arc<dyn ExecutionPlan> = Arc::new(TestMemoryExec::update_cache(&Arc::new(src)));

    let group_by =
        PhysicalGroupBy::new_single(key_names[..nk].iter().map(|n| (col(n, &schema), n.to_string())).collect());
    let (aggs, filters) = build_aggs(c, &schema)?;
    let no_filters: Vec<Option<Arc<dyn PhysicalExpr>>> = vec![None; aggs.len()];
    let limit = match c.aggs {
        AggSet::One(One::TopKMin(k)) => Some(LimitOptions::new_with_order(k, false)),
        AggSet::One(One::TopKMax(k)) => Some(LimitOptions::new_with_order(k, true)),
        _ => None,
    };
    let agg = |mode: AggregateMode,
               input: Arc<dyn ExecutionPlan>,
               first_stage: bool|
     -> Result<Arc<dyn ExecutionPlan>, String> {
        let gb = if first_stage { group_by.clone() } else { group_by.as_final() };
        let f = if first_stage { filters.clone() } else { no_filters.clone() };
        let a = AggregateExec::try_new(mode, gb, aggs.clone(), f, input, Arc::clone(&schema)).map_err(e2s)?;
        Ok(Arc::new(a.with_limit_options(limit)))
    };
    let out_keys = |plan: &Arc<dyn ExecutionPlan>| -> Vec<Arc<dyn PhysicalExpr>> {
        key_names[..nk].iter().map(|n| col(n, &plan.schema())).collect()
    };
    let gather = |plan: Arc<dyn ExecutionPlan>| -> Arc<dyn ExecutionPlan> {
        // bring partitions together, keeping a declared key order when there is one
        if sorted_keys > 0 && nk > 0 && plan.properties().output_ordering().is_some() {
            let sch = plan.schema();
            Arc::new(SortPreservingMergeExec::new(ordering(&key_names[..sorted_keys], &sch), plan))
        } else {
            Arc::new(CoalescePartitionsExec::new(plan))
        }
    };
    let hash = |plan: Arc<dyn ExecutionPlan>| -> Result<Arc<dyn ExecutionPlan>, String> {
        let keys = out_keys(&plan);
        Ok(Arc::new(RepartitionExec::try_new(plan, Partitioning::Hash(keys, 2)).map_err(e2s)?))
    };
    let top: Arc<dyn ExecutionPlan> = match c.cfg.mode {
        Mode::Single => {
            let input = if nparts > 1 { gather(src) } else { src };
            agg(AggregateMode::Single, input, true)?
        }
        Mode::SinglePartitioned => {
            // Linear: real hash repartitioning; ordered: the case's partitions are already key-disjoint
            let input = if c.cfg.order == OrderMode::Linear { hash(src)? } else { src };
            agg(AggregateMode::SinglePartitioned, input, true)?
        }
        Mode::PartialFinal => {
            let p = agg(AggregateMode::Partial, src, true)?;
            agg(AggregateMode::Final, gather(p), false)?
        }
        Mode::PartialFinalPartitioned => {
            let p = agg(AggregateMode::Partial, src, true)?;
            agg(AggregateMode::FinalPartitioned, hash(p)?, false)?
        }
        Mode::PartialCoalesceReduceFinal => {
            let p = agg(AggregateMode::Partial, src, true)?;
            let r = agg(AggregateMode::PartialReduce, gather(p), false)?;
            agg(AggregateMode::Final, r, false)?
        }
        Mode::PartialReduceCoalesceFinal => {
            let p = agg(AggregateMode::Partial, src, true)?;
            let r = agg(AggregateMode::PartialReduce, p, false)?;
            agg(AggregateMode::Final, gather(r), false)?
        }
    };
    // TopK: the aggregate only keeps the k best groups; the plan shape of TopKAggregation has the
    // SortExec(fetch = k) directly above
    if let Some(l) = limit
        && with_sort
    {
        let sch = top.schema();
        let name = sch.field(nk).name().clone();
        let by = LexOrdering::new(vec![PhysicalSortExpr::new(
            col(&name, &sch),
            SortOptions { descending: l.descending().unwrap(), nulls_first: false },
        )])
        .unwrap();
        let top = if top.output_partitioning().partition_count() > 1 {
            Arc::new(CoalescePartitionsExec::new(top)) as Arc<dyn ExecutionPlan>
        } else {
            top
        };
        return Ok(Arc::new(SortExec::new(by, top).with_fetch(Some(l.limit()))));
    }
    Ok(top)
}

thread_local! {
    static RT: RefCell<Option<tokio::runtime::Runtime>> = const { RefCell::new(None) };
}

fn block_on<F: std::future::Future>(f: F) -> F::Output {
    RT.with(|rt| {
        let mut rt = rt.borrow_mut();
        if rt.is_none() {
            *rt = Some(tokio::runtime::Builder::new_current_thread().enable_all().build().expect("runtime"));
        }
        rt.as_ref().unwrap().block_on(f)
    })
}

thread_local! {
    static LIMITED: RefCell<std::collections::HashMap<usize, Arc<datafusion_execution::runtime_env::RuntimeEnv>>> = RefCell::new(Default::default());
}

fn task_ctx(cfg: &Cfg) -> Arc<TaskContext> {
    static RT_ENV: std::sync::OnceLock<Arc<datafusion_execution::runtime_env::RuntimeEnv>> = std::sync::OnceLock::new();
    let rt = RT_ENV.get_or_init(|| RuntimeEnvBuilder::new().build_arc().expect("runtime env")); // unbounded pool, stateless here
    let mut sc = SessionConfig::new().with_batch_size(cfg.batch_size);
    {
        let o = &mut sc.options_mut().execution;
        o.enable_migration_aggregate = cfg.migration;
        if cfg.skip_partial {
            o.skip_partial_aggregation_probe_rows_threshold = 0;
            o.skip_partial_aggregation_probe_ratio_threshold = 0.0;
        }
    }
    let rt = match cfg.mem_limit {
        None => Arc::clone(rt),
        // one environment per (worker thread, limit): the pool is back at zero after every case and the
        // disk manager's temporary directory is reused
        Some(l) => LIMITED.with(|m| {
            Arc::clone(m.borrow_mut().entry(l).or_insert_with(|| {
                RuntimeEnvBuilder::new().with_memory_limit(l, 1.0).build_arc().expect("runtime env")
            }))
        }),
    };
    Arc::new(TaskContext::new(
        None,
        "c06".to_string(),
        sc,
        Default::default(),
        Default::default(),
        Default::default(),
        Default::default(),
        rt,
    ))
}

fn spill_count(plan: &Arc<dyn ExecutionPlan>) -> usize {
    if plan.children().is_empty() {
        return 0; // the in-memory source has no metrics
    }
    plan.metrics().and_then(|m| m.spill_count()).unwrap_or(0) + plan.children().iter().map(|c| spill_count(c)).sum::<usize>()
}

fn execute(c: &Case) -> Result<(Vec<Vec<Val>>, usize), String> {
    execute_opts(c, true)
}

fn execute_opts(c: &Case, with_sort: bool) -> Result<(Vec<Vec<Val>>, usize), String> {
    let plan = build_plan_opts(c, with_sort)?;
    let ctx = task_ctx(&c.cfg);
    let parts = block_on(collect_partitioned(Arc::clone(&plan), ctx)).map_err(|e| format!("execution error: {e}"))?;
    let spills = spill_count(&plan);
    let mut rows = vec![];
    for b in parts.iter().flatten() {
        for i in 0..b.num_rows() {
            rows.push(b.columns().iter().map(|col| val_at(col.as_ref(), i)).collect::<Vec<_>>());
        }
    }
    Ok((rows, spills))
}

fn close(a: &Val, b: &Val) -> bool {
    match (a, b) {
        (Val::F(x), Val::F(y)) => {
            let (x, y) = (f64::from_bits(*x), f64::from_bits(*y));
            x == y || (x - y).abs() <= 1e-12 * 1f64.max(x.abs()).max(y.abs())
        }
        (a, b) => a == b,
    }
}

fn rows_equal(a: &[Val], b: &[Val]) -> bool {
    a.len() == b.len() && a.iter().zip(b.iter()).all(|(x, y)| close(x, y))
}

struct Stats {
    groups: usize,
    max_group_rows: usize,
    /// spill files written by all operators of the plan
    spills: usize,
    /// ended in ResourcesExhausted under a memory limit (allowed: "a budget that lets it finish")
    exhausted: bool,
}

/// Root cause recorded on the unchanged tree (see known_findings.json): the grouped-TopK map keeps only the
/// groups inside the heap; a group that lost (or was evicted) and later receives a NULL input is registered as
/// an all-NULL group and emitted with a NULL aggregate.  Violations of exactly this history shape share one key.
const TOPK_NULL_AFTER_VALUE: &str = "[grouped TopK: NULL input for a group the heap has dropped or never admitted] ";

fn run_case(c: &Case) -> Result<Stats, String> {
    let nk = n_keys(c.key);
    let mut expect = reference(c);
    let group_rows = |c: &Case| {
        let mut m: BTreeMap<(u8, u8), usize> = BTreeMap::new();
        for r in &c.rows {
            *m.entry((if nk >= 1 { r.0 } else { 0 }, if nk == 2 { r.1 } else { 0 })).or_default() += 1;
        }
        m.values().max().cloned().unwrap_or(0)
    };
    let (got, spills) = match execute(c) {
        Ok(x) => x,
        Err(e) if c.cfg.mem_limit.is_some() && e.contains("Resources exhausted") => {
            return Ok(Stats { groups: expect.len(), max_group_rows: group_rows(c), spills: 0, exhausted: true });
        }
        Err(e) => return Err(e),
    };
    let stats = Stats {
        spills,
        exhausted: false,
        groups: expect.len(),
        max_group_rows: {
            let mut m: BTreeMap<(u8, u8), usize> = BTreeMap::new();
            for r in &c.rows {
                *m.entry((if nk >= 1 { r.0 } else { 0 }, if nk == 2 { r.1 } else { 0 })).or_default() += 1;
            }
            m.values().max().cloned().unwrap_or(0)
        },
    };
    if let AggSet::One(One::TopKMin(k) | One::TopKMax(k)) = c.aggs {
        // ORDER BY agg LIMIT k: the value sequence is determined, ties may pick any group
        let desc = matches!(c.aggs, AggSet::One(One::TopKMax(_)));
        expect.sort_by(|a, b| {
            let (x, y) = (&a[nk], &b[nk]);
            match (x, y) {
                (Val::Null, Val::Null) => std::cmp::Ordering::Equal,
                (Val::Null, _) => std::cmp::Ordering::Greater,
                (_, Val::Null) => std::cmp::Ordering::Less,
                _ => {
                    if desc {
                        y.cmp(x)
                    } else {
                        x.cmp(y)
                    }
                }
            }
        });
        let want: Vec<Val> = expect.iter().take(k).map(|r| r[nk].clone()).collect();
        let have: Vec<Val> = got.iter().map(|r| r[nk].clone()).collect();
        if want != have {
            return Err(format!(
                "ORDER BY aggregate LIMIT {k}: aggregate values {} but the reference's first {k} are {}",
                show_row(&have),
                show_row(&want)
            ));
        }
        let mut seen = HashSet::new();
        for r in &got {
            if !expect.iter().any(|e| rows_equal(e, r)) {
                return Err(format!("output row {} is not a group of the reference result", show_row(r)));
            }
            if !seen.insert(r[..nk].to_vec()) {
                return Err(format!("group {} emitted twice", show_row(&r[..nk])));
            }
        }
        // the limited aggregate itself (no SortExec above it, single-stage shapes): every group it emits must
        // carry the aggregate value of exactly that group's rows, no group twice, and the k best values must
        // be among them - the SortExec(fetch) above would hide a wrongly valued extra group that sorts last
        if matches!(c.cfg.mode, Mode::Single | Mode::SinglePartitioned) {
            let (raw, _) = execute_opts(c, false).map_err(|e| format!("limited aggregate without the sort above it: {e}"))?;
            let mut seen = HashSet::new();
            for r in &raw {
                if !expect.iter().any(|e| rows_equal(e, r)) {
                    // history shape of the offending group: did its last input carry a NULL value (the map no
                    // longer knows the group and registers it as all-NULL), or did a value arrive after a NULL?
                    let inputs: Vec<Val> = c
                        .rows
                        .iter()
                        .filter(|x| key1_val(c.key, x.0) == r[0])
                        .map(|x| v_of(x.2).map(|v| Val::I(v as i128)).unwrap_or(Val::Null))
                        .collect();
                    // (rows of the group coming from different source partitions reach the aggregate in an order the
                    // case does not determine: any mix of NULL and non-NULL inputs may then be this history)
                    let parts_of_group: HashSet<usize> =
                        c.rows.iter().zip(c.part.iter()).filter(|(x, _)| key1_val(c.key, x.0) == r[0]).map(|(_, p)| *p).collect();
                    let last_is_null = inputs.last() == Some(&Val::Null) || (parts_of_group.len() > 1 && inputs.contains(&Val::Null));
                    let tag = if r[nk] == Val::Null && last_is_null && inputs.iter().any(|v| *v != Val::Null) {
                        TOPK_NULL_AFTER_VALUE
                    } else {
                        ""
                    };
                    return Err(format!(
                        "{tag}the limited aggregate (before the sort) emits {} which is not a group of the reference result {}",
                        show_row(r),
                        expect.iter().map(|r| show_row(r)).collect::<Vec<_>>().join(" ")
                    ));
                }
                if !seen.insert(r[..nk].to_vec()) {
                    return Err(format!("the limited aggregate (before the sort) emits group {} twice", show_row(&r[..nk])));
                }
            }
            let mut vals: Vec<Val> = raw.iter().map(|r| r[nk].clone()).collect();
            for w in &want {
                match vals.iter().position(|v| close(v, w)) {
                    Some(i) => {
                        vals.swap_remove(i);
                    }
                    None => {
                        return Err(format!(
                            "the limited aggregate (before the sort) does not emit a group with value {} of the reference's first {k}",
                            show_row(std::slice::from_ref(w))
                        ));
                    }
                }
            }
        }
        return Ok(stats);
    }
    let mut g = got.clone();
    g.sort();
    expect.sort();
    let same = g.len() == expect.len() && g.iter().zip(expect.iter()).all(|(a, b)| rows_equal(a, b));
    if !same {
        // name the first difference
        let mut detail = String::new();
        for e in &expect {
            let m: Vec<&Vec<Val>> = g.iter().filter(|r| r[..nk] == e[..nk]).collect();
            if m.len() != 1 {
                detail = format!("group {} appears {} times in the output", show_row(&e[..nk]), m.len());
                break;
            }
            if !rows_equal(m[0], e) {
                detail = format!("group {}: got {}, expected {}", show_row(&e[..nk]), show_row(m[0]), show_row(e));
                break;
            }
        }
        if detail.is_empty() {
            detail = format!("output has {} rows, expected {}", g.len(), expect.len());
        }
        return Err(format!(
            "{detail} [output {} vs reference {}]",
            g.iter().map(|r| show_row(r)).collect::<Vec<_>>().join(" "),
            expect.iter().map(|r| show_row(r)).collect::<Vec<_>>().join(" ")
        ));
    }
    Ok(stats)
}

// ---------------------------------------------------------------------------
// enumeration
// ---------------------------------------------------------------------------

fn alphabet(k: KeyTy) -> Vec<Row> {
    let mut a = vec![];
    match k {
        KeyTy::NoKey => {
            for v in 0..3 {
                a.push((0, 0, v));
            }
        }
        KeyTy::I64Utf8 => {
            for k1 in 0..3 {
                for k2 in 0..2 {
                    for v in 0..3 {
                        a.push((k1, k2, v));
                    }
                }
            }
        }
        _ => {
            for k1 in 0..3 {
                for v in 0..3 {
                    a.push((k1, 0, v));
                }
            }
        }
    }
    a
}

/// all (partition assignment, per-partition cuts) of n rows: <= 2 partitions, <= 2 batches each
fn layouts(n: usize) -> Vec<(Vec<usize>, Vec<Vec<usize>>)> {
    if n == 0 {
        return vec![(vec![], vec![vec![]])];
    }
    let mut out = vec![];
    for part in enumerate::partitions_up_to_renaming(n, 2) {
        let np = part.iter().max().unwrap() + 1;
        let counts: Vec<usize> = (0..np).map(|p| part.iter().filter(|x| **x == p).count()).collect();
        let per: Vec<Vec<Vec<usize>>> = counts.iter().map(|c| enumerate::splits(*c, 2)).collect();
        let dims: Vec<usize> = per.iter().map(|v| v.len()).collect();
        enumerate::product(&dims, |idx| {
            out.push((part.clone(), idx.iter().enumerate().map(|(p, i)| per[p][*i].clone()).collect()));
        });
    }
    out
}

/// Pool limits of the memory sweep; chosen from a measured outcome table (see evidence counters
/// `mem_<limit>_*`): they span "cannot even start" .. "spills" .. "fits".
const MEM_GRID: [usize; 7] = [1, 4096, 6000, 8192, 12000, 16384, 32768];

const ALL_MODES: [Mode; 6] = [
    Mode::Single,
    Mode::SinglePartitioned,
    Mode::PartialFinal,
    Mode::PartialFinalPartitioned,
    Mode::PartialCoalesceReduceFinal,
    Mode::PartialReduceCoalesceFinal,
];

#[derive(Clone, Copy, PartialEq, Eq, Debug)]
enum Opts {
    /// input order x migration x skip-partial x batch size, full product
    Full,
    /// at most one option differs from (Linear, migration on, skip off, batch 8192)
    Dev1,
    /// the default options only
    Default,
    /// the default options, with the migrated and with the fallback stream implementations
    MigrationBoth,
}

fn configs(key: KeyTy, modes: &[Mode], opts: Opts) -> Vec<Cfg> {
    let mut orders = vec![OrderMode::Linear];
    if n_keys(key) >= 1 {
        orders.push(OrderMode::Sorted);
    }
    if n_keys(key) == 2 {
        orders.push(OrderMode::PartiallySorted);
    }
    let mut out = vec![];
    for mode in modes {
        for order in &orders {
            for migration in [true, false] {
                for skip_partial in [false, true] {
                    for batch_size in [8192usize, 1, 2] {
                        let deviations = usize::from(*order != OrderMode::Linear)
                            + usize::from(!migration)
                            + usize::from(skip_partial)
                            + usize::from(batch_size != 8192);
                        let keep = match opts {
                            Opts::Full => true,
                            Opts::Dev1 => deviations <= 1,
                            Opts::Default => deviations == 0,
                            Opts::MigrationBoth => deviations == usize::from(!migration),
                        };
                        if keep {
                            out.push(Cfg { mode: *mode, order: *order, migration, skip_partial, batch_size, mem_limit: None });
                        }
                    }
                }
            }
        }
    }
    out
}

fn layout_ok(c: &Case) -> bool {
    let np = c.cuts.len();
    if c.key == KeyTy::NoKey && matches!(c.cfg.mode, Mode::SinglePartitioned | Mode::PartialFinalPartitioned) {
        return false; // the planner never partitions an aggregation that has no group keys
    }
    match c.cfg.mode {
        // Single consumes one partition (gathering two first adds nothing about the aggregate)
        Mode::Single => np == 1,
        // a sorted SinglePartitioned input must have every key in one partition only
        Mode::SinglePartitioned if c.cfg.order != OrderMode::Linear => {
            let mut home: BTreeMap<(u8, u8), usize> = BTreeMap::new();
            c.rows.iter().zip(c.part.iter()).all(|(r, p)| *home.entry((r.0, r.1)).or_insert(*p) == *p)
        }
        _ => np >= 1,
    }
}

struct Sweep {
    key: KeyTy,
    aggs: AggSet,
    n_lo: usize,
    n_hi: usize,
    modes: Vec<Mode>,
    opts: Opts,
    /// memory pool limits (bytes) to run under; empty = unbounded pool
    mem: Vec<usize>,
}

fn sweeps(ctx: &Ctx) -> Vec<Sweep> {
    let t = ctx.thorough();
    let mut v = vec![];
    let all = ALL_MODES.to_vec();
    let main3 = vec![Mode::Single, Mode::PartialFinal, Mode::PartialFinalPartitioned];
    let main2 = vec![Mode::Single, Mode::PartialFinal];
    let sw = |key, aggs, n_lo, n_hi, modes: &Vec<Mode>, opts| Sweep { key, aggs, n_lo, n_hi, modes: modes.clone(), opts, mem: vec![] };
    // Int64 key, basic aggregates
    v.push(sw(KeyTy::I64, AggSet::Basic, 0, if t { 3 } else { 2 }, &all, Opts::Full));
    v.push(sw(KeyTy::I64, AggSet::Basic, if t { 4 } else { 3 }, if t { 4 } else { 3 }, &all, Opts::Dev1));
    // other key types
    for k in [KeyTy::NoKey, KeyTy::Utf8, KeyTy::Utf8View, KeyTy::Dict, KeyTy::Bool, KeyTy::Dec] {
        v.push(sw(k, AggSet::Basic, 0, 2, &all, if t { Opts::Full } else { Opts::Dev1 }));
        v.push(sw(k, AggSet::Basic, 3, 3, if t { &all } else { &main2 }, if t { Opts::Dev1 } else { Opts::Default }));
    }
    // two key columns (18-row alphabet)
    v.push(sw(KeyTy::I64Utf8, AggSet::Basic, 0, 2, &all, if t { Opts::Full } else { Opts::Dev1 }));
    if t {
        v.push(sw(KeyTy::I64Utf8, AggSet::Basic, 3, 3, &main3, Opts::Dev1));
    }
    // one aggregate per plan
    for o in [
        One::Median,
        One::PercentileCont50,
        One::ArrayAggOrdered,
        One::StringAggOrdered,
        One::SumDistinct,
        One::BitXorDistinct,
        One::VarPop,
        One::BoolAnd,
    ] {
        v.push(sw(KeyTy::I64, AggSet::One(o), 0, 2, &all, Opts::Dev1));
        v.push(sw(KeyTy::I64, AggSet::One(o), 3, 3, if t { &all } else { &main2 }, if t { Opts::Dev1 } else { Opts::Default }));
    }
    // memory limits: the operator may spill, emit early or give up (ResourcesExhausted), never answer wrongly
    let grid: Vec<usize> = std::env::var("C06_MEM_GRID")
        .ok()
        .map(|g| g.split(',').filter_map(|x| x.parse().ok()).collect())
        .unwrap_or_else(|| if t { MEM_GRID.to_vec() } else { vec![8192] });
    if t {
        for key in [KeyTy::I64, KeyTy::Utf8] {
            let mut s = sw(key, AggSet::Basic, 2, 3, &all, Opts::Dev1);
            s.mem = grid.clone();
            v.push(s);
        }
    } else {
        let mut s = sw(KeyTy::I64, AggSet::Basic, 3, 3, &main3, Opts::MigrationBoth);
        s.mem = grid.clone();
        v.push(s);
    }
    // grouped TopK (the rewrite is produced for Single and Partial+Final shapes)
    let topk_modes = vec![Mode::Single, Mode::SinglePartitioned, Mode::PartialFinal, Mode::PartialFinalPartitioned];
    for k in 1..=(if t { 3 } else { 2 }) {
        for key in if t { vec![KeyTy::I64, KeyTy::Utf8] } else { vec![KeyTy::I64] } {
            for aggs in [AggSet::One(One::TopKMin(k)), AggSet::One(One::TopKMax(k))] {
                v.push(sw(key, aggs, 0, 2, &topk_modes, if t { Opts::Full } else { Opts::Dev1 }));
                v.push(sw(key, aggs, 3, 3, if t { &topk_modes } else { &main3 }, if t { Opts::Dev1 } else { Opts::Default }));
            }
        }
    }
    // four rows: the shortest histories in which a group registered with a NULL input, a full heap, a losing
    // value for a group inside the heap and a losing value for the NULL group all occur (k <= 2)
    let single = vec![Mode::Single];
    for k in 1..=2 {
        for aggs in [AggSet::One(One::TopKMin(k)), AggSet::One(One::TopKMax(k))] {
            v.push(sw(KeyTy::I64, aggs, 4, 4, if t { &topk_modes } else { &single }, Opts::Default));
        }
    }
    v
}

fn explore(ctx: &Ctx) {
    let sweeps = sweeps(ctx);
    ctx.set_extra(
        "bounds",
        json!({
            "sweeps": sweeps.iter().map(|s| format!("{:?} keys, {:?}: rows {}..={} x modes {:?} x options {:?}{}", s.key, s.aggs, s.n_lo, s.n_hi, s.modes, s.opts, if s.mem.is_empty() { String::new() } else { format!(" x memory limit {:?} bytes", s.mem) })).collect::<Vec<_>>(),
            "domain": "key in {NULL, k1, k2} per key type (second key in {NULL,'x'}), value in {NULL, 1, 2}; all row sequences of each length",
            "layouts": "all assignments of rows to <= 2 partitions x all cuts of each partition into <= 2 batches (Single mode: one partition)",
            "options": "Full = input order {Linear, Sorted, PartiallySorted(2 keys)} x enable_migration_aggregate {on,off} x skip-partial {off, rows=0 ratio=0} x batch_size {8192,1,2}; Dev1 = at most one of them away from the default; Default = (Linear, on, off, 8192)",
            "topk": "min/max with LimitOptions(k, order) on every aggregate stage below SortExec(fetch k)",
        }),
    );
    ctx.assume("plans are built directly, not by the optimizer; memory-limited runs use GreedyMemoryPool with an absolute limit grid and real temporary files; a run that ends in ResourcesExhausted is counted, not compared");
    ctx.assume("avg/var_pop compared with relative tolerance 1e-12, everything else exactly; output compared as a multiset of rows");

    let sweeps: Vec<Sweep> = if std::env::var("C06_ONLY_MEM").is_ok() { sweeps.into_iter().filter(|s| !s.mem.is_empty()).collect() } else { sweeps };
    let max_n = sweeps.iter().map(|s| s.n_hi).max().unwrap_or(0);
    let reported: Mutex<HashSet<String>> = Mutex::new(HashSet::new());
    for n in 0..=max_n {
        if ctx.should_stop() {
            break;
        }
        let mut cases: Vec<Case> = vec![];
        for s in &sweeps {
            if n < s.n_lo || n > s.n_hi {
                continue;
            }
            let cfgs = configs(s.key, &s.modes, s.opts);
            for rows in enumerate::sequences(&alphabet(s.key), n, n) {
                for (part, cuts) in layouts(n) {
                    for cfg in &cfgs {
                        let mems: Vec<Option<usize>> = if s.mem.is_empty() { vec![None] } else { s.mem.iter().map(|m| Some(*m)).collect() };
                        for mem_limit in mems {
                            let mut cfg = *cfg;
                            cfg.mem_limit = mem_limit;
                            let c = Case { key: s.key, aggs: s.aggs, cfg, rows: rows.clone(), part: part.clone(), cuts: cuts.clone() };
                            if layout_ok(&c) {
                                cases.push(c);
                            }
                        }
                    }
                }
            }
        }
        // run in parallel, account sequentially (no lock traffic on the hot path)
        let results: Vec<Option<Result<Stats, String>>> = cases
            .par_iter()
            .map(|c| {
                if ctx.should_stop() {
                    return None;
                }
                Some(mc_core::catch(|| run_case(c)).unwrap_or_else(Err))
            })
            .collect();
        let mut per_mode: BTreeMap<String, u64> = BTreeMap::new();
        let mut fs: Vec<(Case, String)> = vec![];
        for (c, r) in cases.iter().zip(results) {
            let Some(r) = r else { continue };
            ctx.eval();
            match r {
                Ok(st) => {
                    *per_mode.entry(format!("mode_{:?}", c.cfg.mode)).or_default() += 1;
                    if let Some(l) = c.cfg.mem_limit {
                        let o = if st.exhausted { "resources_exhausted" } else if st.spills > 0 { "ok_spilled" } else { "ok_no_spill" };
                        *per_mode.entry(format!("mem_{l:06}_{o}")).or_default() += 1;
                        if std::env::var("C06_MEM_DETAIL").is_ok() {
                            *per_mode.entry(format!("memdetail_{l:06}_{:?}_{}_{:?}_{o}", c.cfg.mode, if c.cfg.migration { "mig" } else { "nomig" }, c.cfg.order)).or_default() += 1;
                        }
                        if st.exhausted {
                            continue; // allowed outcome, nothing to compare
                        }
                    }
                    // non-trivial: >= 2 groups and some group with >= 2 rows (so states of one group really combine)
                    if st.groups >= 2 && st.max_group_rows >= 2 {
                        ctx.nontrivial(c);
                        if c.cuts.len() == 2 && c.cfg.order != OrderMode::Linear && ctx.want_sample() {
                            ctx.sample(serde_json::to_value(c).unwrap());
                        }
                    }
                }
                Err(what) => fs.push((c.clone(), what)),
            }
        }
        for (k, v) in per_mode {
            ctx.count(&k, v);
        }
        // deterministic reporting: one violation per (key type, aggregate set, failure class), smallest case first
        fs.sort_by_key(|(c, _)| serde_json::to_string(c).unwrap());
        for (c, what) in fs {
            let norm: String = what
                .split('[')
                .next()
                .unwrap_or("")
                .chars()
                .filter(|ch| !ch.is_ascii_digit())
                .take(70)
                .collect();
            let root_cause = what.starts_with(TOPK_NULL_AFTER_VALUE);
            let class = if root_cause { TOPK_NULL_AFTER_VALUE.to_string() } else { format!("{:?}/{:?}/{}", c.key, c.aggs, norm) };
            if !reported.lock().unwrap().insert(class) {
                ctx.count("violations_of_an_already_reported_class", 1);
                continue;
            }
            let key = if root_cause { TOPK_NULL_AFTER_VALUE.trim().to_string() } else { serde_json::to_string(&c).unwrap() };
            ctx.violation(key, what, serde_json::to_value(&c).unwrap());
        }
    }
}

fn replay(v: &Value) -> Result<(), String> {
    let c: Case = serde_json::from_value(v.clone()).map_err(|e| format!("bad case: {e}"))?;
    mc_core::catch(|| run_case(&c)).unwrap_or_else(Err).map(|_| ())
}

fn main() {
    mc_core::quiet_panics();
    run_check(
        "C06",
        Level::Exploration,
        "every (key type, aggregate set, aggregation mode, input order mode, enable_migration_aggregate, skip-partial, batch_size) x every row sequence up to the bound x every layout into <= 2 partitions and <= 2 batches per partition; one evaluation = one real plan executed on a current-thread runtime and compared, as a multiset of rows, with the reference group-by; non-trivial = the reference has >= 2 groups and some group has >= 2 rows",
        explore,
        replay,
    );
}
