//! C07 — aggregate function state can be split, merged and retracted exactly.
//!
//! Style H (operation histories) over the *real* `Accumulator` /
//! `GroupsAccumulator` objects of every `AggregateUDF` returned by
//! `datafusion_functions_aggregate::all_default_aggregate_functions()`, built the
//! way `AggregateExec` builds them (`AggregateExprBuilder` →
//! `AggregateFunctionExpr::create_accumulator / create_groups_accumulator /
//! create_sliding_accumulator`, `GroupsAccumulatorAdapter` where a function has no
//! native groups accumulator).
//!
//! For every function × accepted argument type × variant (DISTINCT, IGNORE
//! NULLS, ORDER BY) and every input row sequence up to a length bound over a
//! small per-type domain that contains NULL, every history of the following
//! families is executed and compared with the one-shot accumulation of the same
//! rows (`update_batch(all rows); evaluate()` on a fresh accumulator):
//!
//! * `Split`  — every cut of the sequence into consecutive batches;
//! * `Merge`  — every cut × every assignment of the batches to <= 2 partitions
//!   (optionally one more, empty, partition) × both merge orders × states merged
//!   one `merge_batch` per partition or concatenated into one call × optionally
//!   relayed through an intermediate accumulator (`merge_batch`; `state`);
//! * `Slide`  — every non-decreasing window schedule `(lo, hi)` driven with the
//!   calling protocol of `SlidingAggregateWindowExpr` (`update_batch` entering
//!   rows, `retract_batch` leaving rows, `evaluate`), compared with recomputing
//!   over `rows[lo..hi]`;
//! * `Groups` — the vectorised accumulator: every group-index vector over <= 3
//!   groups (first-seen numbering) × every filter mask × every cut, in the modes
//!   single-stage `evaluate`, partial `state` → final `merge_batch`, several
//!   partial accumulators with local group numbering, `convert_to_state`, and
//!   `EmitTo::First(k)` in the middle of the history; compared per group with the
//!   scalar one-shot accumulation of that group's unfiltered rows.
use std::collections::{BTreeMap, HashMap, HashSet};
use std::sync::{Arc, Mutex, OnceLock};

use arrow::array::*;
use arrow::compute::{SortOptions, concat};
use arrow::datatypes::*;
use arrow::record_batch::RecordBatch;
use datafusion_common::ScalarValue;
use datafusion_expr::type_coercion::functions::fields_with_udf;
use datafusion_expr::utils::AggregateOrderSensitivity;
use datafusion_expr::{Accumulator, AggregateUDF, EmitTo, GroupsAccumulator};
use datafusion_functions_aggregate::all_default_aggregate_functions;
use datafusion_physical_expr::aggregate::{AggregateExprBuilder, AggregateFunctionExpr};
use datafusion_physical_expr::expressions::{Column, Literal};
use datafusion_physical_expr::{GroupsAccumulatorAdapter, PhysicalExpr, PhysicalSortExpr};
use mc_core::serde_json::{Value, json};
use mc_core::{Ctx, Level, enumerate, rayon::prelude::*, run_check};
use serde::{Deserialize, Serialize};

// ---------------------------------------------------------------------------
// value domains
// ---------------------------------------------------------------------------

#[derive(Serialize, Deserialize, Clone, Copy, Debug, Hash, PartialEq, Eq, PartialOrd, Ord)]
enum Ty {
    I64,
    F64,
    Utf8,
    Bool,
    Dec,
    Utf8View,
    U64,
    Date32,
    I32,
    F32,
    LargeUtf8,
    U8,
}

const TYPE_MENU: [Ty; 12] = [
    Ty::I64,
    Ty::F64,
    Ty::Utf8,
    Ty::Bool,
    Ty::Dec,
    Ty::Utf8View,
    Ty::U64,
    Ty::Date32,
    Ty::I32,
    Ty::F32,
    Ty::LargeUtf8,
    Ty::U8,
];

fn dtype(t: Ty) -> DataType {
    match t {
        Ty::I64 => DataType::Int64,
        Ty::F64 => DataType::Float64,
        Ty::Utf8 => DataType::Utf8,
        Ty::Bool => DataType::Boolean,
        Ty::Dec => DataType::Decimal128(10, 2),
        Ty::Utf8View => DataType::Utf8View,
        Ty::U64 => DataType::UInt64,
        Ty::Date32 => DataType::Date32,
        Ty::I32 => DataType::Int32,
        Ty::F32 => DataType::Float32,
        Ty::LargeUtf8 => DataType::LargeUtf8,
        Ty::U8 => DataType::UInt8,
    }
}

/// Number of domain indices of a type (index 0 is NULL, the others are
/// non-NULL values in strictly ascending order of the type's natural order).
fn dom_size(t: Ty) -> u8 {
    match t {
        Ty::Bool => 3,
        _ => 4,
    }
}

const INTS: [i64; 3] = [-1, 2, 3];
const UINTS: [u64; 3] = [1, 2, 3];
const FLOATS: [f64; 3] = [-0.5, 1.0, 2.5];
const DECS: [i128; 3] = [-100, 150, 225];
const STRS: [&str; 3] = ["", "a", "b"];
const VIEWS: [&str; 3] = ["", "a", "a string longer than twelve bytes"];
const DATES: [i32; 3] = [0, 1, 19000];

/// Build a column of type `t` from domain indices (0 = NULL).
fn col(t: Ty, idx: &[u8]) -> ArrayRef {
    fn pick<T: Copy>(dom: &[T], i: u8) -> Option<T> {
        if i == 0 { None } else { Some(dom[(i - 1) as usize]) }
    }
    match t {
        Ty::I64 => Arc::new(Int64Array::from(idx.iter().map(|i| pick(&INTS, *i)).collect::<Vec<_>>())),
        Ty::I32 => Arc::new(Int32Array::from(
            idx.iter().map(|i| pick(&INTS, *i).map(|v| v as i32)).collect::<Vec<_>>(),
        )),
        Ty::U64 => Arc::new(UInt64Array::from(idx.iter().map(|i| pick(&UINTS, *i)).collect::<Vec<_>>())),
        Ty::U8 => Arc::new(UInt8Array::from(
            idx.iter().map(|i| pick(&UINTS, *i).map(|v| v as u8)).collect::<Vec<_>>(),
        )),
        Ty::F64 => Arc::new(Float64Array::from(idx.iter().map(|i| pick(&FLOATS, *i)).collect::<Vec<_>>())),
        Ty::F32 => Arc::new(Float32Array::from(
            idx.iter().map(|i| pick(&FLOATS, *i).map(|v| v as f32)).collect::<Vec<_>>(),
        )),
        Ty::Dec => Arc::new(
            Decimal128Array::from(idx.iter().map(|i| pick(&DECS, *i)).collect::<Vec<_>>())
                .with_precision_and_scale(10, 2)
                .unwrap(),
        ),
        Ty::Utf8 => Arc::new(StringArray::from(idx.iter().map(|i| pick(&STRS, *i)).collect::<Vec<_>>())),
        Ty::LargeUtf8 => {
            Arc::new(LargeStringArray::from(idx.iter().map(|i| pick(&STRS, *i)).collect::<Vec<_>>()))
        }
        Ty::Utf8View => {
            Arc::new(StringViewArray::from(idx.iter().map(|i| pick(&VIEWS, *i)).collect::<Vec<_>>()))
        }
        Ty::Bool => Arc::new(BooleanArray::from(
            idx.iter().map(|i| pick(&[false, true], *i)).collect::<Vec<_>>(),
        )),
        Ty::Date32 => Arc::new(Date32Array::from(idx.iter().map(|i| pick(&DATES, *i)).collect::<Vec<_>>())),
    }
}

// ---------------------------------------------------------------------------
// result values
// ---------------------------------------------------------------------------

#[derive(Clone, Debug, PartialEq, Eq, PartialOrd, Ord, Hash)]
enum Val {
    Null,
    B(bool),
    I(i128),
    D(i128, i8),
    F(u64),
    S(String),
    L(Vec<Val>),
    Other(String),
}

impl Val {
    fn show(&self) -> String {
        match self {
            Val::Null => "NULL".into(),
            Val::B(b) => format!("{b}"),
            Val::I(i) => format!("{i}"),
            Val::D(v, s) => format!("{v}e-{s}"),
            Val::F(b) => format!("{:?}", f64::from_bits(*b)),
            Val::S(s) => format!("{s:?}"),
            Val::L(l) => format!("[{}]", l.iter().map(|v| v.show()).collect::<Vec<_>>().join(", ")),
            Val::Other(s) => format!("<{s}>"),
        }
    }
}

fn val_at(a: &dyn Array, i: usize) -> Val {
    use arrow::array::cast::*;
    if a.data_type() == &DataType::Null || a.is_null(i) {
        return Val::Null;
    }
    match a.data_type() {
        DataType::Boolean => Val::B(as_boolean_array(a).value(i)),
        DataType::Int8 => Val::I(as_primitive_array::<Int8Type>(a).value(i) as i128),
        DataType::Int16 => Val::I(as_primitive_array::<Int16Type>(a).value(i) as i128),
        DataType::Int32 => Val::I(as_primitive_array::<Int32Type>(a).value(i) as i128),
        DataType::Int64 => Val::I(as_primitive_array::<Int64Type>(a).value(i) as i128),
        DataType::UInt8 => Val::I(as_primitive_array::<UInt8Type>(a).value(i) as i128),
        DataType::UInt16 => Val::I(as_primitive_array::<UInt16Type>(a).value(i) as i128),
        DataType::UInt32 => Val::I(as_primitive_array::<UInt32Type>(a).value(i) as i128),
        DataType::UInt64 => Val::I(as_primitive_array::<UInt64Type>(a).value(i) as i128),
        DataType::Date32 => Val::I(as_primitive_array::<Date32Type>(a).value(i) as i128),
        DataType::Float32 => Val::F((as_primitive_array::<Float32Type>(a).value(i) as f64).to_bits()),
        DataType::Float64 => Val::F(as_primitive_array::<Float64Type>(a).value(i).to_bits()),
        DataType::Decimal128(_, s) => Val::D(as_primitive_array::<Decimal128Type>(a).value(i), *s),
        DataType::Utf8 => Val::S(as_string_array(a).value(i).to_string()),
        DataType::LargeUtf8 => Val::S(as_largestring_array(a).value(i).to_string()),
        DataType::Utf8View => Val::S(a.as_string_view().value(i).to_string()),
        DataType::List(_) => {
            let v = as_list_array(a).value(i);
            Val::L((0..v.len()).map(|j| val_at(v.as_ref(), j)).collect())
        }
        DataType::LargeList(_) => {
            let v = as_large_list_array(a).value(i);
            Val::L((0..v.len()).map(|j| val_at(v.as_ref(), j)).collect())
        }
        DataType::Struct(_) => {
            let s = as_struct_array(a);
            Val::L(s.columns().iter().map(|c| val_at(c.as_ref(), i)).collect())
        }
        _ => {
            let f = arrow::util::display::ArrayFormatter::try_new(a, &Default::default());
            match f {
                Ok(f) => Val::Other(format!("{}:{}", a.data_type(), f.value(i))),
                Err(e) => Val::Other(format!("unformattable {}: {e}", a.data_type())),
            }
        }
    }
}

fn val_of_scalar(s: &ScalarValue) -> Result<Val, String> {
    let a = s.to_array().map_err(|e| format!("ScalarValue::to_array: {e}"))?;
    Ok(val_at(a.as_ref(), 0))
}

// ---------------------------------------------------------------------------
// function specifications
// ---------------------------------------------------------------------------

#[derive(Serialize, Deserialize, Clone, Debug, Hash, PartialEq, Eq)]
enum Lit {
    I(i64),
    F(String), // f64 rendered with {:?} so that the spec stays hashable
    S(String),
}

#[derive(Serialize, Deserialize, Clone, Debug, Hash, PartialEq, Eq)]
struct Order {
    /// true: `ORDER BY o` over a separate Int64 key column; the value column is
    /// a fixed (non-monotone) function of the key, so ties in the key are
    /// indistinguishable and every result is uniquely defined.
    /// false: `ORDER BY v0` (the value column itself).
    key: bool,
    desc: bool,
    nulls_first: bool,
    /// Input is sorted and the function was told so (`with_beneficial_ordering(true)`).
    presorted: bool,
}

#[derive(Serialize, Deserialize, Clone, Debug, Hash, PartialEq, Eq)]
struct Spec {
    name: String,
    tys: Vec<Ty>,
    lit: Option<Lit>,
    distinct: bool,
    ignore_nulls: bool,
    order: Option<Order>,
}

impl Spec {
    fn label(&self) -> String {
        let mut s = format!("{}(", self.name);
        if self.distinct {
            s.push_str("DISTINCT ");
        }
        s.push_str(&self.tys.iter().map(|t| format!("{t:?}")).collect::<Vec<_>>().join(", "));
        if let Some(l) = &self.lit {
            s.push_str(&match l {
                Lit::I(i) => format!(", {i}"),
                Lit::F(f) => format!(", {f}"),
                Lit::S(x) => format!(", {x:?}"),
            });
        }
        if let Some(o) = &self.order {
            s.push_str(&format!(
                " ORDER BY {} {} NULLS {}{}",
                if o.key { "key" } else { "v0" },
                if o.desc { "DESC" } else { "ASC" },
                if o.nulls_first { "FIRST" } else { "LAST" },
                if o.presorted { " [presorted]" } else { "" }
            ));
        }
        s.push(')');
        if self.ignore_nulls {
            s.push_str(" IGNORE NULLS");
        }
        s
    }
    fn keyed(&self) -> bool {
        self.order.as_ref().map(|o| o.key).unwrap_or(false)
    }
    /// Domain sizes of the *enumerated* columns of a row.
    fn doms(&self) -> Vec<u8> {
        if self.keyed() {
            vec![4]
        } else if self.tys.len() == 2 {
            vec![3, 3]
        } else {
            vec![dom_size(self.tys[0])]
        }
    }
}

/// value index as a function of the key index (key NULL -> 2nd value, key 1 -> NULL, ...)
const KEYMAP: [u8; 4] = [2, 0, 3, 1];

type Row = Vec<u8>;

#[derive(Clone, Copy, PartialEq, Eq, Debug)]
enum Cmp {
    Exact,
    /// |a-b| <= tol * max(1,|a|,|b|) on floats (and NULL == NULL, NaN == NaN)
    Tol,
    /// list compared as a multiset
    MultisetList,
    /// delimiter separated string compared as a multiset of pieces
    MultisetStr,
    /// any_value: any non-NULL input value (NULL iff there is none)
    AnyOf,
}

const TOL: f64 = 1e-9;
/// retract histories on floating point moments go through a subtraction; a
/// residue of one ulp of the second moment becomes ~1e-8 after the square root
/// of stddev, hence the wider (still tiny relative to the domain) band.
const TOL_RETRACT: f64 = 1e-6;

const FLOAT_MOMENTS: [&str; 19] = [
    "var", "var_samp", "var_pop", "stddev", "stddev_samp", "stddev_pop", "covar", "covar_samp", "covar_pop", "corr",
    "regr_slope", "regr_intercept", "regr_r2", "regr_avgx", "regr_avgy", "regr_sxx", "regr_syy", "regr_sxy",
    "regr_count",
];
/// Functions whose result depends on input order when no ORDER BY is given.
const INHERENT_ORDER: [&str; 5] = ["first_value", "last_value", "nth_value", "array_agg", "string_agg"];

struct Built {
    /// first-stage expression (what Partial/Single aggregation and window frames use)
    agg: Arc<AggregateFunctionExpr>,
    /// final-stage expression: the optimizer only tells *first-stage* aggregates that
    /// their input is pre-ordered (`OptimizeAggregateOrder` skips `AggregateInputMode::Partial`),
    /// so accumulators that receive `merge_batch` are built without that hint.
    agg_final: Arc<AggregateFunctionExpr>,
    schema: SchemaRef,
    exprs: Vec<Arc<dyn PhysicalExpr>>,
    /// rows of every partition must arrive sorted by the ORDER BY key
    needs_sorted: bool,
    /// no ORDER BY and the result depends on arrival order
    inherent_order: bool,
    cmp: Cmp,
    /// compare mode to use when rows of an inherent-order function were
    /// re-ordered by the history (None: such histories are skipped)
    loose: Option<Cmp>,
    native_groups: bool,
}

fn registry() -> &'static Vec<Arc<AggregateUDF>> {
    static R: OnceLock<Vec<Arc<AggregateUDF>>> = OnceLock::new();
    R.get_or_init(all_default_aggregate_functions)
}

fn build(spec: &Spec) -> Result<Built, String> {
    let udf = registry()
        .iter()
        .find(|u| u.name() == spec.name)
        .cloned()
        .ok_or_else(|| format!("no aggregate named {}", spec.name))?;
    let mut fields = vec![];
    for (i, t) in spec.tys.iter().enumerate() {
        fields.push(Field::new(format!("v{i}"), dtype(*t), true));
    }
    if spec.keyed() {
        fields.push(Field::new("o", DataType::Int64, true));
    }
    let schema: SchemaRef = Arc::new(Schema::new(fields));
    let mut args: Vec<Arc<dyn PhysicalExpr>> = vec![];
    for i in 0..spec.tys.len() {
        args.push(Arc::new(Column::new(&format!("v{i}"), i)));
    }
    if let Some(l) = &spec.lit {
        let sv = match l {
            Lit::I(i) => ScalarValue::Int64(Some(*i)),
            Lit::F(f) => ScalarValue::Float64(Some(f.parse::<f64>().map_err(|e| e.to_string())?)),
            Lit::S(s) => ScalarValue::Utf8(Some(s.clone())),
        };
        args.push(Arc::new(Literal::new(sv)));
    }
    // The physical builder does not coerce: only use argument types that the
    // signature accepts unchanged (what the planner would hand over as is).
    let arg_fields = args
        .iter()
        .map(|a| a.return_field(&schema))
        .collect::<Result<Vec<_>, _>>()
        .map_err(|e| e.to_string())?;
    let coerced = fields_with_udf(&arg_fields, udf.as_ref()).map_err(|e| format!("signature rejects: {e}"))?;
    for (a, c) in arg_fields.iter().zip(coerced.iter()) {
        if a.data_type() != c.data_type() {
            return Err(format!("signature coerces {} to {}", a.data_type(), c.data_type()));
        }
    }
    let mut b = AggregateExprBuilder::new(udf, args)
        .schema(Arc::clone(&schema))
        .alias("agg")
        .with_distinct(spec.distinct)
        .with_ignore_nulls(spec.ignore_nulls);
    if let Some(o) = &spec.order {
        let e: Arc<dyn PhysicalExpr> = if o.key {
            Arc::new(Column::new("o", spec.tys.len()))
        } else {
            Arc::new(Column::new("v0", 0))
        };
        b = b.order_by(vec![PhysicalSortExpr::new(
            e,
            SortOptions { descending: o.desc, nulls_first: o.nulls_first },
        )]);
    }
    let mut agg = Arc::new(b.build().map_err(|e| format!("build: {e}"))?);
    let sens = agg.order_sensitivity();
    let agg_final = Arc::clone(&agg);
    let presorted = spec.order.as_ref().map(|o| o.presorted).unwrap_or(false);
    if presorted {
        if !(matches!(sens, AggregateOrderSensitivity::Beneficial | AggregateOrderSensitivity::SoftRequirement)) {
            return Err("presorted variant only for Beneficial/SoftRequirement functions".into());
        }
        match Arc::clone(&agg).with_beneficial_ordering(true) {
            Ok(Some(a)) => agg = Arc::new(a),
            Ok(None) => return Err("with_beneficial_ordering returned None".into()),
            Err(e) => return Err(format!("with_beneficial_ordering: {e}")),
        }
    }
    if spec.order.is_some() && sens == AggregateOrderSensitivity::Insensitive {
        return Err("ORDER BY ignored by an order-insensitive function".into());
    }
    agg.create_accumulator().map_err(|e| format!("create_accumulator: {e}"))?;
    let mut exprs = agg.expressions();
    exprs.extend(agg.order_bys().iter().map(|s| Arc::clone(&s.expr)));
    let needs_sorted = spec.order.is_some() && (sens == AggregateOrderSensitivity::HardRequirement || presorted);
    let inherent_order = spec.order.is_none() && INHERENT_ORDER.contains(&spec.name.as_str());
    let float_arg = matches!(spec.tys[0], Ty::F64 | Ty::F32);
    let unordered_distinct = spec.distinct && spec.order.is_none();
    let cmp = if FLOAT_MOMENTS.contains(&spec.name.as_str()) || (spec.name == "avg" && float_arg) {
        Cmp::Tol
    } else if spec.name == "any_value" {
        Cmp::AnyOf
    } else if spec.name == "array_agg" && unordered_distinct {
        Cmp::MultisetList
    } else if spec.name == "string_agg" && unordered_distinct {
        Cmp::MultisetStr
    } else {
        Cmp::Exact
    };
    let loose = match spec.name.as_str() {
        "array_agg" => Some(Cmp::MultisetList),
        "string_agg" => Some(Cmp::MultisetStr),
        _ => None,
    };
    let native_groups = agg.groups_accumulator_supported();
    Ok(Built { agg, agg_final, schema, exprs, needs_sorted, inherent_order, cmp, loose, native_groups })
}

/// Sort key of a row under the spec's ORDER BY (independent of DataFusion).
fn sort_key(spec: &Spec, r: &Row) -> (u8, i16) {
    let o = spec.order.as_ref().unwrap();
    let i = r[0]; // key index or v0 index: both domains ascend with the index
    if i == 0 {
        (if o.nulls_first { 0 } else { 2 }, 0)
    } else {
        (1, if o.desc { -(i as i16) } else { i as i16 })
    }
}

fn is_sorted(spec: &Spec, rows: &[Row]) -> bool {
    rows.windows(2).all(|w| sort_key(spec, &w[0]) <= sort_key(spec, &w[1]))
}

fn make_batch(b: &Built, spec: &Spec, rows: &[Row]) -> RecordBatch {
    let mut cols: Vec<ArrayRef> = vec![];
    if spec.keyed() {
        let t = spec.tys[0];
        let vidx: Vec<u8> = rows.iter().map(|r| KEYMAP[r[0] as usize].min(dom_size(t) - 1)).collect();
        cols.push(col(t, &vidx));
        cols.push(col(Ty::I64, &rows.iter().map(|r| r[0]).collect::<Vec<_>>()));
    } else {
        for (c, t) in spec.tys.iter().enumerate() {
            cols.push(col(*t, &rows.iter().map(|r| r[c]).collect::<Vec<_>>()));
        }
    }
    RecordBatch::try_new(Arc::clone(&b.schema), cols).expect("batch")
}

/// Argument arrays exactly as `AggregateExec` computes them: the argument
/// expressions followed by the ORDER BY expressions, evaluated on the batch.
fn arg_arrays(b: &Built, spec: &Spec, rows: &[Row]) -> Result<Vec<ArrayRef>, String> {
    let batch = make_batch(b, spec, rows);
    b.exprs
        .iter()
        .map(|e| e.evaluate(&batch).and_then(|v| v.into_array(batch.num_rows())).map_err(|e| e.to_string()))
        .collect()
}

// ---------------------------------------------------------------------------
// histories
// ---------------------------------------------------------------------------

#[derive(Serialize, Deserialize, Clone, Debug, Hash, PartialEq, Eq)]
enum GMode {
    /// single stage: `evaluate(First(k))` after batch j for every (j,k) in emits, `evaluate(All)` at the end
    Eval { emits: Vec<(usize, usize)> },
    /// partial: `state(First(k))` after batch j, `state(All)` at the end; final: `merge_batch` each chunk, `evaluate(All)`
    State { emits: Vec<(usize, usize)> },
    /// one partial accumulator per partition (local first-seen group numbering), states merged in `order`
    Parts { assign: Vec<usize>, order: Vec<usize> },
    /// first `after` batches aggregated then `state(All)`; remaining batches through `convert_to_state`
    Convert { after: usize },
}

#[derive(Serialize, Deserialize, Clone, Debug, Hash, PartialEq, Eq)]
enum Hist {
    Split { cut: Vec<usize> },
    Merge { cut: Vec<usize>, assign: Vec<usize>, extra_empty: bool, order: Vec<usize>, concat: bool, relay: bool },
    Slide { windows: Vec<(usize, usize)> },
    /// filter codes: 0 = false, 1 = true, 2 = NULL
    Groups { groups: Vec<usize>, filter: Option<Vec<u8>>, cut: Vec<usize>, mode: GMode },
}

impl Hist {
    /// kind of history; a function that fails one kind keeps being explored on the others
    fn family(&self) -> &'static str {
        match self {
            Hist::Split { .. } => "split",
            Hist::Merge { .. } => "merge",
            Hist::Slide { .. } => "slide",
            Hist::Groups { mode: GMode::Eval { .. }, .. } => "groups-eval",
            Hist::Groups { mode: GMode::State { .. }, .. } => "groups-state",
            Hist::Groups { mode: GMode::Parts { .. }, .. } => "groups-parts",
            Hist::Groups { mode: GMode::Convert { .. }, .. } => "groups-convert",
        }
    }
}

#[derive(Serialize, Deserialize, Clone, Debug, Hash)]
struct Case {
    spec: Spec,
    rows: Vec<Row>,
    hist: Hist,
}

#[derive(Clone)]
struct Expect {
    val: Val,
    /// non-NULL values of the first argument (for any_value)
    cands: Vec<Val>,
}

type Cache = HashMap<Vec<Row>, Result<Expect, String>>;

/// The oracle: one-shot accumulation on a fresh scalar accumulator.
fn oneshot(b: &Built, spec: &Spec, rows: &[Row], cache: &mut Cache) -> Result<Expect, String> {
    if let Some(r) = cache.get(rows) {
        return r.clone();
    }
    let r = (|| {
        let mut acc = b.agg.create_accumulator().map_err(|e| e.to_string())?;
        let mut cands = vec![];
        if !rows.is_empty() {
            let a = arg_arrays(b, spec, rows)?;
            for i in 0..a[0].len() {
                let v = val_at(a[0].as_ref(), i);
                if v != Val::Null {
                    cands.push(v);
                }
            }
            acc.update_batch(&a).map_err(|e| e.to_string())?;
        }
        let v = acc.evaluate().map_err(|e| e.to_string())?;
        Ok(Expect { val: val_of_scalar(&v)?, cands })
    })();
    cache.insert(rows.to_vec(), r.clone());
    r
}

fn close(a: f64, b: f64, tol: f64) -> bool {
    if a.is_nan() || b.is_nan() {
        return a.is_nan() && b.is_nan();
    }
    if a == b {
        return true;
    }
    (a - b).abs() <= tol * 1f64.max(a.abs()).max(b.abs())
}

fn agree(cmp: Cmp, tol: f64, exp: &Expect, got: &Val) -> bool {
    match cmp {
        Cmp::Exact => &exp.val == got,
        Cmp::Tol => match (&exp.val, got) {
            (Val::F(a), Val::F(b)) => close(f64::from_bits(*a), f64::from_bits(*b), tol),
            (a, b) => a == b,
        },
        Cmp::MultisetList => match (&exp.val, got) {
            (Val::L(a), Val::L(b)) => {
                let (mut a, mut b) = (a.clone(), b.clone());
                a.sort();
                b.sort();
                a == b
            }
            (a, b) => a == b,
        },
        Cmp::MultisetStr => match (&exp.val, got) {
            (Val::S(a), Val::S(b)) => {
                let mut a: Vec<&str> = a.split(',').collect();
                let mut b: Vec<&str> = b.split(',').collect();
                a.sort();
                b.sort();
                a == b
            }
            (a, b) => a == b,
        },
        Cmp::AnyOf => {
            if exp.cands.is_empty() {
                got == &Val::Null
            } else {
                exp.cands.contains(got)
            }
        }
    }
}

fn ranges(cut: &[usize]) -> Vec<(usize, usize)> {
    let mut out = vec![];
    let mut o = 0;
    for &c in cut {
        out.push((o, o + c));
        o += c;
    }
    out
}

struct Run<'a> {
    b: &'a Built,
    spec: &'a Spec,
    rows: &'a [Row],
    cache: &'a mut Cache,
    calls: u64,
}

enum Outcome {
    Checked,
    /// history not applicable to this function (e.g. re-ordering an order dependent aggregate)
    Skipped,
}

fn e2s<T>(what: &str, r: datafusion_common::Result<T>) -> Result<T, String> {
    r.map_err(|e| format!("{what} returned error: {e}"))
}

impl<'a> Run<'a> {
    fn args(&self, lo: usize, hi: usize) -> Result<Vec<ArrayRef>, String> {
        arg_arrays(self.b, self.spec, &self.rows[lo..hi])
    }

    fn mismatch(&self, what: &str, exp: &Expect, got: &Val) -> String {
        format!("{}: {what}: got {}, one-shot accumulation gives {}", self.spec.label(), got.show(), exp.val.show())
    }

    fn split(&mut self, cut: &[usize]) -> Result<Outcome, String> {
        let exp = match oneshot(self.b, self.spec, self.rows, self.cache) {
            Ok(e) => e,
            Err(_) => return Ok(Outcome::Skipped),
        };
        let mut acc = e2s("create_accumulator", self.b.agg.create_accumulator())?;
        for (lo, hi) in ranges(cut) {
            let a = self.args(lo, hi)?;
            e2s("update_batch", acc.update_batch(&a))?;
            self.calls += 1;
        }
        let got = val_of_scalar(&e2s("evaluate", acc.evaluate())?)?;
        self.calls += 1;
        if !agree(self.b.cmp, TOL, &exp, &got) {
            return Err(self.mismatch(&format!("batches cut as {cut:?}"), &exp, &got));
        }
        Ok(Outcome::Checked)
    }

    fn state_arrays(&mut self, acc: &mut Box<dyn Accumulator>) -> Result<Vec<ArrayRef>, String> {
        let st = e2s("state", acc.state())?;
        self.calls += 1;
        st.iter().map(|s| s.to_array().map_err(|e| format!("state to_array: {e}"))).collect()
    }

    fn merge(
        &mut self,
        cut: &[usize],
        assign: &[usize],
        extra_empty: bool,
        order: &[usize],
        concat_states: bool,
        relay: bool,
    ) -> Result<Outcome, String> {
        let exp = match oneshot(self.b, self.spec, self.rows, self.cache) {
            Ok(e) => e,
            Err(_) => return Ok(Outcome::Skipped),
        };
        let nparts = assign.iter().max().map(|m| m + 1).unwrap_or(1) + usize::from(extra_empty);
        let in_order = assign.windows(2).all(|w| w[0] <= w[1]) && order.windows(2).all(|w| w[0] < w[1]);
        let mut cmp = self.b.cmp;
        if (self.b.inherent_order || self.b.needs_sorted && false) && !in_order {
            match self.b.loose {
                Some(l) => cmp = l,
                None => return Ok(Outcome::Skipped),
            }
        }
        let rs = ranges(cut);
        let mut states: Vec<Vec<ArrayRef>> = vec![];
        for p in 0..nparts {
            let mut acc = e2s("create_accumulator", self.b.agg.create_accumulator())?;
            for (bi, (lo, hi)) in rs.iter().enumerate() {
                if assign[bi] == p {
                    let a = self.args(*lo, *hi)?;
                    e2s("update_batch", acc.update_batch(&a))?;
                    self.calls += 1;
                }
            }
            states.push(self.state_arrays(&mut acc)?);
        }
        let mut ordered: Vec<Vec<ArrayRef>> = order.iter().map(|p| states[*p].clone()).collect();
        if relay {
            let mut mid = e2s("create_accumulator", self.b.agg_final.create_accumulator())?;
            for s in &ordered {
                e2s("merge_batch", mid.merge_batch(s))?;
                self.calls += 1;
            }
            ordered = vec![self.state_arrays(&mut mid)?];
        }
        let mut fin = e2s("create_accumulator", self.b.agg_final.create_accumulator())?;
        if concat_states && ordered.len() > 1 {
            let ncol = ordered[0].len();
            let mut cols = vec![];
            for c in 0..ncol {
                let parts: Vec<&dyn Array> = ordered.iter().map(|s| s[c].as_ref()).collect();
                cols.push(concat(&parts).map_err(|e| format!("concat of state column {c}: {e}"))?);
            }
            e2s("merge_batch", fin.merge_batch(&cols))?;
            self.calls += 1;
        } else {
            for s in &ordered {
                e2s("merge_batch", fin.merge_batch(s))?;
                self.calls += 1;
            }
        }
        let got = val_of_scalar(&e2s("evaluate", fin.evaluate())?)?;
        self.calls += 1;
        if !agree(cmp, TOL, &exp, &got) {
            return Err(self.mismatch(
                &format!(
                    "batches {cut:?} assigned to partitions {assign:?}{}, states merged in order {order:?}{}{}",
                    if extra_empty { " plus one empty partition" } else { "" },
                    if concat_states { " in one merge_batch call" } else { "" },
                    if relay { " through an intermediate accumulator" } else { "" }
                ),
                &exp,
                &got,
            ));
        }
        Ok(Outcome::Checked)
    }

    fn slide(&mut self, windows: &[(usize, usize)]) -> Result<Outcome, String> {
        if self.spec.order.is_some() {
            // window expressions hand only the argument columns to the accumulator
            // (`AggregateFunctionExpr::expressions()`), never the ORDER BY columns
            return Ok(Outcome::Skipped);
        }
        let mut acc = match self.b.agg.create_sliding_accumulator() {
            Ok(a) => a,
            Err(_) => return Ok(Outcome::Skipped),
        };
        let (mut llo, mut lhi) = (0usize, 0usize);
        for (step, &(lo, hi)) in windows.iter().enumerate() {
            if lo == hi {
                // empty frame: the window expression retracts the whole previous frame
                // and reports the default value without consulting the accumulator
                if lhi > llo {
                    let a = self.args(llo, lhi)?;
                    e2s("retract_batch", acc.retract_batch(&a))?;
                    self.calls += 1;
                }
            } else {
                if hi > lhi {
                    let a = self.args(lhi, hi)?;
                    e2s("update_batch", acc.update_batch(&a))?;
                    self.calls += 1;
                }
                if lo > llo {
                    let a = self.args(llo, lo)?;
                    e2s("retract_batch", acc.retract_batch(&a))?;
                    self.calls += 1;
                }
                let got = val_of_scalar(&e2s("evaluate", acc.evaluate())?)?;
                self.calls += 1;
                let exp = match oneshot(self.b, self.spec, &self.rows[lo..hi], self.cache) {
                    Ok(e) => e,
                    Err(_) => return Ok(Outcome::Skipped),
                };
                if !agree(self.b.cmp, TOL_RETRACT, &exp, &got) {
                    return Err(self.mismatch(
                        &format!("sliding accumulator after window schedule {:?} (frame rows[{lo}..{hi}])", &windows[..=step]),
                        &exp,
                        &got,
                    ));
                }
            }
            llo = lo;
            lhi = hi;
        }
        Ok(Outcome::Checked)
    }

    fn gacc(&self, final_stage: bool) -> Result<Box<dyn GroupsAccumulator>, String> {
        let agg = Arc::clone(if final_stage { &self.b.agg_final } else { &self.b.agg });
        if self.b.native_groups {
            e2s("create_groups_accumulator", agg.create_groups_accumulator())
        } else {
            Ok(Box::new(GroupsAccumulatorAdapter::new(move || agg.create_accumulator())))
        }
    }

    fn groups(
        &mut self,
        groups: &[usize],
        filter: Option<&[u8]>,
        cut: &[usize],
        mode: &GMode,
    ) -> Result<Outcome, String> {
        let n = self.rows.len();
        if n == 0 {
            return Ok(Outcome::Skipped);
        }
        let ng = groups.iter().max().unwrap() + 1;
        let pass = |i: usize| filter.map(|f| f[i] == 1).unwrap_or(true);
        // expected value per group
        let mut expected = vec![];
        for g in 0..ng {
            let sub: Vec<Row> =
                (0..n).filter(|&i| groups[i] == g && pass(i)).map(|i| self.rows[i].clone()).collect();
            match oneshot(self.b, self.spec, &sub, self.cache) {
                Ok(e) => expected.push(e),
                Err(_) => return Ok(Outcome::Skipped),
            }
        }
        let rs = ranges(cut);
        let filt = |lo: usize, hi: usize| -> Option<BooleanArray> {
            filter.map(|f| {
                BooleanArray::from(
                    f[lo..hi]
                        .iter()
                        .map(|c| match c {
                            0 => Some(false),
                            1 => Some(true),
                            _ => None,
                        })
                        .collect::<Vec<_>>(),
                )
            })
        };
        let mut cmp = self.b.cmp;
        let mut out: Vec<Option<Val>> = vec![None; ng];
        let describe;
        match mode {
            GMode::Eval { emits } | GMode::State { emits } => {
                let partial = matches!(mode, GMode::State { .. });
                let mut acc = self.gacc(false)?;
                let (mut shift, mut seen) = (0usize, 0usize);
                let mut chunks: Vec<(Vec<ArrayRef>, Vec<usize>)> = vec![];
                let mut emitted: Vec<Val> = vec![];
                let mut take = |this: &mut Self,
                                acc: &mut Box<dyn GroupsAccumulator>,
                                e: EmitTo,
                                ids: Vec<usize>|
                 -> Result<(), String> {
                    if partial {
                        let st = e2s("state", acc.state(e))?;
                        this.calls += 1;
                        for c in &st {
                            if c.len() != ids.len() {
                                return Err(format!(
                                    "{}: state({e:?}) returned {} rows for {} groups",
                                    this.spec.label(),
                                    c.len(),
                                    ids.len()
                                ));
                            }
                        }
                        chunks.push((st, ids));
                    } else {
                        let a = e2s("evaluate", acc.evaluate(e))?;
                        this.calls += 1;
                        if a.len() != ids.len() {
                            return Err(format!(
                                "{}: evaluate({e:?}) returned {} rows for {} groups",
                                this.spec.label(),
                                a.len(),
                                ids.len()
                            ));
                        }
                        for i in 0..a.len() {
                            emitted.push(val_at(a.as_ref(), i));
                        }
                    }
                    Ok(())
                };
                for (bi, (lo, hi)) in rs.iter().enumerate() {
                    seen = seen.max(groups[*lo..*hi].iter().max().unwrap() + 1);
                    let gi: Vec<usize> = groups[*lo..*hi].iter().map(|g| g - shift).collect();
                    let a = self.args(*lo, *hi)?;
                    let f = filt(*lo, *hi);
                    e2s("update_batch", acc.update_batch(&a, &gi, f.as_ref(), seen - shift))?;
                    self.calls += 1;
                    for (j, k) in emits {
                        if *j == bi + 1 {
                            take(self, &mut acc, EmitTo::First(*k), (shift..shift + k).collect())?;
                            shift += k;
                        }
                    }
                }
                take(self, &mut acc, EmitTo::All, (shift..ng).collect())?;
                if partial {
                    let mut fin = self.gacc(true)?;
                    for (st, ids) in &chunks {
                        if ids.is_empty() {
                            continue;
                        }
                        let total = ids.iter().max().unwrap() + 1;
                        e2s("merge_batch", fin.merge_batch(st, ids, total))?;
                        self.calls += 1;
                    }
                    let a = e2s("evaluate", fin.evaluate(EmitTo::All))?;
                    self.calls += 1;
                    if a.len() != ng {
                        return Err(format!("{}: final evaluate(All) returned {} rows for {ng} groups", self.spec.label(), a.len()));
                    }
                    for g in 0..ng {
                        out[g] = Some(val_at(a.as_ref(), g));
                    }
                } else {
                    for (g, v) in emitted.into_iter().enumerate() {
                        out[g] = Some(v);
                    }
                }
                describe = format!(
                    "{} groups accumulator, {}, EmitTo::First at (after batch, k) = {emits:?}",
                    if self.b.native_groups { "native" } else { "adapter" },
                    if partial { "partial state() -> final merge_batch -> evaluate" } else { "update_batch -> evaluate" }
                );
            }
            GMode::Parts { assign, order } => {
                let nparts = assign.iter().max().unwrap() + 1;
                // a group's rows keep their relative order iff its partitions ascend and merge order is identity
                let in_order = order.windows(2).all(|w| w[0] < w[1])
                    && (0..ng).all(|g| {
                        let ps: Vec<usize> = rs
                            .iter()
                            .enumerate()
                            .flat_map(|(bi, (lo, hi))| (*lo..*hi).filter(|i| groups[*i] == g).map(move |_| assign[bi]))
                            .collect();
                        ps.windows(2).all(|w| w[0] <= w[1])
                    });
                if self.b.inherent_order && !in_order {
                    match self.b.loose {
                        Some(l) => cmp = l,
                        None => return Ok(Outcome::Skipped),
                    }
                }
                let mut part_states: Vec<(Vec<ArrayRef>, Vec<usize>)> = vec![];
                for p in 0..nparts {
                    let mut acc = self.gacc(false)?;
                    let mut local: Vec<usize> = vec![]; // local id -> global id
                    for (bi, (lo, hi)) in rs.iter().enumerate() {
                        if assign[bi] != p {
                            continue;
                        }
                        let gi: Vec<usize> = groups[*lo..*hi]
                            .iter()
                            .map(|g| match local.iter().position(|x| x == g) {
                                Some(i) => i,
                                None => {
                                    local.push(*g);
                                    local.len() - 1
                                }
                            })
                            .collect();
                        let a = self.args(*lo, *hi)?;
                        let f = filt(*lo, *hi);
                        e2s("update_batch", acc.update_batch(&a, &gi, f.as_ref(), local.len()))?;
                        self.calls += 1;
                    }
                    let st = e2s("state", acc.state(EmitTo::All))?;
                    self.calls += 1;
                    for c in &st {
                        if c.len() != local.len() {
                            return Err(format!(
                                "{}: state(All) returned {} rows for {} groups",
                                self.spec.label(),
                                c.len(),
                                local.len()
                            ));
                        }
                    }
                    part_states.push((st, local));
                }
                let mut fin = self.gacc(true)?;
                let mut final_ids: Vec<usize> = vec![]; // final id -> global id
                for p in order {
                    let (st, local) = &part_states[*p];
                    if local.is_empty() {
                        continue;
                    }
                    let ids: Vec<usize> = local
                        .iter()
                        .map(|g| match final_ids.iter().position(|x| x == g) {
                            Some(i) => i,
                            None => {
                                final_ids.push(*g);
                                final_ids.len() - 1
                            }
                        })
                        .collect();
                    e2s("merge_batch", fin.merge_batch(st, &ids, final_ids.len()))?;
                    self.calls += 1;
                }
                let a = e2s("evaluate", fin.evaluate(EmitTo::All))?;
                self.calls += 1;
                if a.len() != final_ids.len() {
                    return Err(format!(
                        "{}: final evaluate(All) returned {} rows for {} groups",
                        self.spec.label(),
                        a.len(),
                        final_ids.len()
                    ));
                }
                for (fi, g) in final_ids.iter().enumerate() {
                    out[*g] = Some(val_at(a.as_ref(), fi));
                }
                describe = format!(
                    "{} groups accumulator, batches assigned to partitions {assign:?}, partial states merged in order {order:?}",
                    if self.b.native_groups { "native" } else { "adapter" }
                );
            }
            GMode::Convert { after } => {
                let mut partial = self.gacc(false)?;
                let mut fin = self.gacc(true)?;
                let mut final_ids: Vec<usize> = vec![];
                let intern = |g: usize, final_ids: &mut Vec<usize>| match final_ids.iter().position(|x| *x == g) {
                    Some(i) => i,
                    None => {
                        final_ids.push(g);
                        final_ids.len() - 1
                    }
                };
                if *after > 0 {
                    let mut local: Vec<usize> = vec![];
                    for (lo, hi) in rs.iter().take(*after) {
                        let gi: Vec<usize> = groups[*lo..*hi].iter().map(|g| intern(*g, &mut local)).collect();
                        let a = self.args(*lo, *hi)?;
                        let f = filt(*lo, *hi);
                        e2s("update_batch", partial.update_batch(&a, &gi, f.as_ref(), local.len()))?;
                        self.calls += 1;
                    }
                    let st = e2s("state", partial.state(EmitTo::All))?;
                    self.calls += 1;
                    let ids: Vec<usize> = local.iter().map(|g| intern(*g, &mut final_ids)).collect();
                    e2s("merge_batch", fin.merge_batch(&st, &ids, final_ids.len()))?;
                    self.calls += 1;
                }
                for (lo, hi) in rs.iter().skip(*after) {
                    let a = self.args(*lo, *hi)?;
                    let f = filt(*lo, *hi);
                    let st = e2s("convert_to_state", partial.convert_to_state(&a, f.as_ref()))?;
                    self.calls += 1;
                    for c in &st {
                        if c.len() != hi - lo {
                            return Err(format!(
                                "{}: convert_to_state returned {} rows for {} input rows",
                                self.spec.label(),
                                c.len(),
                                hi - lo
                            ));
                        }
                    }
                    let ids: Vec<usize> = groups[*lo..*hi].iter().map(|g| intern(*g, &mut final_ids)).collect();
                    e2s("merge_batch", fin.merge_batch(&st, &ids, final_ids.len()))?;
                    self.calls += 1;
                }
                let a = e2s("evaluate", fin.evaluate(EmitTo::All))?;
                self.calls += 1;
                if a.len() != final_ids.len() {
                    return Err(format!(
                        "{}: final evaluate(All) returned {} rows for {} groups",
                        self.spec.label(),
                        a.len(),
                        final_ids.len()
                    ));
                }
                for (fi, g) in final_ids.iter().enumerate() {
                    out[*g] = Some(val_at(a.as_ref(), fi));
                }
                describe = format!(
                    "{} groups accumulator, first {after} batch(es) aggregated then state(All), remaining batches through convert_to_state, all merged into a final accumulator",
                    if self.b.native_groups { "native" } else { "adapter" }
                );
            }
        }
        for g in 0..ng {
            let got = out[g].clone().ok_or_else(|| format!("{}: group {g} missing from output", self.spec.label()))?;
            if !agree(cmp, TOL, &expected[g], &got) {
                return Err(self.mismatch(
                    &format!("{describe}; group indices {groups:?}, filter {filter:?}, batches cut {cut:?}; group {g}"),
                    &expected[g],
                    &got,
                ));
            }
        }
        Ok(Outcome::Checked)
    }

    fn run(&mut self, h: &Hist) -> Result<Outcome, String> {
        match h {
            Hist::Split { cut } => self.split(cut),
            Hist::Merge { cut, assign, extra_empty, order, concat, relay } => {
                self.merge(cut, assign, *extra_empty, order, *concat, *relay)
            }
            Hist::Slide { windows } => self.slide(windows),
            Hist::Groups { groups, filter, cut, mode } => self.groups(groups, filter.as_deref(), cut, mode),
        }
    }
}

// ---------------------------------------------------------------------------
// history enumeration (depends only on the number of rows)
// ---------------------------------------------------------------------------

fn acc_hists(n: usize) -> Vec<Hist> {
    let mut out = vec![];
    for cut in enumerate::splits(n, n.max(1)) {
        out.push(Hist::Split { cut: cut.clone() });
        let nb = cut.len();
        let assigns = if nb == 0 { vec![vec![]] } else { enumerate::partitions_up_to_renaming(nb, 2) };
        for assign in assigns {
            let np = assign.iter().max().map(|m| m + 1).unwrap_or(1);
            for extra_empty in [false, true] {
                if extra_empty && np == 2 {
                    continue;
                }
                let parts = np + usize::from(extra_empty);
                let orders: Vec<Vec<usize>> = if parts == 1 { vec![vec![0]] } else { vec![vec![0, 1], vec![1, 0]] };
                for order in orders {
                    for (concat, relay) in [(false, false), (true, false), (false, true)] {
                        if concat && parts == 1 {
                            continue;
                        }
                        out.push(Hist::Merge {
                            cut: cut.clone(),
                            assign: assign.clone(),
                            extra_empty,
                            order: order.clone(),
                            concat,
                            relay,
                        });
                    }
                }
            }
        }
    }
    out
}

fn slide_hists(n: usize, max_windows: usize) -> Vec<Hist> {
    // all sequences of 1..=max_windows windows (lo,hi), 0<=lo<=hi<=n, lo and hi non-decreasing
    let mut out = vec![];
    fn rec(n: usize, left: usize, cur: &mut Vec<(usize, usize)>, out: &mut Vec<Hist>) {
        if !cur.is_empty() {
            out.push(Hist::Slide { windows: cur.clone() });
        }
        if left == 0 {
            return;
        }
        let (plo, phi) = cur.last().cloned().unwrap_or((0, 0));
        for lo in plo..=n {
            for hi in phi.max(lo)..=n {
                if !cur.is_empty() && (lo, hi) == (plo, phi) {
                    continue; // repeating the same frame calls nothing new
                }
                cur.push((lo, hi));
                rec(n, left - 1, cur, out);
                cur.pop();
            }
        }
    }
    rec(n, max_windows, &mut vec![], &mut out);
    // keep only maximal-information schedules: a schedule is checked step by step, so
    // every proper prefix is covered by its extensions; drop prefixes that have an extension
    let set: HashSet<Vec<(usize, usize)>> = out
        .iter()
        .map(|h| match h {
            Hist::Slide { windows } => windows.clone(),
            _ => unreachable!(),
        })
        .collect();
    out.retain(|h| match h {
        Hist::Slide { windows } => {
            if windows.len() == max_windows {
                return true;
            }
            // has an extension in the set?
            !set.iter().any(|w| w.len() == windows.len() + 1 && w[..windows.len()] == windows[..])
        }
        _ => true,
    });
    // simplest first: fewest empty frames, then lexicographic
    out.sort_by_key(|h| match h {
        Hist::Slide { windows } => (windows.iter().filter(|w| w.0 == w.1).count(), windows.clone()),
        _ => unreachable!(),
    });
    out
}

fn group_hists(n: usize, null_filters: bool, max_emits: usize) -> Vec<Hist> {
    let mut out = vec![];
    if n == 0 {
        return out;
    }
    let mut filters: Vec<Option<Vec<u8>>> = vec![None];
    if null_filters {
        for f in enumerate::sequences(&[1u8, 0, 2], n, n) {
            filters.push(Some(f));
        }
    } else {
        for m in enumerate::masks(n) {
            filters.push(Some(m.iter().map(|b| u8::from(*b)).collect()));
        }
        // one mask with a NULL per position (the documented rule: only Some(true) passes)
        for i in 0..n {
            let mut f = vec![1u8; n];
            f[i] = 2;
            filters.push(Some(f));
        }
    }
    for groups in enumerate::partitions_up_to_renaming(n, 3) {
        for filter in &filters {
            for cut in enumerate::splits(n, n) {
                let rs = ranges(&cut);
                let nb = cut.len();
                // candidate emits (after batch j, First(k)): 1 <= k < groups seen, later rows only in groups >= k
                let mut emit_opts: Vec<Vec<(usize, usize)>> = vec![vec![]];
                let seen_after = |j: usize| groups[..rs[j - 1].1].iter().max().unwrap() + 1;
                let min_later = |j: usize| groups[rs[j - 1].1..].iter().min().cloned().unwrap_or(usize::MAX);
                for j in 1..=nb {
                    for k in 1..seen_after(j) {
                        if k <= min_later(j) {
                            emit_opts.push(vec![(j, k)]);
                            if max_emits >= 2 {
                                for j2 in j + 1..=nb {
                                    // second emit, expressed in shifted numbering
                                    let seen2 = seen_after(j2) - k;
                                    let min2 = min_later(j2).saturating_sub(k);
                                    for k2 in 1..seen2 {
                                        if k2 <= min2 {
                                            emit_opts.push(vec![(j, k), (j2, k2)]);
                                        }
                                    }
                                }
                            }
                        }
                    }
                }
                for emits in &emit_opts {
                    out.push(Hist::Groups {
                        groups: groups.clone(),
                        filter: filter.clone(),
                        cut: cut.clone(),
                        mode: GMode::Eval { emits: emits.clone() },
                    });
                    out.push(Hist::Groups {
                        groups: groups.clone(),
                        filter: filter.clone(),
                        cut: cut.clone(),
                        mode: GMode::State { emits: emits.clone() },
                    });
                }
                for assign in enumerate::partitions_up_to_renaming(nb, 2) {
                    if assign.iter().all(|a| *a == 0) {
                        continue; // one partition == State mode without emits
                    }
                    for order in [vec![0, 1], vec![1, 0]] {
                        out.push(Hist::Groups {
                            groups: groups.clone(),
                            filter: filter.clone(),
                            cut: cut.clone(),
                            mode: GMode::Parts { assign: assign.clone(), order },
                        });
                    }
                }
                for after in 0..nb {
                    out.push(Hist::Groups {
                        groups: groups.clone(),
                        filter: filter.clone(),
                        cut: cut.clone(),
                        mode: GMode::Convert { after },
                    });
                }
            }
        }
    }
    out
}

// ---------------------------------------------------------------------------
// catalogue of function specifications
// ---------------------------------------------------------------------------

const TDIGEST: [&str; 3] = ["approx_median", "approx_percentile_cont", "approx_percentile_cont_with_weight"];
const TWO_COL: [&str; 12] = [
    "covar_samp", "covar_pop", "corr", "regr_slope", "regr_intercept", "regr_count", "regr_r2", "regr_avgx",
    "regr_avgy", "regr_sxx", "regr_syy", "regr_sxy",
];
const DISTINCT_OK: [&str; 14] = [
    "count", "sum", "avg", "array_agg", "bit_and", "bit_or", "bit_xor", "median", "percentile_cont", "stddev",
    "stddev_pop", "var", "var_pop", "string_agg",
];
const ORDERABLE: [&str; 5] = ["first_value", "last_value", "array_agg", "nth_value", "string_agg"];

fn catalog(ctx: &Ctx) -> Vec<Spec> {
    let max_types = ctx.pick(3, 6);
    let mut out: Vec<Spec> = vec![];
    let mut rejected: BTreeMap<String, String> = BTreeMap::new();
    let try_push = |s: Spec, out: &mut Vec<Spec>, rejected: &mut BTreeMap<String, String>| -> bool {
        match mc_core::catch(|| build(&s)).unwrap_or_else(Err) {
            Ok(_) => {
                out.push(s);
                true
            }
            Err(e) => {
                rejected.insert(s.label(), e);
                false
            }
        }
    };
    for udf in registry() {
        let name = udf.name().to_string();
        if TDIGEST.contains(&name.as_str()) {
            ctx.count("functions_excluded_tdigest", 1);
            continue;
        }
        let before = out.len();
        let base = |tys: Vec<Ty>, lit: Option<Lit>| Spec {
            name: name.clone(),
            tys,
            lit,
            distinct: false,
            ignore_nulls: false,
            order: None,
        };
        if TWO_COL.contains(&name.as_str()) {
            try_push(base(vec![Ty::F64, Ty::F64], None), &mut out, &mut rejected);
        } else {
            let lits: Vec<Option<Lit>> = match name.as_str() {
                "nth_value" => vec![Some(Lit::I(1)), Some(Lit::I(2)), Some(Lit::I(-1))],
                "string_agg" => vec![Some(Lit::S(",".into()))],
                "percentile_cont" => vec![Some(Lit::F("0.5".into())), Some(Lit::F("0.25".into()))],
                _ => vec![None],
            };
            let mut accepted: Vec<Ty> = vec![];
            for t in TYPE_MENU {
                if accepted.len() >= max_types {
                    break;
                }
                let mut any = false;
                for l in &lits {
                    any |= try_push(base(vec![t], l.clone()), &mut out, &mut rejected);
                }
                if any {
                    accepted.push(t);
                }
            }
            // variants on the first (up to two) accepted types
            let vtypes: Vec<Ty> = accepted.iter().take(ctx.pick(2, 3)).cloned().collect();
            for t in &vtypes {
                let l0 = lits[0].clone();
                if DISTINCT_OK.contains(&name.as_str()) {
                    let mut s = base(vec![*t], l0.clone());
                    s.distinct = true;
                    try_push(s, &mut out, &mut rejected);
                }
                if udf.supports_null_handling_clause() {
                    let mut s = base(vec![*t], l0.clone());
                    s.ignore_nulls = true;
                    try_push(s, &mut out, &mut rejected);
                }
                if ORDERABLE.contains(&name.as_str()) {
                    for l in &lits {
                        for (desc, nulls_first, presorted) in
                            [(false, false, false), (true, true, false), (false, true, true), (true, false, true)]
                        {
                            for ignore_nulls in [false, true] {
                                if ignore_nulls && !udf.supports_null_handling_clause() {
                                    continue;
                                }
                                let mut s = base(vec![*t], l.clone());
                                s.ignore_nulls = ignore_nulls;
                                s.order = Some(Order { key: true, desc, nulls_first, presorted });
                                try_push(s, &mut out, &mut rejected);
                            }
                        }
                    }
                    if name == "array_agg" || name == "string_agg" {
                        for desc in [false, true] {
                            let mut s = base(vec![*t], l0.clone());
                            s.distinct = true;
                            s.order = Some(Order { key: false, desc, nulls_first: desc, presorted: false });
                            try_push(s, &mut out, &mut rejected);
                        }
                    }
                }
            }
        }
        if out.len() == before {
            ctx.count("functions_without_any_accepted_configuration", 1);
        } else {
            ctx.count("functions_checked", 1);
        }
    }
    ctx.count("specs_checked", out.len() as u64);
    ctx.count("specs_rejected_at_construction", rejected.len() as u64);
    // compact summary: per function, how many configurations were rejected and one reason each
    let mut per_fn: BTreeMap<String, (usize, String)> = BTreeMap::new();
    for (k, v) in &rejected {
        let f = k.split('(').next().unwrap_or("").to_string();
        let e = per_fn.entry(f).or_insert((0, v.chars().take(110).collect()));
        e.0 += 1;
    }
    ctx.set_extra(
        "rejected_at_construction",
        json!(per_fn.iter().map(|(f, (n, why))| format!("{f}: {n} configuration(s), e.g. {why}")).collect::<Vec<_>>()),
    );
    ctx.set_extra("specs", json!(out.iter().map(|s| s.label()).collect::<Vec<_>>()));
    out
}

// ---------------------------------------------------------------------------
// exploration
// ---------------------------------------------------------------------------

fn all_rows(spec: &Spec, len: usize) -> Vec<Vec<Row>> {
    // alphabet of rows = product of the column domains
    let doms = spec.doms();
    let mut alpha: Vec<Row> = vec![];
    let dims: Vec<usize> = doms.iter().map(|d| *d as usize).collect();
    enumerate::product(&dims, |idx| alpha.push(idx.iter().map(|i| *i as u8).collect()));
    enumerate::sequences(&alpha, len, len)
}

fn run_case(c: &Case) -> Result<(Outcome, u64), String> {
    let b = build(&c.spec).map_err(|e| format!("spec no longer builds: {e}"))?;
    let mut cache = Cache::new();
    let mut r = Run { b: &b, spec: &c.spec, rows: &c.rows, cache: &mut cache, calls: 0 };
    let o = r.run(&c.hist)?;
    Ok((o, r.calls))
}

struct Failure {
    spec_idx: usize,
    family: &'static str,
    hist_idx: usize,
    rows: Vec<Row>,
    hist: Hist,
    what: String,
}

fn explore(ctx: &Ctx) {
    let specs = catalog(ctx);
    let built: Vec<Built> = specs.iter().map(|s| build(s).expect("catalogued spec builds")).collect();
    let acc_n1 = ctx.pick(4, 5);
    let acc_n2 = ctx.pick(3, 4); // two-column functions: 9-row alphabet
    let grp_n1 = ctx.pick(3, 4);
    let grp_n2 = ctx.pick(2, 3);
    let sl_n1 = ctx.pick(3, 4);
    let sl_n2 = ctx.pick(3, 3);
    let null_filters = ctx.thorough();
    let grp_small_top = true; // both tiers: the longest group histories use NULL + the first two values
    let max_emits = ctx.pick(1, 2);
    ctx.set_extra(
        "bounds",
        json!({
            "functions": "all_default_aggregate_functions() minus the t-digest family; argument types from a 12-type menu that the signature accepts unchanged",
            "max_types_per_function": ctx.pick(3, 6),
            "domain": "per type NULL + 3 ascending non-NULL values (Boolean: NULL,false,true); two-argument functions: (NULL,-0.5,1.0)^2",
            "accumulator_rows_max": {"one_column": acc_n1, "two_column": acc_n2},
            "accumulator_histories": "all cuts into batches; all assignments of batches to <= 2 partitions (+ optional empty partition); both merge orders; per-partition or concatenated merge_batch; optional relay accumulator",
            "groups_rows_max": {"one_column": grp_n1, "two_column": grp_n2, "note": if grp_small_top {"sequences of the maximal length use NULL + the first two domain values only"} else {"full domain at every length"}},
            "groups_histories": format!("all group-index vectors over <= 3 groups (first-seen numbering); filters: none, all T/F masks{}; all cuts; modes Eval/State with <= {max_emits} EmitTo::First, Parts (2 partitions, both merge orders), Convert(after = 0..batches)", if null_filters {" and all masks with NULL (rows <= 3; one NULL per position and <= 1 emit at 4 rows)"} else {", one NULL per position"}),
            "slide_rows_max": {"one_column": sl_n1, "two_column": sl_n2},
            "slide_histories": "all non-decreasing (lo,hi) window schedules with <= rows windows",
            "tolerance": {"float moment functions and avg over floats": TOL, "same, retract histories": TOL_RETRACT, "everything else": "exact"},
        }),
    );
    ctx.assume("batches are freshly built plain arrays (no slices/dictionaries); physical encodings are the subject of other properties");
    ctx.assume("order-dependent aggregates without ORDER BY (first_value, last_value, nth_value, array_agg, string_agg) are compared exactly only when every history keeps the row order; re-ordering histories compare array_agg/string_agg as multisets and are skipped for the others; any_value may return any non-NULL input");
    ctx.assume("ORDER BY variants use a value column that is a function of the key, so ties cannot make the expected result ambiguous; HardRequirement/presorted variants only receive sorted inputs");

    let max_n = acc_n1.max(grp_n1).max(sl_n1);
    let acc_tab: Vec<Vec<Hist>> = (0..=max_n).map(acc_hists).collect();
    let grp_tab: Vec<Vec<Hist>> =
        (0..=max_n).map(|n| if n <= 3 { group_hists(n, null_filters, max_emits) } else { group_hists(n, false, 1) }).collect();
    let sl_tab: Vec<Vec<Hist>> = (0..=max_n).map(|n| if n == 0 { vec![] } else { slide_hists(n, n) }).collect();
    ctx.set_extra(
        "histories_per_row_count",
        json!({"accumulator": acc_tab.iter().map(|v| v.len()).collect::<Vec<_>>(),
               "groups": grp_tab.iter().map(|v| v.len()).collect::<Vec<_>>(),
               "slide": sl_tab.iter().map(|v| v.len()).collect::<Vec<_>>()}),
    );

    let dead: Mutex<HashSet<(usize, &'static str)>> = Mutex::new(HashSet::new());
    let classes: Mutex<HashSet<(String, bool, bool, &'static str)>> = Mutex::new(HashSet::new());
    let more: Mutex<Vec<String>> = Mutex::new(vec![]);
    for n in 0..=max_n {
        if ctx.should_stop() {
            break;
        }
        let mut work: Vec<(usize, Vec<Row>)> = vec![];
        for (si, s) in specs.iter().enumerate() {
            let two = s.tys.len() == 2;
            let lim = if two { acc_n2.max(grp_n2).max(sl_n2) } else { max_n };
            if n > lim {
                continue;
            }
            for rows in all_rows(s, n) {
                if built[si].needs_sorted && !is_sorted(s, &rows) {
                    continue;
                }
                work.push((si, rows));
            }
        }
        let failures: Mutex<Vec<Failure>> = Mutex::new(vec![]);
        work.par_iter().for_each(|(si, rows)| {
            if ctx.should_stop() {
                return;
            }
            let (s, b) = (&specs[*si], &built[*si]);
            let two = s.tys.len() == 2;
            let mut cache = Cache::new();
            let mut evals = 0u64;
            let mut skipped = 0u64;
            let mut calls = 0u64;
            let fams: [(&'static str, &Vec<Hist>, usize); 3] = [
                ("acc", &acc_tab[n], if two { acc_n2 } else { acc_n1 }),
                ("groups", &grp_tab[n], if two { grp_n2 } else { grp_n1 }),
                ("slide", &sl_tab[n], if two { sl_n2 } else { sl_n1 }),
            ];
            for (fam, hists, lim) in fams {
                if n > lim {
                    continue;
                }
                if fam == "groups" && grp_small_top && n == lim && n >= 3 && rows.iter().any(|r| r.iter().any(|i| *i > 2)) {
                    continue; // quick tier: the longest group histories draw from NULL + the first two values only
                }
                let mut fam_evals = 0u64;
                let mut failed_kinds: Vec<&'static str> = vec![];
                let dead_now: Vec<&'static str> =
                    dead.lock().unwrap().iter().filter(|(i, _)| i == si).map(|(_, k)| *k).collect();
                for (hi, h) in hists.iter().enumerate() {
                    let kind = h.family();
                    if dead_now.contains(&kind) || failed_kinds.contains(&kind) {
                        continue;
                    }
                    let mut r = Run { b, spec: s, rows, cache: &mut cache, calls: 0 };
                    let res = mc_core::catch(|| r.run(h)).unwrap_or_else(Err);
                    calls += r.calls;
                    match res {
                        Ok(Outcome::Checked) => fam_evals += 1,
                        Ok(Outcome::Skipped) => skipped += 1,
                        Err(what) => {
                            fam_evals += 1;
                            failures.lock().unwrap().push(Failure {
                                spec_idx: *si,
                                family: kind,
                                hist_idx: hi,
                                rows: rows.clone(),
                                hist: h.clone(),
                                what,
                            });
                            failed_kinds.push(kind); // simplest failing history of this kind is enough for this input
                        }
                    }
                }
                evals += fam_evals;
                if fam_evals > 0 {
                    ctx.count(&format!("histories_{fam}"), fam_evals);
                }
            }
            ctx.evals(evals);
            ctx.add_transitions(calls);
            ctx.add_states(1);
            ctx.count("histories_not_applicable", skipped);
            // non-trivial: at least two rows whose first argument is not NULL (splits and merges combine real state)
            let nonnull = rows
                .iter()
                .filter(|r| if s.keyed() { KEYMAP[r[0] as usize] != 0 } else { r[0] != 0 })
                .count();
            if evals > 0 && nonnull >= 2 {
                ctx.nontrivial(&(s, rows));
                if n >= 3 && ctx.want_sample() {
                    let h = acc_tab[n].iter().rev().find(|h| matches!(h, Hist::Merge { .. })).cloned();
                    if let Some(h) = h {
                        ctx.sample(json!({"case": Case { spec: s.clone(), rows: rows.clone(), hist: h }, "function": s.label()}));
                    }
                }
            }
        });
        // deterministic choice of the reported failure per (function spec, family): smallest rows, then earliest history
        let mut fs = failures.into_inner().unwrap();
        fs.sort_by(|a, b| (a.spec_idx, a.family, &a.rows, a.hist_idx).cmp(&(b.spec_idx, b.family, &b.rows, b.hist_idx)));
        for f in fs {
            if !dead.lock().unwrap().insert((f.spec_idx, f.family)) {
                continue;
            }
            // one reported violation per (function, DISTINCT?, ORDER BY?, family): the same defect shows up for
            // every argument type / literal of a function; the others are counted and listed, not hidden
            let sp = &specs[f.spec_idx];
            let class = (sp.name.clone(), sp.distinct, sp.order.is_some(), f.family);
            if !classes.lock().unwrap().insert(class) {
                ctx.count("violations_same_function_and_family_not_reported_separately", 1);
                more.lock().unwrap().push(format!("{} [{}] rows {:?}: {}", sp.label(), f.family, f.rows, f.what));
                continue;
            }
            let case = Case { spec: sp.clone(), rows: f.rows, hist: f.hist };
            let key = serde_json::to_string(&case).unwrap();
            ctx.violation(key, f.what, serde_json::to_value(&case).unwrap());
        }
    }
    let more = more.into_inner().unwrap();
    if !more.is_empty() {
        ctx.set_extra("further_failing_specs", json!(more));
    }
}

fn replay(v: &Value) -> Result<(), String> {
    let v = v.get("case").cloned().unwrap_or(v.clone());
    let c: Case = serde_json::from_value(v).map_err(|e| format!("bad case: {e}"))?;
    let _ = c.hist.family();
    mc_core::catch(|| run_case(&c)).unwrap_or_else(Err).map(|_| ())
}

fn main() {
    mc_core::quiet_panics();
    run_check(
        "C07",
        Level::ModelChecking,
        "every (aggregate function, accepted argument type, DISTINCT/IGNORE NULLS/ORDER BY variant) x every row sequence up to the length bound over the per-type domain x every history of the families split / partition+merge / sliding retract / groups accumulator (group vectors, filters, emit-prefix, state, convert_to_state); one evaluation = one history run on fresh real accumulators and compared with the one-shot accumulation of the same rows; transitions = calls of update_batch/merge_batch/state/evaluate/retract_batch/convert_to_state; non-trivial = (function spec, row sequence) with at least two rows whose argument is not NULL",
        explore,
        replay,
    );
}
