//! C13 — group key interning numbers distinct keys densely and consistently.
//!
//! Style H (operation histories).  Subject: the real `Box<dyn GroupValues>`
//! returned by `new_group_values(schema, ordering)` for ~45 key schemas (every
//! single-column specialisation, `GroupValuesColumn<false|true>` with every
//! `GroupColumn` builder, the row-backed column and the `GroupValuesRows`
//! fallback).  Alphabet: `intern(batch)` for every batch of ≤ 2 (thorough: ≤ 3 in
//! the de-duplicated phase) keys over a 3–5 key per-schema alphabet (NULLs, the
//! type's default value, long/short view strings sharing a prefix, keys whose
//! multi-column hashes collide *structurally*), `emit(All)`, `emit(First(n))`
//! for 1 ≤ n ≤ len, `clear_shrink(0|2)`.  Histories follow the protocol every caller in
//! /repo follows: `clear_shrink` only on an empty store, and `emit(All)` is followed
//! by `clear_shrink` before the next `intern`.
//!
//! Two exhaustive phases per (schema, ordering, input encoding):
//!  * `full`  — every history up to depth dA, no de-duplication;
//!  * `dedup` — BFS to depth dB with states merged by the *reference* state
//!    (ordered live key list) refined by a small abstraction of hidden state
//!    (how the store last became empty, NULL seen / partial emit since then).
//!
//! Reference model: `Vec<key>`; see `run_history` for the exact demands.
use std::collections::{BTreeMap, HashMap, HashSet};
use std::sync::{Arc, Mutex};

use arrow::array::*;
use arrow::buffer::{NullBuffer, OffsetBuffer, ScalarBuffer};
use arrow::datatypes::*;
use datafusion_expr::EmitTo;
use datafusion_physical_plan::InputOrderMode;
use datafusion_physical_plan::aggregates::group_values::{GroupValues, new_group_values};
use datafusion_physical_plan::aggregates::order::GroupOrdering;
use mc_core::serde_json::{Value, json};
use mc_core::{Ctx, Level, rayon::prelude::*, run_check};
use serde::{Deserialize, Serialize};

// ---------------------------------------------------------------------------
// logical values and array construction (every physical encoding used as input)
// ---------------------------------------------------------------------------

/// One logical cell.  `F` holds f64 bits; `S` is used for every string / binary type.
#[derive(Clone, Debug, PartialEq, Eq, Hash, PartialOrd, Ord, Serialize, Deserialize)]
enum V {
    N,
    I(i64),
    F(u64),
    B(bool),
    S(String),
    T(Vec<V>), // struct
    L(Vec<V>), // list
}

fn f(x: f64) -> V {
    V::F(x.to_bits())
}
fn s(x: &str) -> V {
    V::S(x.to_string())
}

type F16 = <Float16Type as ArrowPrimitiveType>::Native;

fn as_i(v: &V) -> i64 {
    match v {
        V::I(i) => *i,
        other => panic!("harness: expected integer value, got {other:?}"),
    }
}
fn as_f(v: &V) -> f64 {
    match v {
        V::F(b) => f64::from_bits(*b),
        other => panic!("harness: expected float value, got {other:?}"),
    }
}
fn as_s(v: &V) -> &str {
    match v {
        V::S(x) => x,
        other => panic!("harness: expected string value, got {other:?}"),
    }
}

/// Value stored under a NULL slot: the type default (enc 0) or a live-looking
/// value (enc ≥ 1: "garbage under NULL").
fn fill_value(dt: &DataType, garbage: bool) -> V {
    match dt {
        DataType::Boolean => V::B(garbage),
        DataType::Float16 | DataType::Float32 | DataType::Float64 => f(if garbage { 1.5 } else { 0.0 }),
        DataType::Utf8
        | DataType::LargeUtf8
        | DataType::Utf8View
        | DataType::Binary
        | DataType::LargeBinary
        | DataType::BinaryView => s(if garbage { "a" } else { "" }),
        DataType::FixedSizeBinary(n) => V::S(if garbage { "b" } else { "\0" }.repeat(*n as usize)),
        _ => V::I(if garbage { 1 } else { 0 }),
    }
}

/// Build a flat (non-nested, non-dictionary) array from values without NULLs.
fn build_flat_nonnull(dt: &DataType, vals: &[V]) -> ArrayRef {
    macro_rules! prim {
        ($T:ty, $conv:expr) => {{
            let v: Vec<<$T as ArrowPrimitiveType>::Native> = vals.iter().map($conv).collect();
            Arc::new(PrimitiveArray::<$T>::new(ScalarBuffer::from(v), None).with_data_type(dt.clone())) as ArrayRef
        }};
    }
    match dt {
        DataType::Int8 => prim!(Int8Type, |v| as_i(v) as i8),
        DataType::Int16 => prim!(Int16Type, |v| as_i(v) as i16),
        DataType::Int32 => prim!(Int32Type, |v| as_i(v) as i32),
        DataType::Int64 => prim!(Int64Type, |v| as_i(v)),
        DataType::UInt8 => prim!(UInt8Type, |v| as_i(v) as u8),
        DataType::UInt16 => prim!(UInt16Type, |v| as_i(v) as u16),
        DataType::UInt32 => prim!(UInt32Type, |v| as_i(v) as u32),
        DataType::UInt64 => prim!(UInt64Type, |v| as_i(v) as u64),
        DataType::Float16 => prim!(Float16Type, |v| F16::from_f64(as_f(v))),
        DataType::Float32 => prim!(Float32Type, |v| as_f(v) as f32),
        DataType::Float64 => prim!(Float64Type, |v| as_f(v)),
        DataType::Date32 => prim!(Date32Type, |v| as_i(v) as i32),
        DataType::Date64 => prim!(Date64Type, |v| as_i(v)),
        DataType::Time32(TimeUnit::Second) => prim!(Time32SecondType, |v| as_i(v) as i32),
        DataType::Time32(TimeUnit::Millisecond) => prim!(Time32MillisecondType, |v| as_i(v) as i32),
        DataType::Time64(TimeUnit::Microsecond) => prim!(Time64MicrosecondType, |v| as_i(v)),
        DataType::Time64(TimeUnit::Nanosecond) => prim!(Time64NanosecondType, |v| as_i(v)),
        DataType::Timestamp(TimeUnit::Second, _) => prim!(TimestampSecondType, |v| as_i(v)),
        DataType::Timestamp(TimeUnit::Millisecond, _) => prim!(TimestampMillisecondType, |v| as_i(v)),
        DataType::Timestamp(TimeUnit::Microsecond, _) => prim!(TimestampMicrosecondType, |v| as_i(v)),
        DataType::Timestamp(TimeUnit::Nanosecond, _) => prim!(TimestampNanosecondType, |v| as_i(v)),
        DataType::Duration(TimeUnit::Second) => prim!(DurationSecondType, |v| as_i(v)),
        DataType::Duration(TimeUnit::Millisecond) => prim!(DurationMillisecondType, |v| as_i(v)),
        DataType::Duration(TimeUnit::Microsecond) => prim!(DurationMicrosecondType, |v| as_i(v)),
        DataType::Duration(TimeUnit::Nanosecond) => prim!(DurationNanosecondType, |v| as_i(v)),
        DataType::Interval(IntervalUnit::YearMonth) => prim!(IntervalYearMonthType, |v| as_i(v) as i32),
        DataType::Interval(IntervalUnit::DayTime) => {
            prim!(IntervalDayTimeType, |v| IntervalDayTime::new(as_i(v) as i32, 2 * as_i(v) as i32))
        }
        DataType::Interval(IntervalUnit::MonthDayNano) => prim!(IntervalMonthDayNanoType, |v| {
            IntervalMonthDayNano::new(as_i(v) as i32, -(as_i(v) as i32), 3 * as_i(v))
        }),
        DataType::Decimal32(_, _) => prim!(Decimal32Type, |v| as_i(v) as i32),
        DataType::Decimal64(_, _) => prim!(Decimal64Type, |v| as_i(v)),
        DataType::Decimal128(_, _) => prim!(Decimal128Type, |v| as_i(v) as i128),
        DataType::Decimal256(_, _) => prim!(Decimal256Type, |v| i256::from_i128(as_i(v) as i128)),
        DataType::Boolean => Arc::new(BooleanArray::from(
            vals.iter()
                .map(|v| match v {
                    V::B(b) => *b,
                    o => panic!("harness: expected bool, got {o:?}"),
                })
                .collect::<Vec<bool>>(),
        )),
        DataType::Utf8 => Arc::new(StringArray::from_iter_values(vals.iter().map(as_s))),
        DataType::LargeUtf8 => Arc::new(LargeStringArray::from_iter_values(vals.iter().map(as_s))),
        DataType::Utf8View => Arc::new(StringViewArray::from_iter_values(vals.iter().map(as_s))),
        DataType::Binary => Arc::new(BinaryArray::from_iter_values(vals.iter().map(|v| as_s(v).as_bytes()))),
        DataType::LargeBinary => Arc::new(LargeBinaryArray::from_iter_values(vals.iter().map(|v| as_s(v).as_bytes()))),
        DataType::BinaryView => Arc::new(BinaryViewArray::from_iter_values(vals.iter().map(|v| as_s(v).as_bytes()))),
        DataType::FixedSizeBinary(n) => {
            let mut bytes = vec![];
            for v in vals {
                let b = as_s(v).as_bytes();
                assert_eq!(b.len(), *n as usize, "harness: fixed size binary value of wrong width");
                bytes.extend_from_slice(b);
            }
            Arc::new(FixedSizeBinaryArray::new(*n, bytes.into(), None))
        }
        other => panic!("harness: unsupported flat type {other}"),
    }
}

/// Attach a validity buffer to a flat array (values under NULL stay as built).
fn with_nulls(arr: ArrayRef, valid: Vec<bool>) -> ArrayRef {
    let data = arr.to_data().into_builder().nulls(Some(NullBuffer::from(valid))).build().expect("harness: re-wrapping nulls");
    make_array(data)
}

/// Build an array of any supported type.  `enc`: 0 = plain (validity buffer only
/// when a NULL is present, default value under NULL, dense dictionaries,
/// one run per element); ≥ 1 = validity buffer always present, live-looking
/// value under NULL, reversed dictionary with an unused entry, merged runs;
/// 2 = (dictionary) NULL expressed as a NULL dictionary *value* behind a valid key.
fn build_inner(dt: &DataType, vals: &[V], enc: u8) -> ArrayRef {
    let n = vals.len();
    match dt {
        DataType::Null => Arc::new(NullArray::new(n)),
        DataType::Struct(fields) => {
            let valid: Vec<bool> = vals.iter().map(|v| *v != V::N).collect();
            let children: Vec<ArrayRef> = fields
                .iter()
                .enumerate()
                .map(|(ci, fld)| {
                    let child_vals: Vec<V> = vals
                        .iter()
                        .map(|v| match v {
                            V::T(cs) => cs[ci].clone(),
                            V::N => {
                                if enc == 0 {
                                    V::N
                                } else {
                                    fill_value(fld.data_type(), true)
                                }
                            }
                            o => panic!("harness: expected struct, got {o:?}"),
                        })
                        .collect();
                    build_inner(fld.data_type(), &child_vals, enc)
                })
                .collect();
            let nulls = if valid.iter().all(|b| *b) && enc == 0 { None } else { Some(NullBuffer::from(valid)) };
            Arc::new(StructArray::new(fields.clone(), children, nulls))
        }
        DataType::List(fld) => {
            let valid: Vec<bool> = vals.iter().map(|v| *v != V::N).collect();
            let mut flat = vec![];
            let mut lens = vec![];
            for v in vals {
                match v {
                    V::L(items) => {
                        flat.extend(items.iter().cloned());
                        lens.push(items.len());
                    }
                    V::N => {
                        // enc ≥ 1: a NULL list still owns one (garbage) child element
                        if enc == 0 {
                            lens.push(0)
                        } else {
                            flat.push(fill_value(fld.data_type(), true));
                            lens.push(1)
                        }
                    }
                    o => panic!("harness: expected list, got {o:?}"),
                }
            }
            let child = build_inner(fld.data_type(), &flat, enc);
            let nulls = if valid.iter().all(|b| *b) && enc == 0 { None } else { Some(NullBuffer::from(valid)) };
            Arc::new(ListArray::new(fld.clone(), OffsetBuffer::from_lengths(lens), child, nulls))
        }
        DataType::Dictionary(kt, vt) => {
            let mut distinct: Vec<V> = vec![];
            for v in vals {
                if *v != V::N && !distinct.contains(v) {
                    distinct.push(v.clone());
                }
            }
            if enc >= 1 {
                distinct.reverse();
                distinct.insert(0, fill_value(vt, true)); // possibly unused / duplicate entry
            }
            let null_as_value = enc == 2 && vals.iter().any(|v| *v == V::N);
            let mut dict_vals = distinct.clone();
            if null_as_value {
                dict_vals.push(V::N);
            }
            let values = build_inner(vt, &dict_vals, 0);
            let key_of = |v: &V| -> Option<i64> {
                if *v == V::N {
                    if null_as_value { Some(dict_vals.len() as i64 - 1) } else { None }
                } else {
                    // last matching entry: in enc ≥ 1 the front entry may duplicate a live value
                    Some(distinct.iter().rposition(|d| d == v).unwrap() as i64)
                }
            };
            let keys: Vec<Option<i64>> = vals.iter().map(key_of).collect();
            macro_rules! dict {
                ($K:ty, $N:ty) => {{
                    let k: PrimitiveArray<$K> = keys.iter().map(|k| k.map(|x| x as $N)).collect();
                    Arc::new(DictionaryArray::<$K>::try_new(k, values).expect("harness: dictionary")) as ArrayRef
                }};
            }
            match kt.as_ref() {
                DataType::Int8 => dict!(Int8Type, i8),
                DataType::Int32 => dict!(Int32Type, i32),
                DataType::UInt16 => dict!(UInt16Type, u16),
                o => panic!("harness: dictionary key type {o}"),
            }
        }
        DataType::RunEndEncoded(_, vf) => {
            let mut run_vals: Vec<V> = vec![];
            let mut ends: Vec<i32> = vec![];
            for (i, v) in vals.iter().enumerate() {
                if enc >= 1 && run_vals.last() == Some(v) {
                    *ends.last_mut().unwrap() = i as i32 + 1;
                } else {
                    run_vals.push(v.clone());
                    ends.push(i as i32 + 1);
                }
            }
            let values = build_inner(vf.data_type(), &run_vals, 0);
            Arc::new(RunArray::<Int32Type>::try_new(&Int32Array::from(ends), &values).expect("harness: run array"))
        }
        flat => {
            let has_null = vals.iter().any(|v| *v == V::N);
            let fill = fill_value(flat, enc >= 1);
            let subst: Vec<V> = vals.iter().map(|v| if *v == V::N { fill.clone() } else { v.clone() }).collect();
            let arr = build_flat_nonnull(flat, &subst);
            if has_null || enc >= 1 { with_nulls(arr, vals.iter().map(|v| *v != V::N).collect()) } else { arr }
        }
    }
}

/// Input array for `intern`: enc ≥ 1 additionally slices the array out of a longer one.
fn build_input(dt: &DataType, vals: &[V], enc: u8, junk: &V) -> ArrayRef {
    if enc == 0 {
        build_inner(dt, vals, 0)
    } else {
        let mut padded = vec![junk.clone()];
        padded.extend(vals.iter().cloned());
        padded.push(junk.clone());
        build_inner(dt, &padded, enc).slice(1, vals.len())
    }
}

/// Decode type for comparing emitted arrays: dictionaries / run-ends are flattened.
fn plain_type(dt: &DataType) -> DataType {
    match dt {
        DataType::Dictionary(_, v) => plain_type(v),
        DataType::RunEndEncoded(_, v) => plain_type(v.data_type()),
        o => o.clone(),
    }
}

// ---------------------------------------------------------------------------
// schemas under test
// ---------------------------------------------------------------------------

struct SchemaDef {
    name: String,
    /// implementation family the schema is routed to (only used to group violation keys)
    family: &'static str,
    fields: Vec<Field>,
    /// key alphabet: one `Vec<V>` (a cell per column) per key
    keys: Vec<Vec<V>>,
}

fn long1() -> V {
    s("abcdefghijklmnop_1")
}
fn long2() -> V {
    s("abcdefghijklmnop_2")
}

fn single(name: &str, family: &'static str, dt: DataType, vals: Vec<V>) -> SchemaDef {
    SchemaDef {
        name: name.to_string(),
        family,
        fields: vec![Field::new("k0", dt, true)],
        keys: vals.into_iter().map(|v| vec![v]).collect(),
    }
}

fn schemas() -> Vec<SchemaDef> {
    let mut out = vec![];
    let signed = || vec![V::N, V::I(0), V::I(1), V::I(-1)];
    let unsigned = || vec![V::N, V::I(0), V::I(1), V::I(200)];
    let floats = || vec![V::N, f(0.0), f(1.5), f(f64::NAN)];
    let utc: Option<Arc<str>> = Some("UTC".into());
    for (name, dt, vals) in [
        ("Int8", DataType::Int8, signed()),
        ("Int16", DataType::Int16, signed()),
        ("Int32", DataType::Int32, signed()),
        ("Int64", DataType::Int64, signed()),
        ("UInt8", DataType::UInt8, unsigned()),
        ("UInt16", DataType::UInt16, unsigned()),
        ("UInt32", DataType::UInt32, unsigned()),
        ("UInt64", DataType::UInt64, unsigned()),
        ("Float16", DataType::Float16, floats()),
        ("Float32", DataType::Float32, floats()),
        ("Float64", DataType::Float64, floats()),
        ("Date32", DataType::Date32, signed()),
        ("Date64", DataType::Date64, signed()),
        ("Time32s", DataType::Time32(TimeUnit::Second), unsigned()),
        ("Time64ns", DataType::Time64(TimeUnit::Nanosecond), unsigned()),
        ("TimestampS", DataType::Timestamp(TimeUnit::Second, None), signed()),
        ("TimestampNsUtc", DataType::Timestamp(TimeUnit::Nanosecond, utc.clone()), signed()),
        ("DurationMs", DataType::Duration(TimeUnit::Millisecond), signed()),
        ("IntervalYM", DataType::Interval(IntervalUnit::YearMonth), signed()),
        ("IntervalDT", DataType::Interval(IntervalUnit::DayTime), signed()),
        ("IntervalMDN", DataType::Interval(IntervalUnit::MonthDayNano), signed()),
        ("Decimal128", DataType::Decimal128(10, 2), signed()),
        ("Decimal256", DataType::Decimal256(40, 2), signed()),
    ] {
        out.push(single(name, "GroupValuesPrimitive", dt, vals));
    }
    out.push(single("Boolean", "GroupValuesBoolean", DataType::Boolean, vec![V::N, V::B(false), V::B(true)]));
    let strs = || vec![V::N, s(""), s("a"), long1(), long2()];
    out.push(single("Utf8", "GroupValuesBytes", DataType::Utf8, strs()));
    out.push(single("LargeUtf8", "GroupValuesBytes", DataType::LargeUtf8, strs()));
    out.push(single("Binary", "GroupValuesBytes", DataType::Binary, strs()));
    out.push(single("LargeBinary", "GroupValuesBytes", DataType::LargeBinary, strs()));
    out.push(single("Utf8View", "GroupValuesBytesView", DataType::Utf8View, strs()));
    out.push(single("BinaryView", "GroupValuesBytesView", DataType::BinaryView, strs()));
    // single columns without a single-column specialisation -> GroupValuesColumn with one builder
    out.push(single("FixedSizeBinary2", "GroupValuesColumn", DataType::FixedSizeBinary(2), vec![V::N, s("\0\0"), s("\0a"), s("a\0")]));
    out.push(single(
        "DictInt32Utf8",
        "GroupValuesColumn",
        DataType::Dictionary(Box::new(DataType::Int32), Box::new(DataType::Utf8)),
        vec![V::N, s(""), s("a"), long1()],
    ));
    out.push(single(
        "DictInt8Int64",
        "GroupValuesColumn",
        DataType::Dictionary(Box::new(DataType::Int8), Box::new(DataType::Int64)),
        signed(),
    ));
    let struct_fields: Fields = vec![Field::new("a", DataType::Int32, true), Field::new("b", DataType::Utf8, true)].into();
    let struct_vals = || {
        vec![
            V::N,
            V::T(vec![V::N, V::N]),
            V::T(vec![V::I(0), s("")]),
            V::T(vec![V::I(1), s("a")]),
        ]
    };
    out.push(single("Struct", "GroupValuesColumn", DataType::Struct(struct_fields.clone()), struct_vals()));
    out.push(single(
        "ListInt32",
        "GroupValuesColumn",
        DataType::List(Arc::new(Field::new("item", DataType::Int32, true))),
        vec![V::N, V::L(vec![]), V::L(vec![V::N]), V::L(vec![V::I(0)])],
    ));
    // schemas that force the GroupValuesRows fallback
    out.push(single(
        "RunEndInt32Utf8",
        "GroupValuesRows",
        DataType::RunEndEncoded(
            Arc::new(Field::new("run_ends", DataType::Int32, false)),
            Arc::new(Field::new("values", DataType::Utf8, true)),
        ),
        vec![V::N, s(""), s("a"), long1()],
    ));
    let multi = |name: &str, family: &'static str, fields: Vec<(DataType, bool)>, keys: Vec<Vec<V>>| SchemaDef {
        name: name.to_string(),
        family,
        fields: fields.into_iter().enumerate().map(|(i, (dt, n))| Field::new(format!("k{i}"), dt, n)).collect(),
        keys,
    };
    out.push(multi(
        "Int64+Null",
        "GroupValuesRows",
        vec![(DataType::Int64, true), (DataType::Null, true)],
        vec![vec![V::N, V::N], vec![V::I(0), V::N], vec![V::I(1), V::N], vec![V::I(-1), V::N]],
    ));
    out.push(multi(
        "Float64+RunEnd",
        "GroupValuesRows",
        vec![
            (DataType::Float64, true),
            (
                DataType::RunEndEncoded(
                    Arc::new(Field::new("run_ends", DataType::Int32, false)),
                    Arc::new(Field::new("values", DataType::Int64, true)),
                ),
                true,
            ),
        ],
        vec![vec![V::N, V::N], vec![f(0.0), V::I(0)], vec![f(0.0), V::N], vec![V::N, V::I(0)], vec![f(f64::NAN), V::I(1)]],
    ));
    // multi-column: GroupValuesColumn<false> (ordering None) / <true> (sorted)
    out.push(multi(
        "Int64+Utf8",
        "GroupValuesColumn",
        vec![(DataType::Int64, true), (DataType::Utf8, true)],
        vec![vec![V::N, V::N], vec![V::I(0), s("")], vec![V::N, s("")], vec![V::I(0), V::N], vec![V::I(1), s("a")]],
    ));
    out.push(multi(
        "Utf8View+Int32nn+Boolean",
        "GroupValuesColumn",
        vec![(DataType::Utf8View, true), (DataType::Int32, false), (DataType::Boolean, true)],
        vec![
            vec![V::N, V::I(0), V::N],
            vec![s(""), V::I(0), V::B(false)],
            vec![long1(), V::I(1), V::B(true)],
            vec![long2(), V::I(1), V::B(true)],
            vec![s("a"), V::I(1), V::N],
        ],
    ));
    // Structural hash collisions: a NULL cell leaves the running hash untouched and
    // Utf8/Boolean cells are folded in with `combine_hashes`, so (NULL, x, NULL) and
    // (NULL, NULL, x) always hash alike.  Two colliding pairs + one free key.
    out.push(multi(
        "Utf8x3-colliding",
        "GroupValuesColumn",
        vec![(DataType::Utf8, true), (DataType::Utf8, true), (DataType::Utf8, true)],
        vec![
            vec![s("a"), s("a"), s("a")],
            vec![V::N, s("a"), V::N],
            vec![V::N, V::N, s("a")],
            vec![V::N, s("b"), V::N],
            vec![V::N, V::N, s("b")],
        ],
    ));
    // Three-way collision (one chain of three) + a colliding pair.
    out.push(multi(
        "Booleanx4-colliding",
        "GroupValuesColumn",
        vec![(DataType::Boolean, true), (DataType::Boolean, true), (DataType::Boolean, true), (DataType::Boolean, true)],
        vec![
            vec![V::N, V::B(true), V::N, V::N],
            vec![V::N, V::N, V::B(true), V::N],
            vec![V::N, V::N, V::N, V::B(true)],
            vec![V::N, V::B(false), V::N, V::N],
            vec![V::N, V::N, V::B(false), V::N],
        ],
    ));
    out.push(multi(
        "DictInt32Utf8+Int64",
        "GroupValuesColumn",
        vec![(DataType::Dictionary(Box::new(DataType::Int32), Box::new(DataType::Utf8)), true), (DataType::Int64, true)],
        vec![vec![V::N, V::N], vec![s(""), V::I(0)], vec![V::N, V::I(0)], vec![s("a"), V::N], vec![long1(), V::I(1)]],
    ));
    out.push(multi(
        "Int64+Struct",
        "GroupValuesColumn",
        vec![(DataType::Int64, true), (DataType::Struct(struct_fields.clone()), true)],
        vec![
            vec![V::N, V::N],
            vec![V::I(0), V::T(vec![V::N, V::N])],
            vec![V::I(0), V::N],
            vec![V::I(0), V::T(vec![V::I(0), s("")])],
            vec![V::I(1), V::T(vec![V::I(1), s("a")])],
        ],
    ));
    out.push(multi(
        "FixedSizeBinary2+Float64+Date32",
        "GroupValuesColumn",
        vec![(DataType::FixedSizeBinary(2), true), (DataType::Float64, true), (DataType::Date32, true)],
        vec![
            vec![V::N, V::N, V::N],
            vec![s("\0\0"), f(0.0), V::I(0)],
            vec![s("\0\0"), f(f64::NAN), V::I(0)],
            vec![s("a\0"), f(1.5), V::N],
        ],
    ));
    out.push(multi(
        "LargeBinary+BinaryView+Decimal128",
        "GroupValuesColumn",
        vec![(DataType::LargeBinary, true), (DataType::BinaryView, true), (DataType::Decimal128(10, 2), true)],
        vec![
            vec![V::N, V::N, V::N],
            vec![s(""), s(""), V::I(0)],
            vec![s("a"), long1(), V::I(1)],
            vec![s("a"), long2(), V::I(1)],
            vec![s(""), V::N, V::I(0)],
        ],
    ));
    out.push(multi(
        "LargeUtf8+UInt8+Float32+TimestampMs",
        "GroupValuesColumn",
        vec![
            (DataType::LargeUtf8, true),
            (DataType::UInt8, true),
            (DataType::Float32, false),
            (DataType::Timestamp(TimeUnit::Millisecond, utc), true),
        ],
        vec![
            vec![V::N, V::N, f(0.0), V::N],
            vec![s(""), V::I(0), f(0.0), V::I(0)],
            vec![long1(), V::I(200), f(f64::NAN), V::I(-1)],
            vec![long1(), V::I(200), f(1.5), V::I(-1)],
        ],
    ));
    out
}

// ---------------------------------------------------------------------------
// operations, cases
// ---------------------------------------------------------------------------

#[derive(Clone, Debug, PartialEq, Eq, Hash, Serialize, Deserialize)]
enum Op {
    /// intern a batch; the entries index the schema's key alphabet
    Intern(Vec<usize>),
    EmitAll,
    EmitFirst(usize),
    Clear(usize),
}

impl Op {
    fn kind(&self) -> &'static str {
        match self {
            Op::Intern(_) => "intern",
            Op::EmitAll => "emit_all",
            Op::EmitFirst(_) => "emit_first",
            Op::Clear(_) => "clear_shrink",
        }
    }
}

#[derive(Clone, Debug, Serialize, Deserialize)]
struct Case {
    schema: String,
    /// false: `GroupOrdering::None`; true: `GroupOrdering::Full` (fully sorted input mode)
    sorted: bool,
    enc: u8,
    history: Vec<Op>,
}

/// Hidden-state abstraction used to refine the canonical state key.
#[derive(Clone, Debug, PartialEq, Eq, Hash, Serialize, Deserialize)]
struct StateKey {
    live: Vec<usize>,
    origin: u8, // how the store last became empty: 0 fresh, 1 emit_all, 2 clear, 3 emit_first(len)
    seen_null: bool,
    emitted_first: bool,
}

#[derive(Serialize, Deserialize)]
enum Outcome {
    Ok { key: StateKey, nontrivial: bool, out_of_order: bool },
    Disabled,
    Violation { code: String, detail: String },
}

fn viol(code: &'static str, detail: String) -> Outcome {
    Outcome::Violation { code: code.to_string(), detail }
}

fn fmt_key(k: &[V]) -> String {
    serde_json::to_string(k).unwrap()
}

/// Replay `history` on a fresh `GroupValues`, checking every step against the
/// reference (`live`: ordered list of live keys, position = group id).
///
/// Demands (exactly the property's clauses):
///  * intern: one id per row; a live key gets its current id; rows with the same
///    new key get the same id; the ids handed to the batch's new keys are exactly
///    `len_before .. len_before + #new` (as a set; under a sorted `GroupOrdering`
///    additionally in first-seen order, which the streaming path documents);
///  * emit(All) / emit(First(n)): one array per column whose rows are the keys of
///    ids `0..n` in id order; the remaining keys are renumbered down by `n`
///    (checked by the following interns);
///  * `len()` = number of live keys and `is_empty()` consistent after every step;
///  * no operation may fail or panic (emit on an *empty* store is tolerated).
fn run_history(def: &SchemaDef, sorted: bool, enc: u8, history: &[Op], mut trace: Option<&mut Vec<Value>>) -> Outcome {
    let schema: SchemaRef = Arc::new(Schema::new(def.fields.clone()));
    let ordering = if sorted {
        GroupOrdering::try_new(&InputOrderMode::Sorted).expect("harness: GroupOrdering::Full")
    } else {
        GroupOrdering::None
    };
    let mut gv: Box<dyn GroupValues> = match mc_core::catch(|| new_group_values(Arc::clone(&schema), &ordering)) {
        Ok(Ok(g)) => g,
        Ok(Err(e)) => return viol("NEW_ERR", format!("new_group_values failed: {e}")),
        Err(p) => return viol("NEW_PANIC", format!("new_group_values: {p}")),
    };
    let ncols = def.fields.len();
    let junk: Vec<V> = (0..ncols).map(|c| def.keys[1][c].clone()).collect();
    let mut live: Vec<usize> = vec![];
    let mut st = StateKey { live: vec![], origin: 0, seen_null: false, emitted_first: false };
    let mut nontrivial = false;
    let mut out_of_order = false;

    for (step, op) in history.iter().enumerate() {
        let last = step + 1 == history.len();
        let at = |d: String| format!("step {step} {op:?}: {d}");
        match op {
            Op::Intern(batch) => {
                // Operator protocol: after `emit(All)` the store is reset with `clear_shrink` before it is
                // reused (every caller in /repo does so); interning into a drained-but-not-cleared store is
                // outside the explored histories.
                if st.origin == 1 {
                    return Outcome::Disabled;
                }
                let cols: Vec<ArrayRef> = (0..ncols)
                    .map(|c| {
                        let vals: Vec<V> = batch.iter().map(|k| def.keys[*k][c].clone()).collect();
                        build_input(def.fields[c].data_type(), &vals, enc, &junk[c])
                    })
                    .collect();
                let mut groups: Vec<usize> = vec![usize::MAX - 7; 3]; // stale content must not survive
                match mc_core::catch(|| gv.intern(&cols, &mut groups)) {
                    Ok(Ok(())) => {}
                    Ok(Err(e)) => return viol("INTERN_ERR", at(format!("intern returned an error: {e}"))),
                    Err(p) => return viol("INTERN_PANIC", at(p)),
                }
                if groups.len() != batch.len() {
                    return viol("GROUPS_LEN", at(format!("{} group ids for {} rows", groups.len(), batch.len())));
                }
                let before = live.len();
                let mut fresh: Vec<(usize, usize)> = vec![]; // (key, id) in first-seen order
                let mut hit_existing = false;
                for (row, k) in batch.iter().enumerate() {
                    let got = groups[row];
                    if let Some(pos) = live.iter().position(|x| x == k) {
                        hit_existing = true;
                        if got != pos {
                            return viol(
                                "ID_EXISTING",
                                at(format!("row {row} key {} is live with id {pos} but intern returned {got}; ids={groups:?}", fmt_key(&def.keys[*k]))),
                            );
                        }
                    } else if let Some((_, id)) = fresh.iter().find(|(fk, _)| fk == k) {
                        if got != *id {
                            return viol(
                                "ID_SAME_KEY",
                                at(format!("row {row} repeats new key {} (id {id}) but got {got}; ids={groups:?}", fmt_key(&def.keys[*k]))),
                            );
                        }
                    } else {
                        fresh.push((*k, got));
                    }
                }
                let mut ids: Vec<usize> = fresh.iter().map(|x| x.1).collect();
                let in_order = ids.windows(2).all(|w| w[0] < w[1]);
                ids.sort();
                let want: Vec<usize> = (before..before + fresh.len()).collect();
                if ids != want {
                    return viol(
                        "ID_NEW_RANGE",
                        at(format!("{} new keys with {before} live groups must receive ids {want:?}, got {ids:?}; ids={groups:?}", fresh.len())),
                    );
                }
                if sorted && !in_order {
                    return viol("ID_ORDER", at(format!("sorted ordering: new ids not in first-seen order; ids={groups:?}")));
                }
                let mut slots = vec![usize::MAX; fresh.len()];
                for (k, id) in &fresh {
                    slots[id - before] = *k;
                }
                live.extend(slots);
                if batch.iter().any(|k| def.keys[*k].iter().any(|v| *v == V::N)) {
                    st.seen_null = true;
                }
                if last {
                    nontrivial = hit_existing && !fresh.is_empty() || (st.emitted_first && hit_existing);
                    out_of_order = !in_order;
                }
                if let Some(t) = trace.as_deref_mut() {
                    t.push(json!({"op": "intern", "keys": batch.iter().map(|k| fmt_key(&def.keys[*k])).collect::<Vec<_>>(),
                        "group_ids": groups, "first_seen_order": in_order}));
                }
            }
            Op::EmitAll | Op::EmitFirst(_) => {
                let n = match op {
                    Op::EmitAll => live.len(),
                    Op::EmitFirst(n) => {
                        if *n == 0 || *n > live.len() {
                            return Outcome::Disabled;
                        }
                        *n
                    }
                    _ => unreachable!(),
                };
                let emit_to = match op {
                    Op::EmitAll => EmitTo::All,
                    _ => EmitTo::First(n),
                };
                let res = mc_core::catch(|| gv.emit(emit_to));
                let arrays = match res {
                    Ok(Ok(a)) => a,
                    other => {
                        if live.is_empty() {
                            // emitting from an empty store requests no id; a refusal is tolerated
                            return Outcome::Disabled;
                        }
                        return match other {
                            Ok(Err(e)) => viol("EMIT_ERR", at(format!("emit returned an error: {e}"))),
                            Err(p) => viol("EMIT_PANIC", at(p)),
                            _ => unreachable!(),
                        };
                    }
                };
                if arrays.len() != ncols {
                    return viol("EMIT_COLS", at(format!("{} arrays for {ncols} key columns", arrays.len())));
                }
                for c in 0..ncols {
                    let dt = def.fields[c].data_type();
                    let got = &arrays[c];
                    if got.len() != n {
                        return viol("EMIT_LEN", at(format!("column {c}: {} rows emitted, {n} requested", got.len())));
                    }
                    if got.data_type() != dt {
                        return viol("EMIT_TYPE", at(format!("column {c}: emitted type {} but key column type is {dt}", got.data_type())));
                    }
                    let pt = plain_type(dt);
                    let got_plain: ArrayRef = if &pt != dt {
                        match arrow::compute::cast(got, &pt) {
                            Ok(a) => a,
                            Err(e) => return viol("EMIT_DECODE", at(format!("column {c}: cannot decode emitted {dt}: {e}"))),
                        }
                    } else {
                        Arc::clone(got)
                    };
                    let want_vals: Vec<V> = live[..n].iter().map(|k| def.keys[*k][c].clone()).collect();
                    let want = build_inner(&pt, &want_vals, 0);
                    if got_plain.to_data() != want.to_data() {
                        return viol(
                            "EMIT_VALUES",
                            at(format!("column {c}: emitted {:?} but ids 0..{n} hold {:?}", got_plain, want)),
                        );
                    }
                }
                if last {
                    nontrivial = matches!(op, Op::EmitFirst(_)) && n < live.len() || (n >= 2 && st.emitted_first);
                }
                live.drain(..n);
                if live.is_empty() {
                    st.origin = if matches!(op, Op::EmitAll) { 1 } else { 3 };
                    st.seen_null = false;
                    st.emitted_first = false;
                } else {
                    st.emitted_first = true;
                }
                if let Some(t) = trace.as_deref_mut() {
                    t.push(json!({"op": op.kind(), "n": n, "emitted": arrays.iter().map(|a| format!("{a:?}").replace('\n', " ")).collect::<Vec<_>>()}));
                }
            }
            Op::Clear(rows) => {
                // Operator protocol: `clear_shrink` is only ever applied to a drained (or fresh) store.
                if !live.is_empty() {
                    return Outcome::Disabled;
                }
                if let Err(p) = mc_core::catch(|| gv.clear_shrink(*rows)) {
                    return viol("CLEAR_PANIC", at(p));
                }
                live.clear();
                st.origin = 2;
                st.seen_null = false;
                st.emitted_first = false;
                if let Some(t) = trace.as_deref_mut() {
                    t.push(json!({"op": "clear_shrink", "num_rows": rows}));
                }
            }
        }
        let (len, empty) = match mc_core::catch(|| {
            let _ = gv.size();
            (gv.len(), gv.is_empty())
        }) {
            Ok(x) => x,
            Err(p) => return viol("LEN_PANIC", at(p)),
        };
        if len != live.len() {
            return viol("LEN", at(format!("len() = {len} but {} distinct keys are live", live.len())));
        }
        if empty != live.is_empty() {
            return viol("IS_EMPTY", at(format!("is_empty() = {empty} with {} live keys", live.len())));
        }
    }
    st.live = live;
    Outcome::Ok { key: st, nontrivial, out_of_order }
}

// ---------------------------------------------------------------------------
// exploration
// ---------------------------------------------------------------------------

// ---------------------------------------------------------------------------
// abort-proof execution
// ---------------------------------------------------------------------------
//
// With debug assertions on, an out-of-range `get_unchecked` inside the subject is
// a *non-unwinding* panic: the process aborts.  Histories are therefore replayed
// in worker *processes* (`c13 --worker`, one per explorer thread): a job is one
// JSON line on the worker's stdin (a prefix and a list of tails, each history
// replayed on a fresh store), the replies are JSON lines on its stdout.  The
// worker's panic hook recognises non-unwinding panics, flushes the replies
// produced so far plus an `Aborted` reply, and lets the process die; the explorer
// records an `ABORT` violation, starts a fresh worker and resubmits the rest.

#[derive(Serialize, Deserialize)]
struct Job {
    si: usize,
    sorted: bool,
    enc: u8,
    prefix: Vec<Op>,
    /// histories to replay = prefix ++ tail, each on a fresh store; one reply per tail, in order
    tails: Vec<Vec<Op>>,
    want_trace: bool,
}

#[derive(Serialize, Deserialize)]
enum Reply {
    Done(Outcome, Vec<Value>),
    Aborted(String),
}

/// Replies of the current job not yet written to stdout (worker side).
static WORKER_OUT: Mutex<Vec<u8>> = Mutex::new(Vec::new());

fn worker_flush() {
    use std::io::Write;
    let mut buf = match WORKER_OUT.try_lock() {
        Ok(b) => b,
        Err(_) => return,
    };
    let mut so = std::io::stdout().lock();
    let _ = so.write_all(&buf);
    let _ = so.flush();
    buf.clear();
}

/// Reply line: `D` (disabled), `O<flags> <origin> <live ids...>` (oracle satisfied, no
/// trace) or `J<json>` (everything else).
fn worker_push(r: &Reply) {
    use std::io::Write;
    let mut buf = WORKER_OUT.lock().unwrap();
    match r {
        Reply::Done(Outcome::Disabled, _) => buf.extend_from_slice(b"D\n"),
        Reply::Done(Outcome::Ok { key, nontrivial, out_of_order }, trace) if trace.is_empty() => {
            let flags = (*nontrivial as u8) | (*out_of_order as u8) << 1 | (key.seen_null as u8) << 2 | (key.emitted_first as u8) << 3;
            let _ = write!(buf, "O{} {}", flags, key.origin);
            for l in &key.live {
                let _ = write!(buf, " {l}");
            }
            buf.push(b'\n');
        }
        other => {
            buf.push(b'J');
            serde_json::to_writer(&mut *buf, other).expect("harness: serialising a reply");
            buf.push(b'\n');
        }
    }
}

fn parse_reply(line: &str) -> Reply {
    let line = line.trim_end();
    match line.as_bytes().first() {
        Some(b'D') => Reply::Done(Outcome::Disabled, vec![]),
        Some(b'O') => {
            let mut it = line[1..].split(' ');
            let flags: u8 = it.next().and_then(|x| x.parse().ok()).expect("harness: malformed reply flags");
            let origin: u8 = it.next().and_then(|x| x.parse().ok()).expect("harness: malformed reply origin");
            let live: Vec<usize> = it.map(|x| x.parse().expect("harness: malformed reply id")).collect();
            Reply::Done(
                Outcome::Ok {
                    key: StateKey { live, origin, seen_null: flags & 4 != 0, emitted_first: flags & 8 != 0 },
                    nontrivial: flags & 1 != 0,
                    out_of_order: flags & 2 != 0,
                },
                vec![],
            )
        }
        Some(b'J') => serde_json::from_str::<Reply>(&line[1..]).expect("harness: malformed reply from worker"),
        _ => panic!("harness: malformed reply line from worker: {line:?}"),
    }
}

fn install_panic_hook(worker: bool) {
    let loud = std::env::var("VERIF_LOUD_PANICS").is_ok();
    std::panic::set_hook(Box::new(move |info| {
        let text = info.to_string();
        if loud {
            eprintln!("{text}");
        }
        let nounwind = text.contains("unsafe precondition(s) violated")
            || text.contains("cannot unwind")
            || text.contains("panic in a destructor during cleanup");
        if nounwind && worker {
            if let Ok(mut buf) = WORKER_OUT.try_lock() {
                buf.push(b'J');
                let _ = serde_json::to_writer(&mut *buf, &Reply::Aborted(text.replace('\n', " ")));
                buf.push(b'\n');
            }
            worker_flush();
            // returning lets the runtime abort this worker process
        }
    }));
}

/// `c13 --worker`: serve jobs until stdin closes.
fn worker_main() -> ! {
    use std::io::BufRead;
    install_panic_hook(true);
    let defs = schemas();
    let stdin = std::io::stdin();
    for line in stdin.lock().lines() {
        let line = match line {
            Ok(l) => l,
            Err(_) => break,
        };
        if line.trim().is_empty() {
            continue;
        }
        let job: Job = serde_json::from_str(&line).expect("harness: worker received a malformed job");
        for tail in &job.tails {
            let mut h = job.prefix.clone();
            h.extend(tail.iter().cloned());
            let mut trace = vec![];
            let out = run_history(&defs[job.si], job.sorted, job.enc, &h, if job.want_trace { Some(&mut trace) } else { None });
            worker_push(&Reply::Done(out, trace));
        }
        worker_flush();
    }
    std::process::exit(0)
}

struct Executor {
    child: std::process::Child,
    stdin: std::io::BufWriter<std::process::ChildStdin>,
    stdout: std::io::BufReader<std::process::ChildStdout>,
}

impl Drop for Executor {
    fn drop(&mut self) {
        let _ = self.child.kill();
        let _ = self.child.wait();
    }
}

impl Executor {
    fn new() -> Self {
        use std::process::{Command, Stdio};
        let exe = std::env::current_exe().expect("harness: current_exe");
        let loud = std::env::var("VERIF_LOUD_PANICS").is_ok();
        let mut child = Command::new(exe)
            .arg("--worker")
            .stdin(Stdio::piped())
            .stdout(Stdio::piped())
            .stderr(if loud { Stdio::inherit() } else { Stdio::null() })
            .spawn()
            .expect("harness: cannot spawn a worker process");
        let stdin = std::io::BufWriter::new(child.stdin.take().unwrap());
        let stdout = std::io::BufReader::new(child.stdout.take().unwrap());
        Executor { child, stdin, stdout }
    }

    /// Replay prefix ++ tail for every tail.  An abort costs one worker process; the
    /// rest of the batch is resubmitted to a fresh one.
    fn run_batch(&mut self, si: usize, sorted: bool, enc: u8, prefix: &[Op], tails: Vec<Vec<Op>>, want_trace: bool) -> Vec<Reply> {
        use std::io::{BufRead, Write};
        let mut out = Vec::with_capacity(tails.len());
        let mut pending = tails;
        while !pending.is_empty() {
            let n = pending.len();
            let job = Job { si, sorted, enc, prefix: prefix.to_vec(), tails: pending.clone(), want_trace };
            serde_json::to_writer(&mut self.stdin, &job).expect("harness: sending a job");
            self.stdin.write_all(b"\n").and_then(|_| self.stdin.flush()).expect("harness: worker stdin closed");
            let mut done = 0;
            let mut line = String::new();
            while done < n {
                line.clear();
                let read = self.stdout.read_line(&mut line).unwrap_or(0);
                let reply = if read == 0 {
                    let status = self.child.wait().map(|s| s.to_string()).unwrap_or_default();
                    Reply::Aborted(format!("worker process died without a message ({status})"))
                } else {
                    parse_reply(&line)
                };
                done += 1;
                if matches!(reply, Reply::Aborted(_)) {
                    out.push(reply);
                    *self = Executor::new(); // drops (reaps) the dead worker
                    break;
                }
                out.push(reply);
            }
            pending.drain(..done);
        }
        out
    }

    fn run_one(&mut self, si: usize, sorted: bool, enc: u8, h: &[Op]) -> Outcome {
        match self.run_batch(si, sorted, enc, &[], vec![h.to_vec()], false).pop().unwrap() {
            Reply::Done(o, _) => o,
            Reply::Aborted(msg) => abort_outcome(msg),
        }
    }
}

fn abort_outcome(msg: String) -> Outcome {
    viol("ABORT", format!("non-unwinding panic (the process would abort) while replaying the history: {msg}"))
}

/// Greedy, deterministic reduction of a violating history: drop operations, then
/// batch rows, then simplify arguments, while the history still violates.
fn reduce(exec: &mut Executor, si: usize, sorted: bool, enc: u8, h: &[Op]) -> (Vec<Op>, String) {
    let mut cur = h.to_vec();
    let violates = |exec: &mut Executor, h: &[Op]| -> Option<String> {
        match exec.run_one(si, sorted, enc, h) {
            Outcome::Violation { code, detail } => Some(format!("{code}: {detail}")),
            _ => None,
        }
    };
    let mut what = violates(exec, &cur).unwrap_or_else(|| "harness: violation did not reproduce during reduction".into());
    loop {
        let mut changed = false;
        for i in (0..cur.len()).rev() {
            let mut cand = cur.clone();
            cand.remove(i);
            if let Some(w) = violates(exec, &cand) {
                cur = cand;
                what = w;
                changed = true;
            }
        }
        for i in 0..cur.len() {
            if let Op::Intern(b) = &cur[i] {
                for j in (0..b.len()).rev() {
                    if let Op::Intern(b) = &cur[i] {
                        if b.len() <= 1 {
                            break;
                        }
                        let mut nb = b.clone();
                        nb.remove(j);
                        let mut cand = cur.clone();
                        cand[i] = Op::Intern(nb);
                        if let Some(w) = violates(exec, &cand) {
                            cur = cand;
                            what = w;
                            changed = true;
                        }
                    }
                }
            }
            if let Op::Clear(2) = &cur[i] {
                let mut cand = cur.clone();
                cand[i] = Op::Clear(0);
                if let Some(w) = violates(exec, &cand) {
                    cur = cand;
                    what = w;
                    changed = true;
                }
            }
        }
        if !changed {
            break;
        }
    }
    (cur, what)
}

/// Operation kinds of a history with consecutive repeats collapsed.
fn shape(h: &[Op]) -> String {
    let mut kinds: Vec<&str> = vec![];
    for o in h {
        if kinds.last() != Some(&o.kind()) {
            kinds.push(o.kind());
        }
    }
    kinds.join(">")
}

fn alphabet(def: &SchemaDef, max_batch: usize) -> Vec<Op> {
    let idx: Vec<usize> = (0..def.keys.len()).collect();
    let mut ops: Vec<Op> = mc_core::enumerate::sequences(&idx, 0, max_batch).into_iter().map(Op::Intern).collect();
    ops.push(Op::EmitAll);
    for n in 1..=def.keys.len() {
        ops.push(Op::EmitFirst(n));
    }
    ops.push(Op::Clear(0));
    ops.push(Op::Clear(2));
    ops
}

struct Found {
    rank: (usize, usize, u8, bool, String),
    what: String,
    case: Case,
}

fn encodings(def: &SchemaDef) -> Vec<u8> {
    let has_dict = def.fields.iter().any(|f| matches!(f.data_type(), DataType::Dictionary(_, _)));
    if has_dict { vec![0, 1, 2] } else { vec![0, 1] }
}

/// Confirm with the real hash function that the "colliding" schemas do collide
/// (structurally, i.e. for any seed) so that the chained-bucket paths are exercised.
fn colliding_pairs(def: &SchemaDef) -> usize {
    use datafusion_common::hash_utils::{RandomState, create_hashes};
    let cols: Vec<ArrayRef> = (0..def.fields.len())
        .map(|c| build_inner(def.fields[c].data_type(), &def.keys.iter().map(|k| k[c].clone()).collect::<Vec<_>>(), 0))
        .collect();
    let mut hashes = vec![0u64; def.keys.len()];
    if create_hashes(&cols, &RandomState::default(), &mut hashes).is_err() {
        return 0;
    }
    let mut n = 0;
    for i in 0..hashes.len() {
        for j in i + 1..hashes.len() {
            if hashes[i] == hashes[j] {
                n += 1;
            }
        }
    }
    n
}

fn explore(ctx: &Ctx) {
    let defs = Arc::new(schemas());
    let depth_full = ctx.pick(3, 4);
    let depth_dedup = ctx.pick(5, 9);
    let batch_full = 2;
    let batch_dedup = ctx.pick(2, 3);
    ctx.set_extra(
        "bounds",
        json!({
            "schemas": defs.iter().map(|d| d.name.clone()).collect::<Vec<_>>(),
            "orderings": ["None", "Full (sorted)"],
            "input_encodings": "0 plain; 1 sliced + validity always + garbage under NULL + reversed dictionary with unused entry + merged runs; 2 (dictionary schemas) NULL as dictionary value",
            "keys_per_schema": "3-5 (NULL, type default, collision-prone / long-vs-short view strings)",
            "phase_full": {"max_depth": depth_full, "max_batch_rows": batch_full, "dedup": false, "input_encodings": if ctx.quick() { "0 only" } else { "0 to max_depth, others to max_depth - 1" }},
            "phase_dedup": {"max_depth": depth_dedup, "max_depth_note": if ctx.quick() { "one less for GroupValuesPrimitive / GroupValuesBytes / GroupValuesBoolean" } else { "same for all" }, "max_batch_rows": batch_dedup, "dedup": "reference key list + (origin of emptiness, NULL seen, partial emit seen)"},
            "ops": "intern(batch) [not directly after emit(All)], emit(All), emit(First(n)) 1<=n<=len, clear_shrink(0|2) [empty store only]"
        }),
    );
    ctx.assume("operator protocol: clear_shrink is applied only to an empty (drained or fresh) store, and after emit(All) the store is cleared before the next intern - the only call patterns present in /repo; other orders are not explored");
    ctx.assume("float keys exclude -0.0 (whether -0.0 and +0.0 are one key is implementation-defined and not part of the property)");
    ctx.assume("emit on an empty store may be refused (counted in emit_on_empty_refused); the property requests no id there");
    ctx.assume("state merging in phase 'dedup' assumes later answers depend only on the live key list and the recorded hidden-state abstraction; phase 'full' makes no such assumption");
    for d in defs.iter() {
        let n = colliding_pairs(d);
        if n > 0 {
            ctx.count(&format!("structural_hash_collision_pairs[{}]", d.name), n as u64);
        }
    }

    // configurations, cheapest first
    let quick_tier = ctx.quick();
    let mut cfgs: Vec<(usize, bool, u8, bool)> = vec![]; // (schema idx, sorted, enc, dedup phase)
    for phase in [false, true] {
        for (i, d) in defs.iter().enumerate() {
            for sorted in [false, true] {
                for enc in encodings(d) {
                    if quick_tier && !phase && enc != 0 {
                        continue; // quick: the non-plain input encodings are explored in the merged phase only
                    }
                    cfgs.push((i, sorted, enc, phase));
                }
            }
        }
    }
    let found: Mutex<BTreeMap<String, Found>> = Mutex::new(BTreeMap::new());
    // (schema, unreduced shape, code) -> violation key of the reduced history
    let reduced_keys: Mutex<HashMap<(usize, bool, u8, String, String), String>> = Mutex::new(HashMap::new());

    cfgs.par_iter().for_each(|&(si, sorted, enc, dedup)| {
        if ctx.out_of_time() {
            return;
        }
        let def = &defs[si];
        let ops = alphabet(def, if dedup { batch_dedup } else { batch_full });
        // quick: the structurally simple single-column stores get one level less in the merged phase
        let simple = matches!(def.family, "GroupValuesPrimitive" | "GroupValuesBytes" | "GroupValuesBoolean");
        let depth = if dedup {
            if quick_tier && simple { depth_dedup - 1 } else { depth_dedup }
        } else if !quick_tier && enc != 0 {
            depth_full - 1 // thorough: the deepest unmerged level is explored with plain inputs only
        } else {
            depth_full
        };
        let mut out_of_order = 0u64;
        let mut emit_empty_refused = 0u64;
        let mut exec = Executor::new();
        let mut seen: HashSet<StateKey> = HashSet::new();
        let (mut states, mut transitions) = (0u64, 0u64);
        let mut complete = true;
        // root
        match exec.run_one(si, sorted, enc, &[]) {
            Outcome::Ok { key, .. } => {
                seen.insert(key);
                states += 1;
                ctx.eval();
            }
            _ => {
                ctx.machinery_error(format!("cannot create a GroupValues for schema {}", def.name));
                return;
            }
        }
        let mut frontier: Vec<(Vec<Op>, usize)> = vec![(vec![], 0)]; // (history, live keys after it)
        'bfs: for d in 1..=depth {
            let mut next: Vec<(Vec<Op>, usize)> = vec![];
            for (hist, live_len) in &frontier {
                if ctx.out_of_time() {
                    complete = false;
                    break 'bfs;
                }
                let want_trace = d >= 3 && !dedup && ctx.want_sample();
                // emit(First(n)) needs 1 <= n <= len: not enabled otherwise (known from the reference state)
                let enabled: Vec<&Op> = ops.iter().filter(|op| !matches!(op, Op::EmitFirst(n) if *n > *live_len)).collect();
                let cands: Vec<Vec<Op>> = enabled
                    .iter()
                    .map(|op| {
                        let mut h = hist.clone();
                        h.push((*op).clone());
                        h
                    })
                    .collect();
                let replies = exec.run_batch(si, sorted, enc, hist, enabled.iter().map(|op| vec![(*op).clone()]).collect(), want_trace);
                ctx.evals(cands.len() as u64);
                for (h, reply) in cands.into_iter().zip(replies) {
                    let (out, trace) = match reply {
                        Reply::Done(o, t) => (o, t),
                        Reply::Aborted(msg) => {
                            ctx.count("worker_aborts", 1);
                            (abort_outcome(msg), vec![])
                        }
                    };
                    match out {
                        Outcome::Ok { key, nontrivial, out_of_order: ooo } => {
                            transitions += 1;
                            if ooo {
                                out_of_order += 1;
                            }
                            if nontrivial {
                                ctx.nontrivial(&(si, sorted, enc, &h));
                                if want_trace
                                    && h.iter().any(|o| matches!(o, Op::EmitFirst(_)))
                                    && matches!(h.last(), Some(Op::Intern(b)) if b.len() == 2)
                                    && (si % 7 == 3 || def.fields.len() > 1)
                                {
                                    ctx.sample(json!({"schema": def.name, "sorted_ordering": sorted, "input_encoding": enc, "steps": trace}));
                                }
                            }
                            // phase 'full': nothing is merged
                            let n_live = key.live.len();
                            if !dedup || seen.insert(key) {
                                states += 1;
                                next.push((h, n_live));
                            }
                        }
                        Outcome::Disabled => {
                            if matches!(h.last(), Some(Op::EmitAll)) {
                                emit_empty_refused += 1;
                            }
                        }
                        Outcome::Violation { code, detail } => {
                            transitions += 1;
                            ctx.count("violating_histories", 1);
                            let pre = (si, sorted, enc, shape(&h), code.to_string());
                            let known = reduced_keys.lock().unwrap().get(&pre).cloned();
                            if known.is_none() {
                                let _ = detail;
                                let (red, what) = reduce(&mut exec, si, sorted, enc, &h);
                                let key = format!("{}|{}", def.family, shape(&red));
                                reduced_keys.lock().unwrap().insert(pre, key.clone());
                                let rank = (red.len(), si, enc, sorted, serde_json::to_string(&red).unwrap());
                                let mut f = found.lock().unwrap();
                                if f.get(&key).map(|old| old.rank > rank).unwrap_or(true) {
                                    let case = Case { schema: def.name.clone(), sorted, enc, history: red };
                                    f.insert(key, Found { rank, what: format!("[{} sorted={} enc={}] {}", def.name, sorted, enc, what), case });
                                }
                            }
                        }
                    }
                }
            }
            frontier = next;
            if frontier.is_empty() {
                break;
            }
        }
        ctx.add_states(states);
        ctx.add_transitions(transitions);
        ctx.count(if dedup { "configs_dedup" } else { "configs_full" }, 1);
        ctx.count(&format!("transitions[{} {}]", def.family, if dedup { "dedup" } else { "full" }), transitions);
        ctx.count("emit_on_empty_refused", emit_empty_refused);
        ctx.count("interns_numbering_new_keys_out_of_first_seen_order(ordering None only; allowed)", out_of_order);
        if !complete {
            ctx.mark_capped("wall cap reached inside a BFS");
        }
    });

    for (key, f) in found.into_inner().unwrap() {
        ctx.violation(key, f.what, serde_json::to_value(&f.case).unwrap());
    }
}

fn replay(v: &Value) -> Result<(), String> {
    let c: Case = serde_json::from_value(v.clone()).map_err(|e| format!("bad case: {e}"))?;
    let defs = Arc::new(schemas());
    let si = defs.iter().position(|d| d.name == c.schema).ok_or_else(|| format!("unknown schema {}", c.schema))?;
    // every prefix is checked by run_history itself (it stops at the first failing step)
    let mut exec = Executor::new();
    match exec.run_one(si, c.sorted, c.enc, &c.history) {
        Outcome::Ok { .. } | Outcome::Disabled => Ok(()),
        Outcome::Violation { code, detail } => Err(format!("{code}: {detail}")),
    }
}

fn main() {
    if std::env::args().any(|a| a == "--worker") {
        worker_main();
    }
    install_panic_hook(false);
    run_check(
        "C13",
        Level::ModelChecking,
        "per (key schema, GroupOrdering, input encoding): every history of intern(batch<=2 keys)/emit(All)/emit(First(n))/clear_shrink over the schema's key alphabet, \
         (a) exhaustively without state merging up to the 'full' depth and (b) breadth-first with reference-state merging up to the 'dedup' depth, each history replayed on a fresh \
         real GroupValues and compared step by step to a Vec<key> reference; one evaluation = one history replay, one transition = one new last operation checked; \
         non-trivial = the last operation is an intern that hits both a live key and a new key (or a live key after a partial emit), or a partial emit(First(n<len))",
        explore,
        replay,
    );
}
