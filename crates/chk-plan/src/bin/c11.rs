//! C11 — hash partition index equals the row hash modulo the partition count.
//!
//! The statement quantifies over 2^64 hashes × (2^64 − 1) divisors: not
//! enumerable. Two-part decision (DESIGN §4.3):
//!
//! 1. MODEL: a width-parametric model (`Model`, plain u128 arithmetic, generic
//!    over the word width W) of the strength-reduction algorithm of
//!    `StrengthReducedU64` (mask for powers of two; reciprocal ceil(2^(2W)/d);
//!    quotient = high word of value × reciprocal computed from two W×W → 2W
//!    products with the same carry formula). Checked EXHAUSTIVELY for every
//!    word width W in the tier's range: all 2^W values × all divisors
//!    1..2^W − 1: remainder == value % d, quotient == value / d, and the final
//!    subtraction value − q·d never underflows.
//! 2. CONFORMANCE: the model's W = 64 instance is bound to the real 64-bit code
//!    through the hook `repartition::verif_hooks`: for every divisor of a stated
//!    set and every hash of the boundary set B(d), the real (quotient,
//!    remainder) equal `/` and `%` AND equal the model; for d ≤ 2^20 the real
//!    `partition_indices` puts every row index into exactly the vector
//!    `hash % d`; plus `BatchPartitioner` hash partitioning end to end.
//!
//! This is bounded evidence, NOT a decision of the full 2^128 quantifier.
use arrow::array::{Array, ArrayRef, Int64Array, StringArray, UInt32Array};
use arrow::datatypes::{DataType, Field, Schema, SchemaRef};
use arrow::record_batch::RecordBatch;
use datafusion_common::hash_utils::create_hashes;
use datafusion_physical_expr::PhysicalExpr;
use datafusion_physical_expr::expressions::Column;
use datafusion_physical_plan::metrics::{ExecutionPlanMetricsSet, MetricBuilder};
use datafusion_physical_plan::repartition::verif_hooks::{
    strength_reduced_partition_indices, strength_reduced_quotient,
};
use datafusion_physical_plan::repartition::{BatchPartitioner, REPARTITION_RANDOM_STATE};
use mc_core::serde_json::{Value, json};
use mc_core::{Ctx, Level, rayon::prelude::*, run_check};
use serde::{Deserialize, Serialize};
use std::sync::Arc;

// ------------------------------------------------------------------ demo switch

/// DETECTION-DEMO switch (model / oracle side only; off unless the environment
/// variable `VERIF_DEMO_C11` is set):
/// * `floor`   — the MODEL computes the reciprocal as floor(2^(2W)/d) (no `+ 1`);
/// * `nocarry` — the MODEL drops the carry term of the high-half multiply;
/// * `mask`    — the MODEL uses mask = d instead of d − 1;
/// * `conf`    — the CONFORMANCE expectation for hash = u64::MAX is computed
///   from the wrapped value (wrong `%` expectation).
#[derive(Clone, Copy, PartialEq, Debug)]
enum Plant {
    None,
    Floor,
    NoCarry,
    Mask,
    Conf,
}

fn plant() -> Plant {
    static ON: std::sync::OnceLock<Plant> = std::sync::OnceLock::new();
    *ON.get_or_init(|| match std::env::var("VERIF_DEMO_C11").as_deref() {
        Ok("floor") => Plant::Floor,
        Ok("nocarry") => Plant::NoCarry,
        Ok("mask") => Plant::Mask,
        Ok("conf") => Plant::Conf,
        _ => Plant::None,
    })
}

// ------------------------------------------------------------------ the model

/// Strength-reduced divisor at word width `w` (values and divisors are `w`-bit
/// words, the reciprocal is a `2w`-bit double word).
#[derive(Clone, Copy, Debug)]
enum Reduced {
    Mask { mask: u128 },
    Recip { d: u128, m: u128 },
}

#[derive(Clone, Copy)]
struct Model {
    w: u32, // 1..=64
    plant: Plant,
}

impl Model {
    fn word_ones(&self) -> u128 {
        (1u128 << self.w) - 1
    }
    /// 2^(2w) − 1 (the largest double word).
    fn dword_ones(&self) -> u128 {
        if self.w == 64 { u128::MAX } else { (1u128 << (2 * self.w)) - 1 }
    }
    fn reduce(&self, d: u128) -> Reduced {
        assert!(d > 0 && d <= self.word_ones());
        if d & (d - 1) == 0 {
            Reduced::Mask { mask: if self.plant == Plant::Mask { d } else { d - 1 } }
        } else {
            // ceil(2^(2w) / d) without representing 2^(2w): d is not a power of
            // two, so it does not divide 2^(2w) and ceil = floor((2^(2w)−1)/d) + 1.
            let floor = self.dword_ones() / d;
            Reduced::Recip { d, m: if self.plant == Plant::Floor { floor } else { floor + 1 } }
        }
    }
    /// High word of the 3w-bit product `v * m` (i.e. floor(v·m / 2^(2w))),
    /// truncated to a word, from two w×w → 2w products.
    #[inline]
    fn quotient(&self, v: u128, m: u128) -> u128 {
        let wm = self.word_ones();
        let m_lo = m & wm;
        let m_hi = m >> self.w;
        let low_product = v * m_lo;
        let high_product = v * m_hi;
        let carry = if self.plant == Plant::NoCarry {
            0
        } else {
            ((high_product & wm) + (low_product >> self.w)) >> self.w
        };
        ((high_product >> self.w) + carry) & wm
    }
    /// (quotient if the reciprocal path is taken, remainder); Err if the
    /// algorithm's subtraction `v − q·d` would underflow.
    #[inline]
    fn divrem(&self, red: &Reduced, v: u128) -> Result<(Option<u128>, u128), String> {
        match *red {
            Reduced::Mask { mask } => Ok((None, v & mask)),
            Reduced::Recip { d, m } => {
                let q = self.quotient(v, m);
                let qd = q * d; // < 2^(2w)
                if qd > v {
                    return Err(format!("model: quotient {q} too large: q*d = {qd} > value {v} (subtraction underflows)"));
                }
                Ok((Some(q), v - qd))
            }
        }
    }
}

/// One model state (w, d, v): Ok(true) iff non-trivial (reciprocal path, q ≥ 1).
#[inline]
fn model_point(m: &Model, red: &Reduced, d: u128, v: u128) -> Result<bool, String> {
    let (q, r) = m.divrem(red, v)?;
    if r != v % d {
        return Err(format!("model W={}: remainder {r} != {v} % {d} = {}", m.w, v % d));
    }
    match q {
        None => Ok(false),
        Some(q) => {
            if q != v / d {
                return Err(format!("model W={}: quotient {q} != {v} / {d} = {}", m.w, v / d));
            }
            Ok(q >= 1)
        }
    }
}

// ------------------------------------------------------------------ cases

#[derive(Serialize, Deserialize, Clone, Debug)]
#[serde(tag = "part")]
enum Case {
    /// one state of the model
    Model { w: u32, d: u64, value: u64 },
    /// one conformance evaluation of the real code; via = "quotient" | "indices"
    Conf { d: u64, value: u64, via: String },
    /// BatchPartitioner end to end: n partitions, `keys` key columns (1 or 2)
    E2e { n: usize, keys: u8 },
}

// ------------------------------------------------------------------ conformance

const MAX_INDICES_DIVISOR: u64 = 1 << 20;
const LOCAL_BUF_DIVISOR: u64 = 1 << 16;

/// Divisors with special structure, beyond the dense prefix.
fn special_divisors() -> Vec<u64> {
    let mut v = vec![];
    for k in 0..64u32 {
        let p = 1u64 << k;
        v.push(p);
        if p > 1 {
            v.push(p - 1);
        }
        v.push(p + 1); // k = 63: 2^63 + 1 fits
    }
    v.extend([u64::MAX, u64::MAX - 1]);
    // primes near 2^31, 2^32, 2^63, 2^64 and the Mersenne prime 2^61 − 1
    v.extend([
        2_147_483_647,
        2_147_483_659,
        4_294_967_291,
        4_294_967_311,
        2_305_843_009_213_693_951,
        9_223_372_036_854_775_783,
        9_223_372_036_854_775_837,
        18_446_744_073_709_551_557,
    ]);
    // divisors of 2^128 − 1 = (2^64 − 1)(2^64 + 1): here (2^128 − 1)/d is exact,
    // the place where a floor/ceil slip in the reciprocal shows up
    v.extend([3, 5, 17, 257, 641, 65_537, 6_700_417, 274_177, 67_280_421_310_721, 4_294_967_295]);
    v
}

fn divisor_set(dense_max: u64) -> Vec<u64> {
    let mut v: Vec<u64> = (1..=dense_max).collect();
    v.extend(special_divisors());
    v.sort_unstable();
    v.dedup();
    v
}

/// The boundary set B(d).
fn boundary_hashes(d: u64) -> Vec<u64> {
    let mut out: Vec<u64> = vec![0, u64::MAX];
    for k in 0..64u32 {
        let p = 1u64 << k;
        out.push(p);
        out.push(p - 1);
        out.push(p + 1);
    }
    let dd = d as u128;
    let big_q = (1u128 << 64) / dd; // floor(2^64 / d) ≥ 1
    for q in [0u128, 1, 2, big_q - 1, big_q] {
        for r in [0u128, 1, dd - 1] {
            if r >= dd {
                continue;
            }
            let val = q * dd + r; // ≤ 2^64 + d: no u128 overflow
            if val <= u64::MAX as u128 {
                out.push(val as u64);
            }
        }
    }
    out.sort_unstable();
    out.dedup();
    out
}

/// Expected `%` — the independent oracle (with the conformance-side demo plant).
#[inline]
fn expect_rem(v: u64, d: u64) -> u64 {
    if plant() == Plant::Conf && v == u64::MAX {
        return v.wrapping_add(1) % d;
    }
    v % d
}

/// One conformance evaluation through the quotient hook.
fn conf_quotient_point(m64: &Model, red: &Reduced, d: u64, v: u64) -> Result<bool, String> {
    let (mq, mr) = m64.divrem(red, v as u128).map_err(|e| format!("d={d} hash={v}: {e}"))?;
    let (eq, er) = (v / d, expect_rem(v, d));
    match strength_reduced_quotient(d, v) {
        None => {
            if !d.is_power_of_two() {
                return Err(format!("d={d}: real code takes the mask path for a divisor that is not a power of two"));
            }
            if mq.is_some() {
                return Err(format!("d={d}: real code takes the mask path, the model the reciprocal path"));
            }
            if mr != er as u128 {
                return Err(format!("d={d} hash={v}: model (W=64) remainder {mr} != hash % d = {er}"));
            }
            Ok(false)
        }
        Some((q, r)) => {
            if d.is_power_of_two() {
                return Err(format!("d={d}: real code takes the reciprocal path for a power of two, the model the mask path"));
            }
            if q != eq || r != er {
                return Err(format!(
                    "d={d} hash={v}: real StrengthReducedU64 gives (quotient, remainder) = ({q}, {r}), expected (hash / d, hash % d) = ({eq}, {er})"
                ));
            }
            if mq != Some(q as u128) || mr != r as u128 {
                return Err(format!(
                    "d={d} hash={v}: real code gives (q, r) = ({q}, {r}) but the W=64 model gives ({mq:?}, {mr})"
                ));
            }
            Ok(q >= 1)
        }
    }
}

/// `partition_indices` of the real code for divisor `d` on `hashes`, into
/// `buf[..d]` (all empty on entry, all empty on Ok exit): every row index must
/// land exactly once, in vector `hash % d`, and nowhere else.
fn conf_indices(m64: &Model, red: &Reduced, d: u64, hashes: &[u64], buf: &mut Vec<Vec<u32>>) -> Result<(), (u64, String)> {
    let dn = d as usize;
    if buf.len() < dn {
        buf.resize(dn, Vec::new());
    }
    let slice = &mut buf[..dn];
    if let Err(p) = mc_core::catch(|| strength_reduced_partition_indices(d, hashes, slice)) {
        buf.iter_mut().for_each(|v| v.clear());
        // attribute the panic to a single hash
        for h in hashes {
            let mut one = vec![Vec::new(); dn];
            if mc_core::catch(|| strength_reduced_partition_indices(d, &[*h], &mut one)).is_err() {
                return Err((*h, format!("d={d} hash={h}: partition_indices panicked: {p}")));
            }
        }
        return Err((hashes[0], format!("d={d}: partition_indices panicked on the whole boundary set only: {p}")));
    }
    let mut seen = vec![false; hashes.len()];
    let mut bad: Option<(u64, String)> = None;
    for (p, v) in buf[..dn].iter_mut().enumerate() {
        if v.is_empty() {
            continue;
        }
        for &idx in v.iter() {
            let i = idx as usize;
            if bad.is_some() {
                break;
            }
            if i >= hashes.len() {
                bad = Some((hashes[0], format!("d={d}: partition_indices produced row index {i} >= {}", hashes.len())));
                break;
            }
            let h = hashes[i];
            let er = expect_rem(h, d);
            if p as u64 != er {
                bad = Some((h, format!("d={d} hash={h}: partition_indices assigns partition {p}, expected hash % d = {er}")));
                break;
            }
            match m64.divrem(red, h as u128) {
                Ok((_, mr)) if mr == p as u128 => {}
                other => {
                    bad = Some((h, format!("d={d} hash={h}: partition_indices assigns partition {p}, the W=64 model gives {other:?}")));
                    break;
                }
            }
            if seen[i] {
                bad = Some((h, format!("d={d} hash={h}: row index {i} assigned twice")));
                break;
            }
            seen[i] = true;
        }
        v.clear();
    }
    if let Some(b) = bad {
        return Err(b);
    }
    if let Some(i) = seen.iter().position(|s| !*s) {
        return Err((hashes[i], format!("d={d} hash={}: row index {i} not assigned to any partition", hashes[i])));
    }
    Ok(())
}

#[derive(Default)]
struct ConfStats {
    quotient_evals: u64,
    indices_evals: u64,
    mask_path_selections: u64,
    q_ge_1: u64,
}

/// All conformance evaluations for one divisor. Violations are returned as
/// (case, what).
fn conf_divisor(d: u64, buf: &mut Vec<Vec<u32>>, st: &mut ConfStats) -> Vec<(Case, String)> {
    let m64 = Model { w: 64, plant: plant() };
    let red = m64.reduce(d as u128);
    let hashes = boundary_hashes(d);
    let mut out = vec![];
    for &h in &hashes {
        st.quotient_evals += 1;
        match conf_quotient_point(&m64, &red, d, h) {
            Ok(nt) => {
                if nt {
                    st.q_ge_1 += 1;
                }
                if d.is_power_of_two() {
                    st.mask_path_selections += 1;
                }
            }
            Err(what) => {
                out.push((Case::Conf { d, value: h, via: "quotient".into() }, what));
                break; // one (the smallest) failing hash per divisor and hook
            }
        }
    }
    if d <= MAX_INDICES_DIVISOR {
        st.indices_evals += hashes.len() as u64;
        let r = if d <= LOCAL_BUF_DIVISOR {
            conf_indices(&m64, &red, d, &hashes, buf)
        } else {
            let mut fresh = Vec::new();
            conf_indices(&m64, &red, d, &hashes, &mut fresh)
        };
        if let Err((h, what)) = r {
            buf.iter_mut().for_each(|v| v.clear());
            out.push((Case::Conf { d, value: h, via: "indices".into() }, what));
        }
    }
    out
}

// ------------------------------------------------------------------ end to end

const E2E_ROWS: usize = 4096;
const E2E_BATCH: usize = 1024;

fn e2e_schema() -> SchemaRef {
    Arc::new(Schema::new(vec![
        Field::new("k1", DataType::Int64, true),
        Field::new("k2", DataType::Utf8, true),
        Field::new("id", DataType::UInt32, false),
    ]))
}

fn e2e_batch(schema: &SchemaRef, base: usize, len: usize) -> RecordBatch {
    let ids: Vec<u32> = (base..base + len).map(|i| i as u32).collect();
    // duplicate-heavy, NULL-carrying keys; fixed arithmetic, no randomness
    let k1: Vec<Option<i64>> = ids
        .iter()
        .map(|&i| if i % 17 == 3 { None } else { Some(((i as i64).wrapping_mul(2_654_435_761) >> 7) % 1013 - 500) })
        .collect();
    let k2: Vec<Option<String>> = ids.iter().map(|&i| if i % 29 == 5 { None } else { Some(format!("s{}", (i * 7) % 257)) }).collect();
    RecordBatch::try_new(
        Arc::clone(schema),
        vec![
            Arc::new(Int64Array::from(k1)) as ArrayRef,
            Arc::new(StringArray::from(k2)) as ArrayRef,
            Arc::new(UInt32Array::from(ids)) as ArrayRef,
        ],
    )
    .unwrap()
}

/// Returns (rows routed, partitions that received at least one row).
fn run_e2e(n: usize, keys: u8) -> Result<(u64, usize), String> {
    let schema = e2e_schema();
    let mut exprs: Vec<Arc<dyn PhysicalExpr>> = vec![Arc::new(Column::new("k1", 0))];
    if keys >= 2 {
        exprs.push(Arc::new(Column::new("k2", 1)));
    }
    let metrics = ExecutionPlanMetricsSet::new();
    let timer = MetricBuilder::new(&metrics).subset_time("repart", 0);
    let mut p = BatchPartitioner::new_hash_partitioner(exprs, n, timer).map_err(|e| format!("new_hash_partitioner({n}): {e}"))?;
    let mut rows = 0u64;
    let mut hit = vec![false; n];
    let mut base = 0;
    while base < E2E_ROWS {
        let batch = e2e_batch(&schema, base, E2E_BATCH);
        let key_arrays: Vec<ArrayRef> = (0..keys as usize).map(|c| Arc::clone(batch.column(c))).collect();
        let mut hashes = vec![0u64; batch.num_rows()];
        create_hashes(&key_arrays, REPARTITION_RANDOM_STATE.random_state(), &mut hashes).map_err(|e| format!("create_hashes: {e}"))?;
        let mut seen = vec![false; batch.num_rows()];
        let outs: Vec<_> = p.partition_iter(batch).map_err(|e| format!("partition_iter: {e}"))?.collect();
        for o in outs {
            let (part, rb) = o.map_err(|e| format!("partition_iter item: {e}"))?;
            if part >= n {
                return Err(format!("n={n}: output partition {part} out of range"));
            }
            let ids = rb
                .column(2)
                .as_any()
                .downcast_ref::<UInt32Array>()
                .ok_or_else(|| "id column lost its type".to_string())?;
            for j in 0..ids.len() {
                let id = ids.value(j) as usize;
                if id < base || id >= base + E2E_BATCH {
                    return Err(format!("n={n}: output row id {id} is not a row of the input batch at {base}"));
                }
                let i = id - base;
                if seen[i] {
                    return Err(format!("n={n}: row id {id} emitted twice"));
                }
                seen[i] = true;
                let exp = expect_rem(hashes[i], n as u64);
                if part as u64 != exp {
                    return Err(format!(
                        "n={n} keys={keys}: row id {id} (hash {}) routed to partition {part}, expected hash % n = {exp}",
                        hashes[i]
                    ));
                }
                hit[part] = true;
                rows += 1;
            }
        }
        if let Some(i) = seen.iter().position(|s| !*s) {
            return Err(format!("n={n}: row id {} was not emitted to any partition", base + i));
        }
        base += E2E_BATCH;
    }
    Ok((rows, hit.iter().filter(|h| **h).count()))
}

// ------------------------------------------------------------------ explore

fn case_json(c: &Case) -> Value {
    serde_json::to_value(c).unwrap()
}

fn explore(ctx: &Ctx) {
    let pl = plant();
    let (w_lo, w_hi) = (4u32, ctx.pick(10u32, 12u32));
    let dense_max: u64 = ctx.pick(1 << 12, 1 << 16);
    ctx.set_extra(
        "bounds",
        json!({
            "model_word_widths": [w_lo, w_hi],
            "model_pairs": "every value 0..2^W x every divisor 1..2^W-1, for every W in the range",
            "conformance_divisors": format!("[1, {dense_max}] + {{2^k, 2^k-1, 2^k+1 : k <= 63}} + u64::MAX, u64::MAX-1 + primes near 2^31, 2^32, 2^61, 2^63, 2^64 + divisors of 2^128-1"),
            "conformance_hashes": "B(d) = {q*d + r : q in {0,1,2,floor(2^64/d)-1,floor(2^64/d)}, r in {0,1,d-1}} + {2^k, 2^k-1, 2^k+1 : k <= 63} + {0, u64::MAX}, values above u64::MAX skipped",
            "partition_indices_max_divisor": MAX_INDICES_DIVISOR,
            "e2e": {"n": "1..=64", "rows": E2E_ROWS, "batches": E2E_ROWS / E2E_BATCH, "key_sets": ["k1: Int64 with NULLs", "k1, k2: Int64 + Utf8 with NULLs"]},
        }),
    );
    ctx.set_extra(
        "level_note",
        json!("the full quantifier (2^64 hashes x 2^64-1 divisors) is NOT decided: bounded evidence = exhaustive check of a width-parametric model at small word widths + conformance of the real 64-bit code to that model and to / and % on a boundary set"),
    );
    ctx.assume("create_hashes is taken as given in the end-to-end part (the hash function itself is not the subject of C11)");
    ctx.assume("mask path of the real code is executed only for d = 2^k <= 2^20 (partition_indices allocates d vectors); for larger powers of two only the path selection is observed");
    if pl != Plant::None {
        ctx.set_extra("DETECTION_DEMO", json!(format!("{pl:?}")));
    }

    // ---- part 1: exhaustive check of the model, narrowest width first
    for w in w_lo..=w_hi {
        if ctx.should_stop() {
            break;
        }
        let m = Model { w, plant: pl };
        let n_vals: u64 = 1 << w;
        let ds: Vec<u64> = (1..n_vals).collect();
        let (pairs, nontrivial) = ds
            .par_iter()
            .map(|&d| {
                if ctx.should_stop() {
                    return (0u64, 0u64);
                }
                let red = m.reduce(d as u128);
                let mut nt = 0u64;
                for v in 0..n_vals {
                    match model_point(&m, &red, d as u128, v as u128) {
                        Ok(t) => nt += t as u64,
                        Err(what) => {
                            let c = Case::Model { w, d, value: v };
                            ctx.violation(format!("model:W={w},d={d},value={v}"), what, case_json(&c));
                            return (v, nt); // smallest failing value of this divisor
                        }
                    }
                }
                (n_vals, nt)
            })
            .reduce(|| (0, 0), |a, b| (a.0 + b.0, a.1 + b.1));
        ctx.add_states(pairs);
        ctx.count("model_states", pairs);
        ctx.count("model_states_reciprocal_path_quotient_ge_1", nontrivial);
        for &d in &ds {
            if !d.is_power_of_two() {
                ctx.nontrivial(&("model", w, d));
            }
        }
        ctx.count(&format!("model_states_W{w:02}"), pairs);
    }
    {
        let m = Model { w: w_hi, plant: pl };
        let d = (1u128 << w_hi) - 3;
        let v = (1u128 << w_hi) - 1;
        let red = m.reduce(d);
        ctx.sample(json!({"part": "Model", "w": w_hi, "d": d as u64, "value": v as u64,
            "reduced": format!("{red:?}"), "model_divrem": format!("{:?}", m.divrem(&red, v)), "expected": [(v / d) as u64, (v % d) as u64]}));
    }

    // ---- part 2: conformance of the real 64-bit code
    let divisors = divisor_set(dense_max);
    ctx.count("conformance_divisors", divisors.len() as u64);
    divisors.par_chunks(32).for_each_init(
        || Vec::<Vec<u32>>::new(),
        |buf, chunk| {
            if ctx.should_stop() {
                return;
            }
            let mut st = ConfStats::default();
            for &d in chunk {
                let before = st.q_ge_1;
                for (c, what) in conf_divisor(d, buf, &mut st) {
                    let key = match &c {
                        Case::Conf { d, value, via } => format!("conf:{via}:d={d},hash={value}"),
                        _ => unreachable!(),
                    };
                    ctx.violation(key, what, case_json(&c));
                }
                if st.q_ge_1 > before {
                    ctx.nontrivial(&("conf", d));
                }
            }
            let n = st.quotient_evals + st.indices_evals;
            ctx.evals(n);
            ctx.add_transitions(n);
            ctx.count("conformance_quotient_hook_evaluations", st.quotient_evals);
            ctx.count("conformance_partition_indices_evaluations", st.indices_evals);
            ctx.count("conformance_mask_path_selections", st.mask_path_selections);
            ctx.count("conformance_reciprocal_path_quotient_ge_1", st.q_ge_1);
        },
    );
    for (d, v) in [(u64::MAX - 1, u64::MAX), (3u64, u64::MAX), (4_294_967_291, 1u64 << 63)] {
        ctx.sample(json!({"part": "Conf", "d": d, "value": v, "via": "quotient",
            "real": format!("{:?}", strength_reduced_quotient(d, v)), "expected": [v / d, v % d]}));
    }

    // ---- part 3: BatchPartitioner end to end
    let mut e2e: Vec<(usize, u8)> = vec![];
    for n in 1..=64usize {
        for keys in [1u8, 2] {
            e2e.push((n, keys));
        }
    }
    e2e.par_iter().for_each(|&(n, keys)| {
        if ctx.should_stop() {
            return;
        }
        let c = Case::E2e { n, keys };
        match mc_core::catch(|| run_e2e(n, keys)).unwrap_or_else(Err) {
            Ok((rows, parts_hit)) => {
                ctx.evals(rows);
                ctx.add_transitions(rows);
                ctx.count("e2e_rows_routed", rows);
                if parts_hit == n && n >= 2 {
                    ctx.nontrivial(&("e2e", n, keys));
                } else if n >= 2 {
                    ctx.count("e2e_cases_with_an_empty_partition", 1);
                    ctx.count(&format!("e2e_partitions_hit.n{n:02}.keys{keys}"), parts_hit as u64);
                }
                if n == 7 && keys == 2 {
                    ctx.sample(json!({"part": "E2e", "n": n, "keys": keys, "rows": rows, "partitions_hit": parts_hit}));
                }
            }
            Err(what) => ctx.violation(format!("e2e:n={n},keys={keys}"), what, case_json(&c)),
        }
    });
}

fn replay(v: &Value) -> Result<(), String> {
    let c: Case = serde_json::from_value(v.clone()).map_err(|e| format!("bad case: {e}"))?;
    match c {
        Case::Model { w, d, value } => {
            let m = Model { w, plant: plant() };
            let red = m.reduce(d as u128);
            model_point(&m, &red, d as u128, value as u128).map(|_| ())
        }
        Case::Conf { d, value, via } => {
            let m64 = Model { w: 64, plant: plant() };
            let red = m64.reduce(d as u128);
            if via == "indices" {
                let mut buf = Vec::new();
                conf_indices(&m64, &red, d, &[value], &mut buf).map_err(|e| e.1)
            } else {
                mc_core::catch(|| conf_quotient_point(&m64, &red, d, value)).unwrap_or_else(Err).map(|_| ())
            }
        }
        Case::E2e { n, keys } => mc_core::catch(|| run_e2e(n, keys)).unwrap_or_else(Err).map(|_| ()),
    }
}

fn main() {
    mc_core::quiet_panics();
    run_check(
        "C11",
        Level::ModelChecking,
        "states = every (W, divisor, value) triple of the width-parametric strength-reduction model for every W in the bound (all 2^W values x all divisors 1..2^W-1), each checked against / and %; \
         transitions = conformance evaluations of the real 64-bit code (quotient hook and partition_indices hook on every (divisor, boundary hash) pair, plus every row routed by BatchPartitioner) against / and % and the W=64 model; \
         non-trivial = a (W, d) or a conformance divisor d that is not a power of two (reciprocal path) with some value whose quotient is >= 1, or an end-to-end case with n >= 2 where every partition received rows",
        explore,
        replay,
    );
}
