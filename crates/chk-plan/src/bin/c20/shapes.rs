//! Plan-shape list P shared by C19 / C20: real `datafusion-physical-plan`
//! operators built directly (no optimizer) over `GatedSourceExec` leaves with
//! 2 partitions x 2-3 small batches, plus the harness environment: a counting /
//! refusing `MemoryPool`, the in-memory fault-injecting spill backend, scripted
//! source errors.
#![allow(dead_code)]
use arrow::compute::SortOptions;
use arrow::datatypes::{DataType, Field, Schema, SchemaRef};
use arrow::record_batch::RecordBatch;
use chk_plan::evt::{GatedSourceExec, Item, MemSpillStats, SpillFaults, World, int_batch, int_schema};
use datafusion_common::{DataFusionError, JoinSide, JoinType, NullEquality, Result, ScalarValue};
use datafusion_execution::TaskContext;
use datafusion_execution::config::SessionConfig;
use datafusion_execution::disk_manager::DiskManagerBuilder;
use datafusion_execution::memory_pool::{
    FairSpillPool, MemoryConsumer, MemoryLimit, MemoryPool, MemoryReservation, UnboundedMemoryPool,
};
use datafusion_execution::runtime_env::RuntimeEnvBuilder;
use datafusion_expr::{Operator, WindowFrame, WindowFrameBound, WindowFrameUnits, WindowFunctionDefinition};
use datafusion_functions_aggregate as fa;
use datafusion_physical_expr::aggregate::{AggregateExprBuilder, AggregateFunctionExpr};
use datafusion_physical_expr::expressions::{BinaryExpr, Column, Literal};
use datafusion_physical_expr::{LexOrdering, Partitioning, PhysicalExpr, PhysicalSortExpr};
use datafusion_physical_plan::aggregates::{AggregateExec, AggregateMode, PhysicalGroupBy};
use datafusion_physical_plan::coalesce_partitions::CoalescePartitionsExec;
use datafusion_physical_plan::filter::FilterExec;
use datafusion_physical_plan::joins::utils::{ColumnIndex, JoinFilter};
use datafusion_physical_plan::joins::{
    CrossJoinExec, HashJoinExec, NestedLoopJoinExec, PartitionMode, SortMergeJoinExec, StreamJoinPartitionMode,
    SymmetricHashJoinExec,
};
use datafusion_physical_plan::limit::{GlobalLimitExec, LocalLimitExec};
use datafusion_physical_plan::projection::ProjectionExec;
use datafusion_physical_plan::repartition::RepartitionExec;
use datafusion_physical_plan::sorts::sort::SortExec;
use datafusion_physical_plan::sorts::sort_preserving_merge::SortPreservingMergeExec;
use datafusion_physical_plan::union::{InterleaveExec, UnionExec};
use datafusion_physical_plan::windows::{BoundedWindowAggExec, WindowAggExec, create_window_expr};
use datafusion_common::tree_node::TreeNodeRecursion;
use datafusion_execution::{RecordBatchStream, SendableRecordBatchStream};
use datafusion_physical_plan::execution_plan::{Boundedness, ChildrenPropertiesMode, EmissionType, ReplaceChildrenOptions};
use datafusion_physical_plan::stream::RecordBatchStreamAdapter;
use datafusion_physical_expr::EquivalenceProperties;
use datafusion_physical_plan::{DisplayAs, DisplayFormatType, ExecutionPlan, InputOrderMode, PlanProperties};
use futures::{Stream, StreamExt};
use std::pin::Pin;
use std::task::{Context, Poll};
use parking_lot::Mutex;
use serde::{Deserialize, Serialize};
use std::collections::{BTreeMap, BTreeSet};
use std::sync::Arc;
use std::sync::atomic::{AtomicBool, AtomicUsize, Ordering};

pub const SRC_MARK: &str = "INJECTED source error";
pub const MEM_MARK: &str = "INJECTED memory refusal";
pub const SPILL_MARK: &str = "INJECTED spill failure";

pub type Row = Vec<Option<i64>>;
type Plan = Arc<dyn ExecutionPlan>;

#[derive(Serialize, Deserialize, Clone, Copy, Debug, Hash, PartialEq, Eq, PartialOrd, Ord)]
pub enum Shape {
    FilterProject,
    Coalesce,
    RepartHash,
    RepartRoundRobin,
    RepartPreserveOrder,
    Union,
    Interleave,
    HashJoinCollectLeft,
    HashJoinPartitioned,
    SortMergeJoin,
    NestedLoopJoin,
    CrossJoin,
    SymmetricHashJoin,
    Sort,
    SortPreservePartSpm,
    Spm,
    TopK,
    AggPartialFinal,
    AggSingle,
    AggFinalPartitioned,
    WindowAgg,
    BoundedWindow,
    GlobalLimit,
    LocalLimit,
    // two-level (and deeper) compositions
    SortOverHashJoin,
    AggOverHashJoin,
    LimitOverSpmOverSort,
    FilterOverUnionOverRepart,
    WindowOverSort,
    JoinOverRepartOverAgg,
    SmjOverSortOverRepart,
    TopKOverAgg,
    NljOverRepartRr,
}

pub const ALL_SHAPES: &[Shape] = &[
    Shape::FilterProject,
    Shape::Coalesce,
    Shape::RepartHash,
    Shape::RepartRoundRobin,
    Shape::RepartPreserveOrder,
    Shape::Union,
    Shape::Interleave,
    Shape::HashJoinCollectLeft,
    Shape::HashJoinPartitioned,
    Shape::SortMergeJoin,
    Shape::NestedLoopJoin,
    Shape::CrossJoin,
    Shape::SymmetricHashJoin,
    Shape::Sort,
    Shape::SortPreservePartSpm,
    Shape::Spm,
    Shape::TopK,
    Shape::AggPartialFinal,
    Shape::AggSingle,
    Shape::AggFinalPartitioned,
    Shape::WindowAgg,
    Shape::BoundedWindow,
    Shape::GlobalLimit,
    Shape::LocalLimit,
    Shape::SortOverHashJoin,
    Shape::AggOverHashJoin,
    Shape::LimitOverSpmOverSort,
    Shape::FilterOverUnionOverRepart,
    Shape::WindowOverSort,
    Shape::JoinOverRepartOverAgg,
    Shape::SmjOverSortOverRepart,
    Shape::TopKOverAgg,
    Shape::NljOverRepartRr,
];

impl Shape {
    pub fn name(&self) -> String {
        format!("{self:?}")
    }
    /// the multiset of result rows is a function of the input alone (false: LIMIT without a total order
    /// picks rows that depend on arrival order -> only the row *count* is compared)
    /// The shape contains a `RepartitionExec` that coalesces its output (every non-order-preserving one over a
    /// bounded input).  Its input tasks flush the per-output residual batches in the iteration order of a
    /// randomly seeded `HashMap` (`pull_from_input`: `output_channels.drain()`), so which output asks for memory /
    /// spills first is not a function of the event order unless the coalescer never holds a residual (batch size 1).
    pub fn has_coalescing_repartition(&self) -> bool {
        matches!(
            self,
            Shape::RepartHash
                | Shape::RepartRoundRobin
                | Shape::Interleave
                | Shape::HashJoinPartitioned
                | Shape::AggFinalPartitioned
                | Shape::SortOverHashJoin
                | Shape::LimitOverSpmOverSort
                | Shape::FilterOverUnionOverRepart
                | Shape::JoinOverRepartOverAgg
                | Shape::SmjOverSortOverRepart
                | Shape::TopKOverAgg
                | Shape::NljOverRepartRr
        )
    }
    pub fn exact_rows(&self) -> bool {
        !matches!(self, Shape::GlobalLimit | Shape::LocalLimit | Shape::LimitOverSpmOverSort)
    }
}

// ------------------------------------------------------------------ data

/// Which data layout a source uses.
#[derive(Clone, Copy, Debug, PartialEq, Eq)]
pub enum Data {
    /// unsorted, keys 1..3 in both partitions; 3 + 2 batches of 2 rows
    A,
    /// like A, other ids / values (second union / join input); 2 + 2 batches
    B,
    /// sorted by (k, id), co-partitioned: partition 0 holds keys {1,2}, partition 1 keys {3,4}; 3 + 2 batches
    S,
    /// sorted by (k, id), co-partitioned like S; 2 + 2 batches (right side of the ordered joins)
    T,
    /// sorted by (k, id), keys overlap between the partitions (merge inputs); 3 + 2 batches
    M,
    /// two rows in one partition-batch each (small cross-join build side)
    C,
}

fn r(k: i64, v: i64, id: i64) -> Row {
    vec![Some(k), Some(v), Some(id)]
}

/// partitions -> batches -> rows (k, v, id); every v and id is unique within a layout
pub fn data(d: Data) -> Vec<Vec<Vec<Row>>> {
    match d {
        Data::A => vec![
            vec![vec![r(1, 10, 0), r(2, 20, 1)], vec![r(3, 30, 2), r(1, 40, 3)], vec![r(2, 50, 4), r(3, 60, 5)]],
            vec![vec![r(2, 16, 6), r(3, 25, 7)], vec![r(1, 35, 8), r(5, 45, 9)]],
        ],
        Data::B => vec![
            vec![vec![r(1, 110, 100), r(2, 120, 101)], vec![r(3, 130, 102), r(7, 140, 103)]],
            vec![vec![r(2, 115, 104), r(1, 125, 105)], vec![r(3, 135, 106), r(2, 145, 107)]],
        ],
        Data::S => vec![
            vec![vec![r(1, 10, 0), r(1, 20, 1)], vec![r(1, 30, 2), r(2, 40, 3)], vec![r(2, 50, 4), r(2, 60, 5)]],
            vec![vec![r(3, 15, 6), r(3, 25, 7)], vec![r(4, 35, 8), r(4, 45, 9)]],
        ],
        Data::T => vec![
            vec![vec![r(1, 110, 100), r(2, 120, 101)], vec![r(2, 130, 102), r(2, 140, 103)]],
            vec![vec![r(3, 115, 104), r(3, 125, 105)], vec![r(4, 135, 106), r(6, 145, 107)]],
        ],
        Data::M => vec![
            vec![vec![r(1, 10, 0), r(2, 20, 1)], vec![r(2, 30, 2), r(3, 40, 3)], vec![r(4, 50, 4), r(5, 60, 5)]],
            vec![vec![r(1, 15, 6), r(3, 25, 7)], vec![r(3, 35, 8), r(5, 45, 9)]],
        ],
        Data::C => vec![vec![vec![r(1, 210, 200)], vec![r(2, 220, 201)]], vec![vec![r(3, 230, 202)]]],
    }
}

pub fn is_sorted(d: Data) -> bool {
    matches!(d, Data::S | Data::T | Data::M)
}

// ------------------------------------------------------------------ scenario description

/// One injected fault.
#[derive(Serialize, Deserialize, Clone, Debug, Hash, PartialEq, Eq, PartialOrd, Ord)]
pub enum Fault {
    /// item k of partition p of source s is an error (and the last item of that stream);
    /// k == number of batches = the error comes instead of the end of the stream
    Source { s: usize, p: usize, k: usize },
    /// the k-th (0-based) try_grow of one memory consumer is refused; the consumer is named
    /// `<MemoryConsumer name>#<n>` for the n-th consumer registered under that name in the query
    /// (a per-consumer index does not depend on how the requests of different operators interleave)
    Refuse { consumer: String, k: usize },
    SpillCreate { k: usize },
    SpillWrite { k: usize },
    SpillFinish { k: usize },
}

impl Fault {
    pub fn kind(&self) -> &'static str {
        match self {
            Fault::Source { .. } => "source_error",
            Fault::Refuse { .. } => "refused_try_grow",
            Fault::SpillCreate { .. } => "spill_create",
            Fault::SpillWrite { .. } => "spill_write",
            Fault::SpillFinish { .. } => "spill_finish",
        }
    }
    pub fn marker(&self) -> &'static str {
        match self {
            Fault::Source { .. } => SRC_MARK,
            Fault::Refuse { .. } => MEM_MARK,
            _ => SPILL_MARK,
        }
    }
}

#[derive(Serialize, Deserialize, Clone, Debug, Hash, PartialEq, Eq)]
pub struct Spec {
    pub shape: Shape,
    /// FairSpillPool limit in bytes; None = unbounded pool
    pub budget: Option<usize>,
    pub batch_size: usize,
    pub faults: Vec<Fault>,
    /// drop output j right after it delivered k batches
    pub drop_after: Option<(usize, usize)>,
    /// stop driving (and drop everything) after this many driver steps
    pub stop_at: Option<usize>,
    /// C19 yielding part: 0 = finite gated sources; 1 = endless always-ready cooperative sources declared
    /// bounded; 2 = the same declared unbounded
    #[serde(default)]
    pub endless: u8,
}

impl Spec {
    pub fn new(shape: Shape, budget: Option<usize>, batch_size: usize) -> Spec {
        Spec { shape, budget, batch_size, faults: vec![], drop_after: None, stop_at: None, endless: 0 }
    }
}

// ------------------------------------------------------------------ harness memory pool

/// Wraps a real pool; counts `try_grow` calls per consumer and refuses the scripted ones.
#[derive(Debug)]
pub struct HarnessPool {
    inner: Arc<dyn MemoryPool>,
    refuse: BTreeSet<(String, usize)>,
    /// consumer id -> harness name, registrations per MemoryConsumer name, try_grow calls per harness name
    book: Mutex<PoolBook>,
    pub try_grows: AtomicUsize,
    pub refused: AtomicUsize,
    pub peak: AtomicUsize,
}

#[derive(Debug, Default)]
struct PoolBook {
    names: std::collections::HashMap<usize, String>,
    registered: BTreeMap<String, usize>,
    requests: BTreeMap<String, usize>,
}

impl std::fmt::Display for HarnessPool {
    fn fmt(&self, f: &mut std::fmt::Formatter<'_>) -> std::fmt::Result {
        write!(f, "HarnessPool({})", self.inner)
    }
}

impl HarnessPool {
    pub fn new(inner: Arc<dyn MemoryPool>, refuse: BTreeSet<(String, usize)>) -> Arc<Self> {
        Arc::new(HarnessPool {
            inner,
            refuse,
            book: Default::default(),
            try_grows: AtomicUsize::new(0),
            refused: AtomicUsize::new(0),
            peak: AtomicUsize::new(0),
        })
    }
    fn note_peak(&self) {
        self.peak.fetch_max(self.inner.reserved(), Ordering::SeqCst);
    }
    /// try_grow requests seen per consumer
    pub fn requests(&self) -> BTreeMap<String, usize> {
        self.book.lock().requests.clone()
    }
}

impl MemoryPool for HarnessPool {
    fn name(&self) -> &str {
        "HarnessPool"
    }
    fn register(&self, consumer: &MemoryConsumer) {
        {
            let mut b = self.book.lock();
            let n = b.registered.entry(consumer.name().to_string()).or_insert(0);
            let key = format!("{}#{}", consumer.name(), *n);
            *n += 1;
            b.names.insert(consumer.id(), key);
        }
        self.inner.register(consumer)
    }
    fn unregister(&self, consumer: &MemoryConsumer) {
        self.inner.unregister(consumer)
    }
    fn grow(&self, reservation: &MemoryReservation, additional: usize) {
        self.inner.grow(reservation, additional);
        self.note_peak();
    }
    fn shrink(&self, reservation: &MemoryReservation, shrink: usize) {
        self.inner.shrink(reservation, shrink)
    }
    fn try_grow(&self, reservation: &MemoryReservation, additional: usize) -> Result<()> {
        self.try_grows.fetch_add(1, Ordering::SeqCst);
        let (key, k) = {
            let mut b = self.book.lock();
            let c = reservation.consumer();
            let key = b.names.get(&c.id()).cloned().unwrap_or_else(|| format!("{}#unregistered", c.name()));
            let n = b.requests.entry(key.clone()).or_insert(0);
            let k = *n;
            *n += 1;
            (key, k)
        };
        if self.refuse.contains(&(key.clone(), k)) {
            self.refused.fetch_add(1, Ordering::SeqCst);
            return Err(DataFusionError::ResourcesExhausted(format!("{MEM_MARK}: request #{k} of {key} for {additional} bytes")));
        }
        let r = self.inner.try_grow(reservation, additional);
        self.note_peak();
        r
    }
    fn reserved(&self) -> usize {
        self.inner.reserved()
    }
    fn memory_limit(&self) -> MemoryLimit {
        self.inner.memory_limit()
    }
}

// ------------------------------------------------------------------ in-memory spill backend

/// In-memory `TempFileFactory` with fault injection (k-th create / write / finish over the whole query fails).
/// Unlike a one-shot snapshot, a read stream behaves like `ReaderStream` over a real file that is still being
/// appended to: every poll yields the bytes between the reader's offset and the current end of the file, and the
/// stream ends when it is polled with nothing new to read.  The spill pool of `RepartitionExec` reads files while
/// they are written and relies on exactly that.
pub struct SpillBackend {
    pub stats: Arc<MemSpillStats>,
    faults: SpillFaults,
}

impl SpillBackend {
    pub fn new(faults: SpillFaults) -> Arc<Self> {
        Arc::new(SpillBackend { stats: Default::default(), faults })
    }
}

fn injected(n: &AtomicUsize, at: Option<usize>, what: &str) -> Result<()> {
    let k = n.fetch_add(1, Ordering::SeqCst);
    if Some(k) == at {
        return Err(DataFusionError::Execution(format!("{SPILL_MARK}: {what} #{k}")));
    }
    Ok(())
}

struct MemFile {
    content: Arc<Mutex<Vec<u8>>>,
    stats: Arc<MemSpillStats>,
    faults: SpillFaults,
}

impl Drop for MemFile {
    fn drop(&mut self) {
        self.stats.live_files.fetch_sub(1, Ordering::SeqCst);
    }
}

struct MemFileReader {
    content: Arc<Mutex<Vec<u8>>>,
    offset: usize,
    opened: bool,
    done: bool,
}

impl Stream for MemFileReader {
    type Item = Result<bytes::Bytes>;
    fn poll_next(mut self: Pin<&mut Self>, cx: &mut Context<'_>) -> Poll<Option<Self::Item>> {
        if self.done {
            return Poll::Ready(None);
        }
        if !self.opened {
            // opening a real file is asynchronous: the first poll is Pending with an immediate wake-up
            self.opened = true;
            cx.waker().wake_by_ref();
            return Poll::Pending;
        }
        let chunk = {
            let c = self.content.lock();
            let end = c.len().min(self.offset + 128 * 1024);
            bytes::Bytes::copy_from_slice(&c[self.offset..end])
        };
        if chunk.is_empty() {
            self.done = true;
            return Poll::Ready(None);
        }
        self.offset += chunk.len();
        Poll::Ready(Some(Ok(chunk)))
    }
}

impl datafusion_execution::SpillFile for MemFile {
    fn size(&self) -> Option<u64> {
        Some(self.content.lock().len() as u64)
    }
    fn read_stream(&self) -> Result<Pin<Box<dyn Stream<Item = Result<bytes::Bytes>> + Send>>> {
        Ok(Box::pin(MemFileReader { content: Arc::clone(&self.content), offset: 0, opened: false, done: false }))
    }
    fn open_writer(&self) -> Result<Box<dyn datafusion_execution::SpillWriter>> {
        Ok(Box::new(MemFileWriter { content: Arc::clone(&self.content), stats: Arc::clone(&self.stats), faults: self.faults }))
    }
}

struct MemFileWriter {
    content: Arc<Mutex<Vec<u8>>>,
    stats: Arc<MemSpillStats>,
    faults: SpillFaults,
}

impl std::io::Write for MemFileWriter {
    fn write(&mut self, buf: &[u8]) -> std::io::Result<usize> {
        if let Err(e) = injected(&self.stats.writes, self.faults.write, "write") {
            return Err(std::io::Error::other(e.to_string()));
        }
        self.content.lock().extend_from_slice(buf);
        self.stats.bytes_written.fetch_add(buf.len(), Ordering::SeqCst);
        Ok(buf.len())
    }
    fn flush(&mut self) -> std::io::Result<()> {
        Ok(())
    }
}

impl datafusion_execution::SpillWriter for MemFileWriter {
    fn finish(&mut self) -> Result<()> {
        injected(&self.stats.finishes, self.faults.finish, "finish")
    }
}

impl datafusion_execution::TempFileFactory for SpillBackend {
    fn create_temp_file(&self, _description: &str) -> Result<Arc<dyn datafusion_execution::SpillFile>> {
        injected(&self.stats.created, self.faults.create, "create_temp_file")?;
        self.stats.live_files.fetch_add(1, Ordering::SeqCst);
        Ok(Arc::new(MemFile { content: Default::default(), stats: Arc::clone(&self.stats), faults: self.faults }))
    }
}

// ------------------------------------------------------------------ expression helpers

pub fn col(name: &str, i: usize) -> Arc<dyn PhysicalExpr> {
    Arc::new(Column::new(name, i))
}
pub fn lit(v: i64) -> Arc<dyn PhysicalExpr> {
    Arc::new(Literal::new(ScalarValue::Int64(Some(v))))
}
pub fn bin(l: Arc<dyn PhysicalExpr>, op: Operator, r: Arc<dyn PhysicalExpr>) -> Arc<dyn PhysicalExpr> {
    Arc::new(BinaryExpr::new(l, op, r))
}
pub fn asc(e: Arc<dyn PhysicalExpr>) -> PhysicalSortExpr {
    PhysicalSortExpr::new(e, SortOptions { descending: false, nulls_first: false })
}
pub fn ordering(v: Vec<PhysicalSortExpr>) -> LexOrdering {
    LexOrdering::new(v).expect("non-empty ordering")
}
fn by_name(plan: &Plan, name: &str) -> Arc<dyn PhysicalExpr> {
    let s = plan.schema();
    col(name, s.index_of(name).unwrap_or_else(|_| panic!("harness: no column {name} in {s:?}")))
}
fn arc<T: ExecutionPlan + 'static>(t: T) -> Plan {
    Arc::new(t)
}

// ------------------------------------------------------------------ builder

/// One leaf of the plan, in fault-addressing order (`Fault::Source::s`).
pub struct SrcInfo {
    /// None: an always-ready, re-executable source (not driven by the event order)
    pub gated: Option<Arc<GatedSourceExec>>,
    pub batches: Vec<usize>,
    /// ready sources: the scripted error of partition p was handed out
    pub error_seen: Vec<Arc<AtomicBool>>,
    /// endless sources: per partition (batches handed out, live streams)
    pub endless: Vec<Arc<EndlessCounters>>,
}

pub struct Builder<'a> {
    spec: &'a Spec,
    pub sources: Vec<Arc<GatedSourceExec>>,
    pub infos: Vec<SrcInfo>,
}

impl<'a> Builder<'a> {
    fn scripts(&self, s: usize, d: Data, schema: &SchemaRef) -> Vec<Vec<Item>> {
        let mut scripts: Vec<Vec<Item>> = vec![];
        for (p, batches) in data(d).iter().enumerate() {
            let mut items: Vec<Item> = batches.iter().map(|b| Item::Batch(int_batch(schema, b))).collect();
            for f in &self.spec.faults {
                if let Fault::Source { s: fs, p: fp, k } = f {
                    if *fs == s && *fp == p && *k <= batches.len() {
                        items.truncate(*k);
                        items.push(Item::Error(format!("{SRC_MARK} s{s} p{p} k{k}")));
                    }
                }
            }
            scripts.push(items);
        }
        scripts
    }

    /// an endless, always-ready source behind the `CooperativeExec` wrapper the planner puts on such leaves
    fn endless_src(&mut self, d: Data, prefix: &str) -> Plan {
        let names: Vec<String> = ["k", "v", "id"].iter().map(|n| format!("{prefix}{n}")).collect();
        let schema = int_schema(&names.iter().map(|x| x.as_str()).collect::<Vec<_>>());
        let nparts = data(d).len();
        let counters: Vec<Arc<EndlessCounters>> = (0..nparts).map(|_| Default::default()).collect();
        self.infos.push(SrcInfo { gated: None, batches: vec![usize::MAX; nparts], error_seen: vec![], endless: counters.clone() });
        let mut eq = EquivalenceProperties::new(Arc::clone(&schema));
        if is_sorted(d) {
            eq.add_ordering(ordering(vec![asc(col(&names[0], 0)), asc(col(&names[2], 2))]));
        }
        let boundedness = if self.spec.endless == 2 { Boundedness::Unbounded { requires_infinite_memory: false } } else { Boundedness::Bounded };
        let props = PlanProperties::new(eq, Partitioning::UnknownPartitioning(nparts), EmissionType::Incremental, boundedness);
        let e: Plan = Arc::new(EndlessSourceExec { schema, layout: d, counters, props: Arc::new(props) });
        Arc::new(datafusion_physical_plan::coop::CooperativeExec::new(e))
    }

    /// an always-ready source that can be executed any number of times (every execution replays the script):
    /// the build side of `NestedLoopJoinExec`, whose memory-limited fallback executes its left child again
    fn ready_src(&mut self, d: Data, prefix: &str) -> Plan {
        if self.spec.endless > 0 {
            return self.endless_src(d, prefix);
        }
        let s = self.infos.len();
        let names: Vec<String> = ["k", "v", "id"].iter().map(|n| format!("{prefix}{n}")).collect();
        let schema = int_schema(&names.iter().map(|x| x.as_str()).collect::<Vec<_>>());
        let scripts = self.scripts(s, d, &schema);
        let flags: Vec<Arc<AtomicBool>> = scripts.iter().map(|_| Arc::new(AtomicBool::new(false))).collect();
        self.infos.push(SrcInfo { gated: None, batches: data(d).iter().map(|b| b.len()).collect(), error_seen: flags.clone(), endless: vec![] });
        let props = PlanProperties::new(
            EquivalenceProperties::new(Arc::clone(&schema)),
            Partitioning::UnknownPartitioning(scripts.len()),
            EmissionType::Incremental,
            Boundedness::Bounded,
        );
        Arc::new(ReadySourceExec { schema, scripts, flags, props: Arc::new(props) })
    }

    /// a gated source over layout `d`, column names `<prefix>k, <prefix>v, <prefix>id`
    fn src(&mut self, d: Data, prefix: &str) -> Plan {
        if self.spec.endless > 0 {
            return self.endless_src(d, prefix);
        }
        let s = self.infos.len();
        let names: Vec<String> = ["k", "v", "id"].iter().map(|n| format!("{prefix}{n}")).collect();
        let schema = int_schema(&names.iter().map(|x| x.as_str()).collect::<Vec<_>>());
        let scripts = self.scripts(s, d, &schema);
        let ord = if is_sorted(d) { Some(ordering(vec![asc(col(&names[0], 0)), asc(col(&names[2], 2))])) } else { None };
        let g = GatedSourceExec::new(&format!("{prefix}{d:?}"), schema, scripts, ord);
        self.sources.push(Arc::clone(&g));
        self.infos.push(SrcInfo { gated: Some(Arc::clone(&g)), batches: data(d).iter().map(|b| b.len()).collect(), error_seen: vec![], endless: vec![] });
        g
    }
}

fn coalesce(p: Plan) -> Plan {
    arc(CoalescePartitionsExec::new(p))
}
fn repart_hash(p: Plan, key: &str, n: usize) -> Plan {
    let k = by_name(&p, key);
    arc(RepartitionExec::try_new(p, Partitioning::Hash(vec![k], n)).expect("harness: RepartitionExec"))
}
fn repart_rr(p: Plan, n: usize) -> Plan {
    arc(RepartitionExec::try_new(p, Partitioning::RoundRobinBatch(n)).expect("harness: RepartitionExec"))
}
fn filter_gt(p: Plan, c: &str, v: i64) -> Plan {
    let e = bin(by_name(&p, c), Operator::Gt, lit(v));
    arc(FilterExec::try_new(e, p).expect("harness: FilterExec"))
}
fn sort_by(p: Plan, cols: &[&str], preserve: bool, fetch: Option<usize>) -> Plan {
    let ord = ordering(cols.iter().map(|c| asc(by_name(&p, c))).collect());
    arc(SortExec::new(ord, p).with_preserve_partitioning(preserve).with_fetch(fetch))
}
fn spm_by(p: Plan, cols: &[&str]) -> Plan {
    let ord = ordering(cols.iter().map(|c| asc(by_name(&p, c))).collect());
    arc(SortPreservingMergeExec::new(ord, p))
}

fn aggs(schema: &SchemaRef, v: &str) -> Vec<Arc<AggregateFunctionExpr>> {
    let vi = schema.index_of(v).expect("harness: aggregate argument");
    let mk = |f, args: Vec<Arc<dyn PhysicalExpr>>, name: &str| {
        Arc::new(AggregateExprBuilder::new(f, args).schema(Arc::clone(schema)).alias(name).build().expect("harness: aggregate"))
    };
    vec![mk(fa::sum::sum_udaf(), vec![col(v, vi)], "sum_v"), mk(fa::count::count_udaf(), vec![lit(1)], "cnt")]
}

/// two-stage or single-stage aggregation `GROUP BY key: sum(v), count(*)`
enum AggKind {
    Single,
    PartialFinal,
    PartialFinalPartitioned,
}

fn aggregate(p: Plan, key: &str, v: &str, kind: AggKind) -> Plan {
    let schema = p.schema();
    let gb = PhysicalGroupBy::new_single(vec![(by_name(&p, key), key.to_string())]);
    let a = aggs(&schema, v);
    let nf: Vec<Option<Arc<dyn PhysicalExpr>>> = vec![None; a.len()];
    let mk = |mode, gb: PhysicalGroupBy, input: Plan| -> Plan {
        arc(AggregateExec::try_new(mode, gb, a.clone(), nf.clone(), input, Arc::clone(&schema)).expect("harness: AggregateExec"))
    };
    match kind {
        AggKind::Single => mk(AggregateMode::Single, gb, coalesce(p)),
        AggKind::PartialFinal => {
            let part = mk(AggregateMode::Partial, gb.clone(), p);
            mk(AggregateMode::Final, gb.as_final(), coalesce(part))
        }
        AggKind::PartialFinalPartitioned => {
            let part = mk(AggregateMode::Partial, gb.clone(), p);
            let rep = repart_hash(part, key, 2);
            mk(AggregateMode::FinalPartitioned, gb.as_final(), rep)
        }
    }
}

fn join_on(l: &Plan, lk: &str, r: &Plan, rk: &str) -> Vec<(Arc<dyn PhysicalExpr>, Arc<dyn PhysicalExpr>)> {
    vec![(by_name(l, lk), by_name(r, rk))]
}

/// join filter `l.<lc> < r.<rc>`
fn lt_filter(l: &Plan, lc: &str, r: &Plan, rc: &str) -> JoinFilter {
    let li = l.schema().index_of(lc).unwrap();
    let ri = r.schema().index_of(rc).unwrap();
    let schema = Arc::new(Schema::new(vec![Field::new("a", DataType::Int64, true), Field::new("b", DataType::Int64, true)]));
    JoinFilter::new(
        bin(col("a", 0), Operator::Lt, col("b", 1)),
        vec![ColumnIndex { index: li, side: JoinSide::Left }, ColumnIndex { index: ri, side: JoinSide::Right }],
        schema,
    )
}

fn hash_join(l: Plan, r: Plan, lk: &str, rk: &str, jt: JoinType, mode: PartitionMode) -> Plan {
    let on = join_on(&l, lk, &r, rk);
    arc(HashJoinExec::try_new(l, r, on, None, &jt, None, mode, NullEquality::NullEqualsNothing, false).expect("harness: HashJoinExec"))
}

fn smj(l: Plan, r: Plan, lk: &str, rk: &str, jt: JoinType) -> Plan {
    let on = join_on(&l, lk, &r, rk);
    let so = SortOptions { descending: false, nulls_first: false };
    arc(SortMergeJoinExec::try_new(l, r, on, None, jt, vec![so], NullEquality::NullEqualsNothing).expect("harness: SortMergeJoinExec"))
}

fn window_expr(p: &Plan, bounded: bool, part: &str, ord: &str, arg: &str) -> Arc<dyn datafusion_physical_expr::window::WindowExpr> {
    let fun = WindowFunctionDefinition::AggregateUDF(fa::sum::sum_udaf());
    let partition_by = vec![by_name(p, part)];
    let (order_by, frame) = if bounded {
        (
            vec![asc(by_name(p, ord))],
            WindowFrame::new_bounds(
                WindowFrameUnits::Rows,
                WindowFrameBound::Preceding(ScalarValue::UInt64(Some(1))),
                WindowFrameBound::CurrentRow,
            ),
        )
    } else {
        (vec![], WindowFrame::new(None))
    };
    create_window_expr(&fun, "w".to_string(), &[by_name(p, arg)], &partition_by, &order_by, Arc::new(frame), p.schema(), false, false, None)
        .expect("harness: window expr")
}

fn bounded_window(p: Plan, part: &str, ord: &str, arg: &str) -> Plan {
    let e = window_expr(&p, true, part, ord, arg);
    arc(BoundedWindowAggExec::try_new(vec![e], p, InputOrderMode::Sorted, true).expect("harness: BoundedWindowAggExec"))
}

pub fn build_plan(spec: &Spec) -> (Plan, Vec<Arc<GatedSourceExec>>, Vec<SrcInfo>) {
    let mut b = Builder { spec, sources: vec![], infos: vec![] };
    use Shape::*;
    let plan: Plan = match spec.shape {
        FilterProject => {
            let f = filter_gt(b.src(Data::A, ""), "v", 12);
            let exprs = vec![
                (by_name(&f, "k"), "k".to_string()),
                (bin(by_name(&f, "v"), Operator::Plus, lit(1)), "v1".to_string()),
                (by_name(&f, "id"), "id".to_string()),
            ];
            arc(ProjectionExec::try_new(exprs, f).expect("harness: ProjectionExec"))
        }
        Coalesce => coalesce(b.src(Data::A, "")),
        RepartHash => repart_hash(b.src(Data::A, ""), "k", 2),
        RepartRoundRobin => repart_rr(b.src(Data::A, ""), 3),
        RepartPreserveOrder => {
            let s = b.src(Data::M, "");
            let k = by_name(&s, "k");
            arc(RepartitionExec::try_new(s, Partitioning::Hash(vec![k], 2)).expect("harness: RepartitionExec").with_preserve_order())
        }
        Union => UnionExec::try_new(vec![b.src(Data::A, ""), b.src(Data::B, "")]).expect("harness: UnionExec"),
        Interleave => {
            let x = repart_hash(b.src(Data::A, ""), "k", 2);
            let y = repart_hash(b.src(Data::B, ""), "k", 2);
            arc(InterleaveExec::try_new(vec![x, y]).expect("harness: InterleaveExec"))
        }
        HashJoinCollectLeft => {
            let l = coalesce(b.src(Data::B, "l"));
            let r = b.src(Data::A, "r");
            hash_join(l, r, "lk", "rk", JoinType::Left, PartitionMode::CollectLeft)
        }
        HashJoinPartitioned => {
            let l = repart_hash(b.src(Data::B, "l"), "lk", 2);
            let r = repart_hash(b.src(Data::A, "r"), "rk", 2);
            hash_join(l, r, "lk", "rk", JoinType::Full, PartitionMode::Partitioned)
        }
        SortMergeJoin => {
            let l = b.src(Data::S, "l");
            let r = b.src(Data::T, "r");
            smj(l, r, "lk", "rk", JoinType::Full)
        }
        NestedLoopJoin => {
            let l = coalesce(b.ready_src(Data::B, "l"));
            let r = b.src(Data::A, "r");
            let f = lt_filter(&l, "lk", &r, "rk");
            arc(NestedLoopJoinExec::try_new(l, r, Some(f), &JoinType::Left, None).expect("harness: NestedLoopJoinExec"))
        }
        CrossJoin => {
            let l = coalesce(b.src(Data::C, "l"));
            let r = b.src(Data::A, "r");
            arc(CrossJoinExec::new(l, r))
        }
        SymmetricHashJoin => {
            let l = b.src(Data::S, "l");
            let r = b.src(Data::T, "r");
            let on = join_on(&l, "lk", &r, "rk");
            arc(SymmetricHashJoinExec::try_new(
                l,
                r,
                on,
                None,
                &JoinType::Full,
                NullEquality::NullEqualsNothing,
                None,
                None,
                StreamJoinPartitionMode::Partitioned,
            )
            .expect("harness: SymmetricHashJoinExec"))
        }
        Sort => sort_by(coalesce(b.src(Data::A, "")), &["v"], false, None),
        SortPreservePartSpm => spm_by(sort_by(b.src(Data::A, ""), &["v"], true, None), &["v"]),
        Spm => spm_by(b.src(Data::M, ""), &["k", "id"]),
        TopK => sort_by(coalesce(b.src(Data::A, "")), &["v"], false, Some(3)),
        AggPartialFinal => aggregate(b.src(Data::A, ""), "k", "v", AggKind::PartialFinal),
        AggSingle => aggregate(b.src(Data::A, ""), "k", "v", AggKind::Single),
        AggFinalPartitioned => coalesce(aggregate(b.src(Data::A, ""), "k", "v", AggKind::PartialFinalPartitioned)),
        WindowAgg => {
            let s = b.src(Data::S, "");
            let e = window_expr(&s, false, "k", "id", "v");
            arc(WindowAggExec::try_new(vec![e], s, true).expect("harness: WindowAggExec"))
        }
        BoundedWindow => bounded_window(b.src(Data::S, ""), "k", "id", "v"),
        GlobalLimit => arc(GlobalLimitExec::new(coalesce(b.src(Data::A, "")), 1, Some(4))),
        LocalLimit => arc(LocalLimitExec::new(b.src(Data::A, ""), 3)),
        SortOverHashJoin => {
            let l = repart_hash(b.src(Data::B, "l"), "lk", 2);
            let r = repart_hash(b.src(Data::A, "r"), "rk", 2);
            let j = hash_join(l, r, "lk", "rk", JoinType::Inner, PartitionMode::Partitioned);
            sort_by(coalesce(j), &["rv", "lv"], false, None)
        }
        AggOverHashJoin => {
            let l = coalesce(b.src(Data::B, "l"));
            let r = b.src(Data::A, "r");
            let j = hash_join(l, r, "lk", "rk", JoinType::Inner, PartitionMode::CollectLeft);
            aggregate(j, "lk", "rv", AggKind::PartialFinal)
        }
        LimitOverSpmOverSort => {
            let s = sort_by(repart_hash(b.src(Data::A, ""), "k", 2), &["v"], true, None);
            arc(GlobalLimitExec::new(spm_by(s, &["v"]), 0, Some(3)))
        }
        FilterOverUnionOverRepart => {
            let x = repart_rr(b.src(Data::A, ""), 2);
            let y = b.src(Data::B, "");
            filter_gt(UnionExec::try_new(vec![x, y]).expect("harness: UnionExec"), "v", 12)
        }
        WindowOverSort => bounded_window(sort_by(coalesce(b.src(Data::A, "")), &["k", "id"], false, None), "k", "id", "v"),
        JoinOverRepartOverAgg => {
            let l = aggregate(b.src(Data::B, "l"), "lk", "lv", AggKind::PartialFinalPartitioned);
            let r = repart_hash(b.src(Data::A, "r"), "rk", 2);
            hash_join(l, r, "lk", "rk", JoinType::Inner, PartitionMode::Partitioned)
        }
        SmjOverSortOverRepart => {
            let l = sort_by(repart_hash(b.src(Data::B, "l"), "lk", 2), &["lk"], true, None);
            let r = sort_by(repart_hash(b.src(Data::A, "r"), "rk", 2), &["rk"], true, None);
            smj(l, r, "lk", "rk", JoinType::Inner)
        }
        TopKOverAgg => {
            let a = coalesce(aggregate(b.src(Data::A, ""), "k", "v", AggKind::PartialFinalPartitioned));
            sort_by(a, &["sum_v"], false, Some(2))
        }
        NljOverRepartRr => {
            let l = coalesce(repart_rr(b.src(Data::C, "l"), 2));
            let r = repart_rr(b.src(Data::A, "r"), 2);
            let f = lt_filter(&l, "lk", &r, "rk");
            arc(NestedLoopJoinExec::try_new(l, r, Some(f), &JoinType::Inner, None).expect("harness: NestedLoopJoinExec"))
        }
    };
    (plan, b.sources, b.infos)
}

// ------------------------------------------------------------------ environment

/// What the check inspects after a run (beyond the RunRecord).
pub struct Probe {
    pub pool: Arc<HarnessPool>,
    pub sources: Vec<SrcInfo>,
    pub spill: Arc<SpillBackend>,
    pub consumer: Arc<ConsumerStats>,
}

impl Probe {
    /// the scripted error of source s / partition p was handed to the plan
    pub fn source_ended(&self, s: usize, p: usize) -> bool {
        match &self.sources[s].gated {
            Some(g) => g.gates[p].lock().ended,
            None => self.sources[s].error_seen[p].load(Ordering::SeqCst),
        }
    }
}

pub type Slot = Arc<Mutex<Option<Probe>>>;

pub fn make_ctx(spec: &Spec) -> (Arc<TaskContext>, Arc<HarnessPool>, Arc<SpillBackend>) {
    let inner: Arc<dyn MemoryPool> = match spec.budget {
        Some(l) => Arc::new(FairSpillPool::new(l)),
        None => Arc::new(UnboundedMemoryPool::default()),
    };
    let refuse: BTreeSet<(String, usize)> =
        spec.faults.iter().filter_map(|f| if let Fault::Refuse { consumer, k } = f { Some((consumer.clone(), *k)) } else { None }).collect();
    let pool = HarnessPool::new(inner, refuse);
    let mut sf = SpillFaults::default();
    for f in &spec.faults {
        match f {
            Fault::SpillCreate { k } => sf.create = Some(*k),
            Fault::SpillWrite { k } => sf.write = Some(*k),
            Fault::SpillFinish { k } => sf.finish = Some(*k),
            _ => {}
        }
    }
    let spill = SpillBackend::new(sf);
    let rt = RuntimeEnvBuilder::new()
        .with_memory_pool(pool.clone() as Arc<dyn MemoryPool>)
        .with_disk_manager_builder(DiskManagerBuilder::default().with_temp_file_factory(spill.clone()))
        .build_arc()
        .expect("harness: runtime env");
    let mut cfg = SessionConfig::new().with_batch_size(spec.batch_size);
    cfg.options_mut().execution.sort_spill_reservation_bytes = 0;
    let ctx = Arc::new(TaskContext::default().with_session_config(cfg).with_runtime(rt));
    (ctx, pool, spill)
}

/// Builds a fresh world for `spec`; the probe is left in `slot`. `wrap` lets a check put
/// its own operator on top of the plan (detection demos).
pub fn build_world(spec: &Spec, slot: &Slot, wrap: &dyn Fn(Plan, &Spec) -> Plan) -> World {
    let (plan, sources, infos) = build_plan(spec);
    let plan = wrap(plan, spec);
    let consumer: Arc<ConsumerStats> = Default::default();
    let plan = consumer_model(plan, Arc::clone(&consumer));
    let (ctx, pool, spill) = make_ctx(spec);
    *slot.lock() = Some(Probe { pool, sources: infos, spill: spill.clone(), consumer });
    World {
        plan,
        sources,
        ctx,
        allow_drop: false,
        drop_after: spec.drop_after,
        max_steps: spec.stop_at.unwrap_or(600),
        spill: Some(spill.stats.clone()),
    }
}

// ------------------------------------------------------------------ always-ready, re-executable source

pub struct ReadySourceExec {
    schema: SchemaRef,
    scripts: Vec<Vec<Item>>,
    flags: Vec<Arc<AtomicBool>>,
    props: Arc<PlanProperties>,
}

impl std::fmt::Debug for ReadySourceExec {
    fn fmt(&self, f: &mut std::fmt::Formatter<'_>) -> std::fmt::Result {
        write!(f, "ReadySourceExec")
    }
}

impl DisplayAs for ReadySourceExec {
    fn fmt_as(&self, _t: DisplayFormatType, f: &mut std::fmt::Formatter) -> std::fmt::Result {
        write!(f, "ReadySourceExec")
    }
}

impl ExecutionPlan for ReadySourceExec {
    fn name(&self) -> &'static str {
        "ReadySourceExec"
    }
    fn properties(&self) -> &Arc<PlanProperties> {
        &self.props
    }
    fn children(&self) -> Vec<&Arc<dyn ExecutionPlan>> {
        vec![]
    }
    fn replace_children(self: Arc<Self>, _children: Vec<Plan>, _: ReplaceChildrenOptions) -> Result<Plan> {
        Ok(self)
    }
    fn apply_expressions(&self, _f: &mut dyn FnMut(&Arc<dyn PhysicalExpr>) -> Result<TreeNodeRecursion>) -> Result<TreeNodeRecursion> {
        Ok(TreeNodeRecursion::Continue)
    }
    fn with_new_children(self: Arc<Self>, _children: Vec<Plan>) -> Result<Plan> {
        Ok(self)
    }
    fn execute(&self, partition: usize, _context: Arc<TaskContext>) -> Result<SendableRecordBatchStream> {
        let flag = Arc::clone(&self.flags[partition]);
        let items = self.scripts[partition].clone().into_iter().map(move |it| match it {
            Item::Batch(b) => Ok(b),
            Item::Error(e) => {
                flag.store(true, Ordering::SeqCst);
                Err(DataFusionError::Execution(e))
            }
        });
        Ok(Box::pin(RecordBatchStreamAdapter::new(Arc::clone(&self.schema), futures::stream::iter(items))))
    }
}

// ------------------------------------------------------------------ endless source

#[derive(Debug, Default)]
pub struct EndlessCounters {
    pub batches: AtomicUsize,
    pub live: AtomicUsize,
}

/// Never `Pending`, never ends: batch i of partition p holds two rows; sorted layouts have non-decreasing keys
/// (co-partitioned ones: keys of parity p), unsorted ones cycle through keys 1..3.
pub struct EndlessSourceExec {
    schema: SchemaRef,
    layout: Data,
    counters: Vec<Arc<EndlessCounters>>,
    props: Arc<PlanProperties>,
}

impl std::fmt::Debug for EndlessSourceExec {
    fn fmt(&self, f: &mut std::fmt::Formatter<'_>) -> std::fmt::Result {
        write!(f, "EndlessSourceExec")
    }
}

impl DisplayAs for EndlessSourceExec {
    fn fmt_as(&self, _t: DisplayFormatType, f: &mut std::fmt::Formatter) -> std::fmt::Result {
        write!(f, "EndlessSourceExec")
    }
}

struct EndlessStream {
    schema: SchemaRef,
    layout: Data,
    partition: i64,
    i: i64,
    counters: Arc<EndlessCounters>,
}

impl Stream for EndlessStream {
    type Item = Result<RecordBatch>;
    fn poll_next(mut self: Pin<&mut Self>, _cx: &mut Context<'_>) -> Poll<Option<Self::Item>> {
        let i = self.i;
        self.i += 1;
        self.counters.batches.fetch_add(1, Ordering::SeqCst);
        let p = self.partition;
        let rows: Vec<Row> = (0..2i64)
            .map(|row| {
                let k = match self.layout {
                    Data::S | Data::T => 2 * (i / 2) + p,
                    Data::M => i / 2,
                    _ => (i + row) % 3 + 1,
                };
                r(k, 13 + (i * 7 + row) % 50, i * 2 + row)
            })
            .collect();
        Poll::Ready(Some(Ok(int_batch(&self.schema, &rows))))
    }
}

impl Drop for EndlessStream {
    fn drop(&mut self) {
        self.counters.live.fetch_sub(1, Ordering::SeqCst);
    }
}

impl RecordBatchStream for EndlessStream {
    fn schema(&self) -> SchemaRef {
        Arc::clone(&self.schema)
    }
}

impl ExecutionPlan for EndlessSourceExec {
    fn name(&self) -> &'static str {
        "EndlessSourceExec"
    }
    fn properties(&self) -> &Arc<PlanProperties> {
        &self.props
    }
    fn children(&self) -> Vec<&Arc<dyn ExecutionPlan>> {
        vec![]
    }
    fn replace_children(self: Arc<Self>, _children: Vec<Plan>, _: ReplaceChildrenOptions) -> Result<Plan> {
        Ok(self)
    }
    fn apply_expressions(&self, _f: &mut dyn FnMut(&Arc<dyn PhysicalExpr>) -> Result<TreeNodeRecursion>) -> Result<TreeNodeRecursion> {
        Ok(TreeNodeRecursion::Continue)
    }
    fn with_new_children(self: Arc<Self>, _children: Vec<Plan>) -> Result<Plan> {
        Ok(self)
    }
    fn execute(&self, partition: usize, _context: Arc<TaskContext>) -> Result<SendableRecordBatchStream> {
        let c = Arc::clone(&self.counters[partition]);
        c.live.fetch_add(1, Ordering::SeqCst);
        Ok(Box::pin(EndlessStream { schema: Arc::clone(&self.schema), layout: self.layout, partition: partition as i64, i: 0, counters: c }))
    }
}

// ------------------------------------------------------------------ pass-through wrapper operator

pub type StreamFn = Arc<dyn Fn(SendableRecordBatchStream, usize) -> SendableRecordBatchStream + Send + Sync>;

/// Transparent operator of the harness: same properties as its input, every partition stream is
/// passed through `f` (consumer model; planted defects of the detection demos).
pub struct WrapExec {
    label: &'static str,
    input: Plan,
    f: StreamFn,
}

impl WrapExec {
    pub fn new(label: &'static str, input: Plan, f: StreamFn) -> Plan {
        Arc::new(WrapExec { label, input, f })
    }
}

impl std::fmt::Debug for WrapExec {
    fn fmt(&self, f: &mut std::fmt::Formatter<'_>) -> std::fmt::Result {
        write!(f, "WrapExec({})", self.label)
    }
}

impl DisplayAs for WrapExec {
    fn fmt_as(&self, _t: DisplayFormatType, f: &mut std::fmt::Formatter) -> std::fmt::Result {
        write!(f, "WrapExec({})", self.label)
    }
}

impl ExecutionPlan for WrapExec {
    fn name(&self) -> &'static str {
        "WrapExec"
    }
    fn properties(&self) -> &Arc<PlanProperties> {
        self.input.properties()
    }
    fn children(&self) -> Vec<&Arc<dyn ExecutionPlan>> {
        vec![&self.input]
    }
    fn replace_children(self: Arc<Self>, children: Vec<Plan>, _: ReplaceChildrenOptions) -> Result<Plan> {
        Ok(Arc::new(WrapExec { label: self.label, input: Arc::clone(&children[0]), f: Arc::clone(&self.f) }))
    }
    fn apply_expressions(&self, _f: &mut dyn FnMut(&Arc<dyn PhysicalExpr>) -> Result<TreeNodeRecursion>) -> Result<TreeNodeRecursion> {
        Ok(TreeNodeRecursion::Continue)
    }
    fn with_new_children(self: Arc<Self>, children: Vec<Plan>) -> Result<Plan> {
        self.replace_children(children, ReplaceChildrenOptions::new(ChildrenPropertiesMode::Recompute))
    }
    fn execute(&self, partition: usize, context: Arc<TaskContext>) -> Result<SendableRecordBatchStream> {
        Ok((self.f)(self.input.execute(partition, context)?, partition))
    }
}

/// What the streams did when polled once more right after their first error (informational).
#[derive(Debug, Default)]
pub struct ConsumerStats {
    pub after_error_none: AtomicUsize,
    pub after_error_err: AtomicUsize,
    pub after_error_batch: AtomicUsize,
    pub after_error_pending: AtomicUsize,
    pub after_error_panic: AtomicUsize,
}

/// The consumer of a query stream as every caller in DataFusion is written (`collect`, `try_collect`,
/// the forwarding tasks of the exchange operators): it stops at the first error and drops the stream.
struct ConsumerStream {
    schema: SchemaRef,
    inner: Option<SendableRecordBatchStream>,
    stats: Arc<ConsumerStats>,
}

impl Stream for ConsumerStream {
    type Item = Result<RecordBatch>;
    fn poll_next(mut self: Pin<&mut Self>, cx: &mut Context<'_>) -> Poll<Option<Self::Item>> {
        let Some(inner) = self.inner.as_mut() else { return Poll::Ready(None) };
        match inner.poll_next_unpin(cx) {
            Poll::Ready(Some(Err(e))) => {
                // classify what a consumer that kept polling would see next, then stop
                let c = match std::panic::catch_unwind(std::panic::AssertUnwindSafe(|| inner.poll_next_unpin(cx))) {
                    Ok(Poll::Ready(None)) => &self.stats.after_error_none,
                    Ok(Poll::Ready(Some(Err(_)))) => &self.stats.after_error_err,
                    Ok(Poll::Ready(Some(Ok(_)))) => &self.stats.after_error_batch,
                    Ok(Poll::Pending) => &self.stats.after_error_pending,
                    Err(_) => &self.stats.after_error_panic,
                };
                c.fetch_add(1, Ordering::SeqCst);
                self.inner = None;
                Poll::Ready(Some(Err(e)))
            }
            Poll::Ready(None) => {
                self.inner = None;
                Poll::Ready(None)
            }
            other => other,
        }
    }
}

impl RecordBatchStream for ConsumerStream {
    fn schema(&self) -> SchemaRef {
        Arc::clone(&self.schema)
    }
}

pub fn consumer_model(plan: Plan, stats: Arc<ConsumerStats>) -> Plan {
    WrapExec::new(
        "consumer",
        plan,
        Arc::new(move |s, _| Box::pin(ConsumerStream { schema: s.schema(), inner: Some(s), stats: Arc::clone(&stats) })),
    )
}

pub struct RunOut {
    pub trace: mc_core::explore::Trace,
    pub rec: chk_plan::evt::RunRecord,
    pub probe: Probe,
}

pub fn run_spec(spec: &Spec, prefix: &[usize], wrap: &'static (dyn Fn(Plan, &Spec) -> Plan + Sync)) -> RunOut {
    let slot: Slot = Default::default();
    let s2 = Arc::clone(&slot);
    let sp = spec.clone();
    let build = move || build_world(&sp, &s2, wrap);
    let (trace, rec) = chk_plan::evt::run_one(&build, prefix);
    let probe = slot.lock().take().expect("probe");
    RunOut { trace, rec, probe }
}

pub fn no_wrap(p: Plan, _: &Spec) -> Plan {
    p
}

/// Smallest FairSpillPool limit of a fixed grid (fractions of the peak reservation of the unbounded run) under
/// which the fault-free default-order run still completes with the same rows and spills at least one file.
/// Returns (limit, spill files created).
pub fn calibrate(shape: Shape, batch_size: usize) -> Option<(usize, usize)> {
    let ok = |o: &RunOut| !o.rec.deadlock && o.rec.execute_error.is_none() && o.rec.outputs.iter().all(|x| x.error.is_none() && x.finished);
    let rows = |o: &RunOut| {
        let mut v: Vec<String> = o.rec.outputs.iter().flat_map(|x| rows_text(&x.batches)).collect();
        v.sort();
        v
    };
    let unb = run_spec(&Spec::new(shape, None, batch_size), &[], &no_wrap);
    let peak = unb.probe.pool.peak.load(Ordering::SeqCst);
    if !ok(&unb) || peak == 0 {
        return None;
    }
    let want = rows(&unb);
    let mut best = None;
    for div in [(3, 4), (1, 2), (1, 3), (1, 4), (1, 6), (1, 8), (1, 16)] {
        let limit = peak * div.0 / div.1;
        if limit == 0 {
            continue;
        }
        let spec = Spec::new(shape, Some(limit), batch_size);
        let Ok(o) = std::panic::catch_unwind(std::panic::AssertUnwindSafe(|| run_spec(&spec, &[], &no_wrap))) else { continue };
        let created = o.probe.spill.stats.created.load(Ordering::SeqCst);
        if ok(&o) && created >= 1 && (rows(&o) == want || !shape.exact_rows()) {
            best = Some((limit, created));
        }
    }
    best
}

/// every output row as text (any column type), for multiset comparison
pub fn rows_text(batches: &[RecordBatch]) -> Vec<String> {
    let mut out = vec![];
    for b in batches {
        for i in 0..b.num_rows() {
            let cells: Vec<String> = b
                .columns()
                .iter()
                .map(|c| arrow::util::display::array_value_to_string(c, i).unwrap_or_else(|e| format!("<{e}>")))
                .collect();
            out.push(cells.join(","));
        }
    }
    out
}

/// multiset inclusion: every element of `want` (with multiplicity) occurs in `got`; returns a missing element
pub fn missing_from(want: &[String], got: &[String]) -> Option<String> {
    let mut m: std::collections::BTreeMap<&str, i64> = Default::default();
    for g in got {
        *m.entry(g.as_str()).or_insert(0) += 1;
    }
    for w in want {
        let e = m.entry(w.as_str()).or_insert(0);
        *e -= 1;
        if *e < 0 {
            return Some(w.clone());
        }
    }
    None
}
