//! C31 (query level) — dynamic filters never remove rows that contribute to the result.
//!
//! Style E (engine `evt`).  Real plans — `HashJoinExec` (CollectLeft and
//! Partitioned, optionally with the production `HashJoinBuffering` rule's eager
//! `BufferExec` on the probe side), `SortExec(fetch)` (TopK; per-partition TopK
//! under `SortPreservingMergeExec` and a single TopK over
//! `CoalescePartitionsExec`) and the un-grouped partial `AggregateExec`
//! (min/max) — are hand-built over [`FilteringGatedSource`] leaves and wired by
//! the real `FilterPushdown::new_post_optimization()` rule, so the dynamic filter
//! of the operator ends up *inside* the leaf exactly where production puts it.
//! The leaf keeps every partition stream `Pending` until the driver releases
//! the next scripted batch and evaluates the filter it holds *at the moment the
//! batch is delivered* (`PhysicalExpr::evaluate` → `DynamicFilterPhysicalExpr::
//! current()`), forwards the passing rows and records every discarded row.
//! All orders of {release next batch / end of input of a source partition, poll
//! output j, (optionally) drop output j} within a deviation bound are explored.
//!
//! Oracle.  (i) every fully consumed run returns the multiset the *same plan*
//! returns with dynamic filter pushdown disabled (itself cross-checked against
//! an independent nested-loop / sort / min-max reference); TopK: the top-k sort
//! keys, ties free.  (ii) every discarded row is judged directly: a discarded
//! probe row must have no join partner under the join's null equality; a row
//! discarded below a TopK must not sort strictly before the final k-th key;
//! and the independent reference evaluated on the inputs *minus* the discarded
//! rows must give the reference result of the full inputs (this is what decides
//! min/max, null-aware anti joins and join types that preserve unmatched probe
//! rows).  A discarded row that contributes is a violation even when the final
//! result happens to be equal.
use arrow::array::{Array, ArrayRef, BooleanArray, Int64Array, RecordBatch};
use arrow::compute::{SortOptions, filter_record_batch};
use arrow::datatypes::{DataType, Field, Schema, SchemaRef};
use chk_plan::evt::{self, Action, GatedSourceExec, Item, RunRecord, World, int_batch};
use datafusion_common::config::ConfigOptions;
use datafusion_common::tree_node::{Transformed, TreeNode, TreeNodeRecursion};
use datafusion_common::{JoinType, NullEquality, Result, ScalarValue, internal_err};
use datafusion_execution::config::SessionConfig;
use datafusion_execution::runtime_env::RuntimeEnvBuilder;
use datafusion_execution::{RecordBatchStream, SendableRecordBatchStream, TaskContext};
use datafusion_expr::Operator;
use datafusion_functions_aggregate as fa;
use datafusion_physical_expr::aggregate::AggregateExprBuilder;
use datafusion_physical_expr::expressions::{BinaryExpr, Column, Literal};
use datafusion_physical_expr::{LexOrdering, Partitioning, PhysicalExpr, PhysicalSortExpr, conjunction};
use datafusion_physical_expr_common::physical_expr::snapshot_physical_expr;
use datafusion_physical_optimizer::PhysicalOptimizerRule;
use datafusion_physical_optimizer::filter_pushdown::FilterPushdown;
use datafusion_physical_optimizer::hash_join_buffering::HashJoinBuffering;
use datafusion_physical_plan::aggregates::{AggregateExec, AggregateMode, PhysicalGroupBy};
use datafusion_physical_plan::coalesce_partitions::CoalescePartitionsExec;
use datafusion_physical_plan::execution_plan::{ChildrenPropertiesMode, ReplaceChildrenOptions};
use datafusion_physical_plan::filter_pushdown::{
    ChildPushdownResult, FilterPushdownPhase, FilterPushdownPropagation, PushedDown,
};
use datafusion_physical_plan::joins::{HashJoinExec, PartitionMode};
use datafusion_common::hash_utils::create_hashes;
use datafusion_physical_plan::repartition::{REPARTITION_RANDOM_STATE, RepartitionExec};
use datafusion_physical_plan::sorts::sort::SortExec;
use datafusion_physical_plan::sorts::sort_preserving_merge::SortPreservingMergeExec;
use datafusion_physical_plan::{DisplayAs, DisplayFormatType, ExecutionPlan, PlanProperties, displayable};
use futures::{Stream, StreamExt};
use mc_core::serde_json::{Value, json};
use mc_core::{Ctx, Level, rayon::prelude::*, run_check};
use parking_lot::Mutex;
use serde::{Deserialize, Serialize};
use std::cell::RefCell;
use std::cmp::Ordering;
use std::collections::BTreeMap;
use std::pin::Pin;
use std::sync::Arc;
use std::task::{Context, Poll};

/// joins: [k, k2, id]; TopK / aggregate: [k, v, id]
type Row = Vec<Option<i64>>;
/// partitions × batches × rows
type Parts = Vec<Vec<Vec<Row>>>;

// ------------------------------------------------------------------ the filtering gated source

#[derive(Debug, Clone, Serialize)]
struct Discard {
    partition: usize,
    row: Row,
    /// the expression the dynamic filter stood for when the row was discarded
    filter: String,
}

#[derive(Debug, Default)]
struct SourceLog {
    /// filters handed to this source by the optimizer rule (display form)
    installed: Vec<String>,
    /// batches evaluated against a held filter
    evals: usize,
    /// evaluations that saw only the initial placeholder (`true`)
    evals_placeholder: usize,
    rows_seen: usize,
    discarded: Vec<Discard>,
    /// distinct current expressions seen at evaluation time
    snapshots: Vec<String>,
}

/// Leaf that gates like `evt::GatedSourceExec` (it owns one and re-uses its gates so the engine's
/// driver can release items) and additionally absorbs pushed-down filters the way a file source
/// does: `handle_child_pushdown_result` accepts every parent filter, `apply_expressions` exposes it
/// (producers look for their consumer through it), and every delivered batch is filtered with the
/// filter *as it stands at that moment*.
#[derive(Debug)]
struct FilteringGatedSource {
    inner: Arc<GatedSourceExec>,
    filter: Option<Arc<dyn PhysicalExpr>>,
    log: Arc<Mutex<SourceLog>>,
    /// detection demo: evaluate a deliberately too-strict version of the filter
    mutate: bool,
    label: String,
}

impl FilteringGatedSource {
    fn new(label: &str, inner: Arc<GatedSourceExec>, mutate: bool) -> (Arc<Self>, Arc<Mutex<SourceLog>>) {
        let log = Arc::new(Mutex::new(SourceLog::default()));
        (Arc::new(Self { inner, filter: None, log: Arc::clone(&log), mutate, label: label.to_string() }), log)
    }
}

impl DisplayAs for FilteringGatedSource {
    fn fmt_as(&self, _t: DisplayFormatType, f: &mut std::fmt::Formatter) -> std::fmt::Result {
        write!(f, "FilteringGatedSource({})", self.label)?;
        if let Some(p) = &self.filter {
            write!(f, ", predicate={p}")?;
        }
        Ok(())
    }
}

impl ExecutionPlan for FilteringGatedSource {
    fn name(&self) -> &'static str {
        "FilteringGatedSource"
    }
    fn properties(&self) -> &Arc<PlanProperties> {
        self.inner.properties()
    }
    fn children(&self) -> Vec<&Arc<dyn ExecutionPlan>> {
        vec![]
    }
    fn replace_children(
        self: Arc<Self>,
        children: Vec<Arc<dyn ExecutionPlan>>,
        _: ReplaceChildrenOptions,
    ) -> Result<Arc<dyn ExecutionPlan>> {
        if children.is_empty() { Ok(self) } else { internal_err!("FilteringGatedSource has no children") }
    }
    fn apply_expressions(
        &self,
        f: &mut dyn FnMut(&Arc<dyn PhysicalExpr>) -> Result<TreeNodeRecursion>,
    ) -> Result<TreeNodeRecursion> {
        match &self.filter {
            Some(e) => f(e),
            None => Ok(TreeNodeRecursion::Continue),
        }
    }
    fn with_new_children(self: Arc<Self>, children: Vec<Arc<dyn ExecutionPlan>>) -> Result<Arc<dyn ExecutionPlan>> {
        self.replace_children(children, ReplaceChildrenOptions::new(ChildrenPropertiesMode::Recompute))
    }
    fn execute(&self, partition: usize, context: Arc<TaskContext>) -> Result<SendableRecordBatchStream> {
        let inner = self.inner.execute(partition, context)?;
        Ok(Box::pin(FilteringStream {
            inner,
            partition,
            filter: self.filter.clone(),
            log: Arc::clone(&self.log),
            mutate: self.mutate,
        }))
    }
    fn handle_child_pushdown_result(
        &self,
        _phase: FilterPushdownPhase,
        child_pushdown_result: ChildPushdownResult,
        _config: &ConfigOptions,
    ) -> Result<FilterPushdownPropagation<Arc<dyn ExecutionPlan>>> {
        let mut filters: Vec<Arc<dyn PhysicalExpr>> =
            child_pushdown_result.parent_filters.into_iter().map(|f| f.filter).collect();
        let n = filters.len();
        if n == 0 {
            return Ok(FilterPushdownPropagation::with_parent_pushdown_result(vec![]));
        }
        if let Some(old) = &self.filter {
            filters.push(Arc::clone(old));
        }
        let predicate = conjunction(filters);
        self.log.lock().installed.push(predicate.to_string());
        let new_node = Arc::new(FilteringGatedSource {
            inner: Arc::clone(&self.inner),
            filter: Some(predicate),
            log: Arc::clone(&self.log),
            mutate: self.mutate,
            label: self.label.clone(),
        });
        Ok(FilterPushdownPropagation::with_parent_pushdown_result(vec![PushedDown::Yes; n])
            .with_updated_node(new_node as Arc<dyn ExecutionPlan>))
    }
}

struct FilteringStream {
    inner: SendableRecordBatchStream,
    partition: usize,
    filter: Option<Arc<dyn PhysicalExpr>>,
    log: Arc<Mutex<SourceLog>>,
    mutate: bool,
}

/// detection demo only: `<=`/`>=` become strict and strict comparisons against an integer literal
/// move the literal one step further — a filter that is too strict by exactly one value
fn too_strict(expr: Arc<dyn PhysicalExpr>) -> Result<Arc<dyn PhysicalExpr>> {
    expr.transform_up(|e| {
        let Some(b) = e.downcast_ref::<BinaryExpr>() else { return Ok(Transformed::no(e)) };
        let shifted = |delta: i64| -> Option<Arc<dyn PhysicalExpr>> {
            let l = b.right().downcast_ref::<Literal>()?;
            match l.value() {
                ScalarValue::Int64(Some(x)) => Some(Arc::new(Literal::new(ScalarValue::Int64(Some(x + delta))))),
                _ => None,
            }
        };
        let new: Option<Arc<dyn PhysicalExpr>> = match b.op() {
            Operator::LtEq => Some(Arc::new(BinaryExpr::new(Arc::clone(b.left()), Operator::Lt, Arc::clone(b.right())))),
            Operator::GtEq => Some(Arc::new(BinaryExpr::new(Arc::clone(b.left()), Operator::Gt, Arc::clone(b.right())))),
            Operator::Lt => shifted(-1).map(|r| Arc::new(BinaryExpr::new(Arc::clone(b.left()), Operator::Lt, r)) as _),
            Operator::Gt => shifted(1).map(|r| Arc::new(BinaryExpr::new(Arc::clone(b.left()), Operator::Gt, r)) as _),
            _ => None,
        };
        Ok(match new {
            Some(n) => Transformed::yes(n),
            None => Transformed::no(e),
        })
    })
    .map(|t| t.data)
}

impl FilteringStream {
    fn apply(&self, batch: RecordBatch) -> Result<RecordBatch> {
        let Some(filter) = &self.filter else { return Ok(batch) };
        let n = batch.num_rows();
        // what the dynamic filter stands for right now (for the record; the evaluation below reads it itself)
        let snapshot = snapshot_physical_expr(Arc::clone(filter))?;
        let snap_text = snapshot.to_string();
        let value = if self.mutate { too_strict(snapshot)?.evaluate(&batch)? } else { filter.evaluate(&batch)? };
        let array = value.into_array(n)?;
        let Some(mask) = array.as_any().downcast_ref::<BooleanArray>() else {
            return internal_err!("pushed filter evaluated to {:?}, not Boolean", array.data_type());
        };
        // NULL = not true = discarded, as FilterExec and the file sources treat it
        let keep: Vec<bool> = (0..n).map(|i| mask.is_valid(i) && mask.value(i)).collect();
        let rows = rows_of(&batch);
        {
            let mut log = self.log.lock();
            log.evals += 1;
            log.rows_seen += n;
            if snap_text == "true" {
                log.evals_placeholder += 1;
            }
            if !log.snapshots.contains(&snap_text) {
                log.snapshots.push(snap_text.clone());
            }
            for (i, k) in keep.iter().enumerate() {
                if !k {
                    log.discarded.push(Discard { partition: self.partition, row: rows[i].clone(), filter: snap_text.clone() });
                }
            }
        }
        Ok(filter_record_batch(&batch, &BooleanArray::from(keep))?)
    }
}

impl Stream for FilteringStream {
    type Item = Result<RecordBatch>;
    fn poll_next(mut self: Pin<&mut Self>, cx: &mut Context<'_>) -> Poll<Option<Self::Item>> {
        loop {
            match futures::ready!(self.inner.poll_next_unpin(cx)) {
                Some(Ok(batch)) => {
                    let had_rows = batch.num_rows() > 0;
                    match self.apply(batch) {
                        // a batch that was discarded entirely is not delivered (as a scan does)
                        Ok(out) if had_rows && out.num_rows() == 0 => continue,
                        Ok(out) => return Poll::Ready(Some(Ok(out))),
                        Err(e) => return Poll::Ready(Some(Err(e))),
                    }
                }
                other => return Poll::Ready(other),
            }
        }
    }
}

impl RecordBatchStream for FilteringStream {
    fn schema(&self) -> SchemaRef {
        self.inner.schema()
    }
}

/// batch -> rows; Int64 and Boolean (mark) columns
fn rows_of(b: &RecordBatch) -> Vec<Row> {
    let n = b.num_rows();
    let mut rows = vec![Vec::with_capacity(b.num_columns()); n];
    for c in b.columns() {
        if let Some(a) = c.as_any().downcast_ref::<Int64Array>() {
            for (i, r) in rows.iter_mut().enumerate() {
                r.push(if a.is_null(i) { None } else { Some(a.value(i)) });
            }
        } else if let Some(a) = c.as_any().downcast_ref::<BooleanArray>() {
            for (i, r) in rows.iter_mut().enumerate() {
                r.push(if a.is_null(i) { None } else { Some(a.value(i) as i64) });
            }
        } else {
            panic!("unexpected column type {:?}", c.data_type());
        }
    }
    rows
}

// ------------------------------------------------------------------ scenarios

#[derive(Serialize, Deserialize, Clone, Copy, Debug, Hash, PartialEq, Eq)]
enum JT {
    Inner,
    Left,
    Right,
    Full,
    LeftSemi,
    RightSemi,
    LeftAnti,
    RightAnti,
    LeftMark,
    RightMark,
}

const ALL_JT: [JT; 10] =
    [JT::Inner, JT::Left, JT::LeftSemi, JT::RightSemi, JT::LeftAnti, JT::LeftMark, JT::Right, JT::Full, JT::RightAnti, JT::RightMark];

impl JT {
    fn df(self) -> JoinType {
        match self {
            JT::Inner => JoinType::Inner,
            JT::Left => JoinType::Left,
            JT::Right => JoinType::Right,
            JT::Full => JoinType::Full,
            JT::LeftSemi => JoinType::LeftSemi,
            JT::RightSemi => JoinType::RightSemi,
            JT::LeftAnti => JoinType::LeftAnti,
            JT::RightAnti => JoinType::RightAnti,
            JT::LeftMark => JoinType::LeftMark,
            JT::RightMark => JoinType::RightMark,
        }
    }
    /// join types for which production pushes a dynamic filter to the probe (right) side:
    /// exactly those whose output cannot contain or depend on a probe row without build partner
    fn pushes(self) -> bool {
        matches!(self, JT::Inner | JT::Left | JT::LeftSemi | JT::RightSemi | JT::LeftAnti | JT::LeftMark)
    }
}

#[derive(Serialize, Deserialize, Clone, Copy, Debug, Hash, PartialEq, Eq)]
enum Strat {
    /// defaults: small build side => `key IN (..)` AND bounds
    InList,
    /// `hash_join_inlist_pushdown_max_distinct_values = 0` => hash_lookup on the join map (ArrayMap where the
    /// perfect-hash path applies) AND bounds
    LookupArray,
    /// as above with the perfect-hash path disabled => hash_lookup on the JoinHashMap AND bounds
    LookupHash,
}

#[derive(Serialize, Deserialize, Clone, Debug, Hash, PartialEq)]
enum Kind {
    Join {
        /// None: CollectLeft (build side one partition, probe partitions = output partitions);
        /// Some(n): Partitioned, both sides behind RepartitionExec(Hash(keys), n)
        partitioned: Option<usize>,
        jt: JT,
        null_eq: bool,
        null_aware: bool,
        strat: Strat,
        keys: usize,
        /// production rule HashJoinBuffering: eager BufferExec on the probe side
        buffered: bool,
    },
    TopK {
        /// true: SortPreservingMerge(fetch) over SortExec(fetch, preserve_partitioning) — one TopK per
        /// partition sharing one filter; false: SortExec(fetch) over CoalescePartitionsExec
        merge: bool,
        k: usize,
        desc: bool,
        nulls_first: bool,
        keys: usize,
    },
    /// Final(CoalescePartitions(Partial)) without grouping; (is_max, column) per aggregate
    Agg { funcs: Vec<(bool, usize)> },
}

impl Kind {
    fn family(&self) -> &'static str {
        match self {
            Kind::Join { partitioned: None, buffered: false, .. } => "join_collect_left",
            Kind::Join { partitioned: None, buffered: true, .. } => "join_collect_left_buffered",
            Kind::Join { partitioned: Some(_), buffered: false, .. } => "join_partitioned",
            Kind::Join { partitioned: Some(_), buffered: true, .. } => "join_partitioned_buffered",
            Kind::TopK { merge: true, .. } => "topk_merge",
            Kind::TopK { merge: false, .. } => "topk_coalesce",
            Kind::Agg { .. } => "agg_minmax",
        }
    }
    /// does production push a dynamic filter for this configuration?
    fn expects_filter(&self) -> bool {
        match self {
            Kind::Join { jt, .. } => jt.pushes(),
            _ => true,
        }
    }
}

#[derive(Serialize, Deserialize, Clone, Debug, Hash)]
struct Scenario {
    kind: Kind,
    /// joins only
    build: Parts,
    probe: Parts,
    allow_drop: bool,
    /// `datafusion.optimizer.enable_dynamic_filter_pushdown`
    dynamic: bool,
    /// detection demo (C31Q_SELFTEST=strict): the source evaluates a too-strict version of the filter
    mutate: bool,
    prefix: Vec<usize>,
}

fn flat(p: &Parts) -> Vec<Row> {
    p.iter().flatten().flatten().cloned().collect()
}

fn col(name: &str, i: usize) -> Arc<dyn PhysicalExpr> {
    Arc::new(Column::new(name, i))
}

fn schema_of(names: &[&str], first_nullable: bool) -> SchemaRef {
    Arc::new(Schema::new(
        names.iter().enumerate().map(|(i, c)| Field::new(*c, DataType::Int64, i != 0 || first_nullable)).collect::<Vec<_>>(),
    ))
}

fn scripts(schema: &SchemaRef, parts: &Parts) -> Vec<Vec<Item>> {
    parts.iter().map(|p| p.iter().map(|b| Item::Batch(int_batch(schema, b))).collect()).collect()
}

struct Aux {
    /// logs of the filtering sources: [build, probe] for joins, [input] otherwise
    logs: Vec<Arc<Mutex<SourceLog>>>,
    plan_text: String,
}

fn session_config(sc: &Scenario) -> SessionConfig {
    let mut cfg = SessionConfig::new().with_batch_size(32);
    let o = cfg.options_mut();
    let mut set = |k: &str, v: &str| o.set(k, v).unwrap_or_else(|e| panic!("set {k}: {e}"));
    // the master switch also sets the join / topk / aggregate sub-switches
    set("datafusion.optimizer.enable_dynamic_filter_pushdown", if sc.dynamic { "true" } else { "false" });
    if let Kind::Join { strat, buffered, .. } = &sc.kind {
        match strat {
            Strat::InList => {}
            Strat::LookupArray => set("datafusion.optimizer.hash_join_inlist_pushdown_max_distinct_values", "0"),
            Strat::LookupHash => {
                set("datafusion.optimizer.hash_join_inlist_pushdown_max_distinct_values", "0");
                set("datafusion.execution.perfect_hash_join_small_build_threshold", "0");
                set("datafusion.execution.perfect_hash_join_min_key_density", "1000000000");
            }
        }
        if *buffered {
            set("datafusion.execution.hash_join_buffering_capacity", "1048576");
        }
    }
    cfg
}

fn build_world(sc: &Scenario) -> (World, Aux) {
    let cfg = session_config(sc);
    let opts: ConfigOptions = cfg.options().as_ref().clone();
    let mut sources: Vec<Arc<GatedSourceExec>> = vec![];
    let mut logs = vec![];
    let plan: Arc<dyn ExecutionPlan> = match &sc.kind {
        Kind::Join { partitioned, jt, null_eq, null_aware, keys, buffered, .. } => {
            // a null-aware anti join only gets a dynamic filter when its build key is NOT NULL
            let bs = schema_of(&["bk", "bk2", "bid"], !*null_aware);
            let ps = schema_of(&["pk", "pk2", "pid"], true);
            let build_parts: Parts = if partitioned.is_some() {
                sc.build.clone()
            } else {
                vec![sc.build.iter().flatten().cloned().collect()]
            };
            let bsrc = GatedSourceExec::new("build", Arc::clone(&bs), scripts(&bs, &build_parts), None);
            let psrc = GatedSourceExec::new("probe", Arc::clone(&ps), scripts(&ps, &sc.probe), None);
            let (bf, blog) = FilteringGatedSource::new("build", Arc::clone(&bsrc), sc.mutate);
            let (pf, plog) = FilteringGatedSource::new("probe", Arc::clone(&psrc), sc.mutate);
            sources.push(bsrc);
            sources.push(psrc);
            logs.push(blog);
            logs.push(plog);
            let mut on = vec![(col("bk", 0), col("pk", 0))];
            let (mut lk, mut rk) = (vec![col("bk", 0)], vec![col("pk", 0)]);
            if *keys >= 2 {
                on.push((col("bk2", 1), col("pk2", 1)));
                lk.push(col("bk2", 1));
                rk.push(col("pk2", 1));
            }
            let (left, right, mode): (Arc<dyn ExecutionPlan>, Arc<dyn ExecutionPlan>, PartitionMode) = match partitioned {
                None => (bf, pf, PartitionMode::CollectLeft),
                Some(n) => (
                    Arc::new(RepartitionExec::try_new(bf, Partitioning::Hash(lk, *n)).expect("repartition build")),
                    Arc::new(RepartitionExec::try_new(pf, Partitioning::Hash(rk, *n)).expect("repartition probe")),
                    PartitionMode::Partitioned,
                ),
            };
            let ne = if *null_eq { NullEquality::NullEqualsNull } else { NullEquality::NullEqualsNothing };
            let join = HashJoinExec::try_new(left, right, on, None, &jt.df(), None, mode, ne, *null_aware).expect("HashJoinExec");
            let mut plan: Arc<dyn ExecutionPlan> = Arc::new(join);
            if *buffered {
                plan = HashJoinBuffering::new().optimize(plan, &opts).expect("HashJoinBuffering");
            }
            plan
        }
        Kind::TopK { merge, k, desc, nulls_first, keys } => {
            let s = schema_of(&["k", "v", "id"], true);
            let src = GatedSourceExec::new("in", Arc::clone(&s), scripts(&s, &sc.probe), None);
            let (f, log) = FilteringGatedSource::new("in", Arc::clone(&src), sc.mutate);
            sources.push(src);
            logs.push(log);
            let so = SortOptions { descending: *desc, nulls_first: *nulls_first };
            let mut exprs = vec![PhysicalSortExpr::new(col("k", 0), so)];
            if *keys >= 2 {
                exprs.push(PhysicalSortExpr::new(col("v", 1), so));
            }
            let ordering = LexOrdering::new(exprs).expect("ordering");
            if *merge {
                let sort = SortExec::new(ordering.clone(), f).with_fetch(Some(*k)).with_preserve_partitioning(true);
                Arc::new(SortPreservingMergeExec::new(ordering, Arc::new(sort)).with_fetch(Some(*k)))
            } else {
                Arc::new(SortExec::new(ordering, Arc::new(CoalescePartitionsExec::new(f))).with_fetch(Some(*k)))
            }
        }
        Kind::Agg { funcs } => {
            let s = schema_of(&["k", "v", "id"], true);
            let src = GatedSourceExec::new("in", Arc::clone(&s), scripts(&s, &sc.probe), None);
            let (f, log) = FilteringGatedSource::new("in", Arc::clone(&src), sc.mutate);
            sources.push(src);
            logs.push(log);
            let names = ["k", "v"];
            let aggs: Vec<_> = funcs
                .iter()
                .enumerate()
                .map(|(i, (is_max, c))| {
                    let udaf = if *is_max { fa::min_max::max_udaf() } else { fa::min_max::min_udaf() };
                    Arc::new(
                        AggregateExprBuilder::new(udaf, vec![col(names[*c], *c)])
                            .schema(Arc::clone(&s))
                            .alias(format!("a{i}"))
                            .build()
                            .expect("aggregate expr"),
                    )
                })
                .collect();
            let gb = PhysicalGroupBy::new_single(vec![]);
            let partial =
                AggregateExec::try_new(AggregateMode::Partial, gb.clone(), aggs.clone(), vec![None; aggs.len()], f, Arc::clone(&s))
                    .expect("partial aggregate");
            let gathered: Arc<dyn ExecutionPlan> = Arc::new(CoalescePartitionsExec::new(Arc::new(partial)));
            Arc::new(
                AggregateExec::try_new(AggregateMode::Final, gb.as_final(), aggs.clone(), vec![None; aggs.len()], gathered, s)
                    .expect("final aggregate"),
            )
        }
    };
    // the real rule wires the dynamic filter from its producer into the source
    let plan = FilterPushdown::new_post_optimization().optimize(plan, &opts).expect("FilterPushdown(Post)");
    let plan_text = displayable(plan.as_ref()).indent(false).to_string();
    let rt = RuntimeEnvBuilder::new().build_arc().expect("runtime env");
    let ctx = Arc::new(TaskContext::default().with_session_config(cfg).with_runtime(rt));
    (
        World { plan, sources, ctx, allow_drop: sc.allow_drop, drop_after: None, max_steps: 300, spill: None },
        Aux { logs, plan_text },
    )
}

// ------------------------------------------------------------------ independent references

fn key_eq(b: &Row, p: &Row, keys: usize, null_eq: bool) -> bool {
    (0..keys).all(|i| match (b[i], p[i]) {
        (Some(x), Some(y)) => x == y,
        (None, None) => null_eq,
        _ => false,
    })
}

/// nested-loop join, output as a sorted multiset
fn ref_join(build: &[Row], probe: &[Row], jt: JT, keys: usize, null_eq: bool, null_aware: bool) -> Vec<Row> {
    let nulls = |n: usize| vec![None; n];
    let mut out: Vec<Row> = vec![];
    let b_matched: Vec<bool> = build.iter().map(|b| probe.iter().any(|p| key_eq(b, p, keys, null_eq))).collect();
    let p_matched: Vec<bool> = probe.iter().map(|p| build.iter().any(|b| key_eq(b, p, keys, null_eq))).collect();
    let pairs = |out: &mut Vec<Row>| {
        for b in build {
            for p in probe {
                if key_eq(b, p, keys, null_eq) {
                    out.push([b.clone(), p.clone()].concat());
                }
            }
        }
    };
    match jt {
        JT::Inner => pairs(&mut out),
        JT::Left | JT::Right | JT::Full => {
            pairs(&mut out);
            if matches!(jt, JT::Left | JT::Full) {
                for (b, m) in build.iter().zip(&b_matched) {
                    if !m {
                        out.push([b.clone(), nulls(3)].concat());
                    }
                }
            }
            if matches!(jt, JT::Right | JT::Full) {
                for (p, m) in probe.iter().zip(&p_matched) {
                    if !m {
                        out.push([nulls(3), p.clone()].concat());
                    }
                }
            }
        }
        JT::LeftSemi => out.extend(build.iter().zip(&b_matched).filter(|(_, m)| **m).map(|(b, _)| b.clone())),
        JT::RightSemi => out.extend(probe.iter().zip(&p_matched).filter(|(_, m)| **m).map(|(p, _)| p.clone())),
        JT::LeftAnti if null_aware => {
            // b.k NOT IN (SELECT p.k ...): unknown (dropped) if b.k is NULL or any p.k is NULL, unless the subquery is empty
            if probe.is_empty() {
                out.extend(build.iter().cloned());
            } else if !probe.iter().any(|p| p[0].is_none()) {
                out.extend(build.iter().zip(&b_matched).filter(|(b, m)| !**m && b[0].is_some()).map(|(b, _)| b.clone()));
            }
        }
        JT::LeftAnti => out.extend(build.iter().zip(&b_matched).filter(|(_, m)| !**m).map(|(b, _)| b.clone())),
        JT::RightAnti => out.extend(probe.iter().zip(&p_matched).filter(|(_, m)| !**m).map(|(p, _)| p.clone())),
        JT::LeftMark => out.extend(build.iter().zip(&b_matched).map(|(b, m)| [b.clone(), vec![Some(*m as i64)]].concat())),
        JT::RightMark => out.extend(probe.iter().zip(&p_matched).map(|(p, m)| [p.clone(), vec![Some(*m as i64)]].concat())),
    }
    out.sort();
    out
}

fn cmp_opt(a: Option<i64>, b: Option<i64>, desc: bool, nulls_first: bool) -> Ordering {
    match (a, b) {
        (None, None) => Ordering::Equal,
        (None, Some(_)) => if nulls_first { Ordering::Less } else { Ordering::Greater },
        (Some(_), None) => if nulls_first { Ordering::Greater } else { Ordering::Less },
        (Some(x), Some(y)) => if desc { y.cmp(&x) } else { x.cmp(&y) },
    }
}

fn cmp_key(a: &[Option<i64>], b: &[Option<i64>], keys: usize, desc: bool, nulls_first: bool) -> Ordering {
    for i in 0..keys {
        let o = cmp_opt(a[i], b[i], desc, nulls_first);
        if o != Ordering::Equal {
            return o;
        }
    }
    Ordering::Equal
}

/// the sort keys of the first k rows in sort order
fn ref_topk_keys(rows: &[Row], k: usize, keys: usize, desc: bool, nulls_first: bool) -> Vec<Vec<Option<i64>>> {
    let mut ks: Vec<Vec<Option<i64>>> = rows.iter().map(|r| r[..keys].to_vec()).collect();
    ks.sort_by(|a, b| cmp_key(a, b, keys, desc, nulls_first));
    ks.truncate(k);
    ks
}

fn ref_agg(rows: &[Row], funcs: &[(bool, usize)]) -> Vec<Row> {
    vec![funcs
        .iter()
        .map(|(is_max, c)| {
            let vals = rows.iter().filter_map(|r| r[*c]);
            if *is_max { vals.max() } else { vals.min() }
        })
        .collect()]
}

/// reference result of the scenario's query on the given inputs (TopK: the key sequence)
fn reference(kind: &Kind, build: &[Row], probe: &[Row]) -> Vec<Row> {
    match kind {
        Kind::Join { jt, null_eq, null_aware, keys, .. } => ref_join(build, probe, *jt, *keys, *null_eq, *null_aware),
        Kind::TopK { k, desc, nulls_first, keys, .. } => ref_topk_keys(probe, *k, *keys, *desc, *nulls_first),
        Kind::Agg { funcs } => ref_agg(probe, funcs),
    }
}

// ------------------------------------------------------------------ one run and its oracle

#[derive(Default, Debug)]
struct RunStats {
    steps: usize,
    filter_installed: bool,
    discarded: usize,
    evals: usize,
    evals_placeholder: usize,
    hang_after_partial_drop: bool,
    snapshots: Vec<String>,
    outcome: String,
    actions: String,
    plan_text: String,
    discards: Vec<Discard>,
    result: Vec<Row>,
}

/// engine result in comparable form (joins / aggregate: sorted multiset over all outputs; TopK: key sequence)
fn engine_result(kind: &Kind, rec: &RunRecord) -> (Vec<Row>, Vec<Row>) {
    let mut rows: Vec<Row> = rec.outputs.iter().flat_map(|o| o.batches.iter().flat_map(rows_of)).collect();
    match kind {
        Kind::TopK { keys, .. } => {
            let ks = rows.iter().map(|r| r[..*keys].to_vec()).collect();
            (ks, rows)
        }
        _ => {
            rows.sort();
            (rows.clone(), rows)
        }
    }
}

fn run_raw(sc: &Scenario) -> (mc_core::explore::Trace, RunRecord, Aux) {
    let slot: RefCell<Option<Aux>> = RefCell::new(None);
    let build = || {
        let (w, aux) = build_world(sc);
        *slot.borrow_mut() = Some(aux);
        w
    };
    let (trace, rec) = evt::run_one(&build, &sc.prefix);
    (trace, rec, slot.into_inner().expect("world built"))
}

/// what the same plan returns with dynamic filter pushdown disabled (default event order)
fn expected_for(sc: &Scenario) -> std::result::Result<Vec<Row>, String> {
    let mut twin = sc.clone();
    twin.dynamic = false;
    twin.mutate = false;
    twin.allow_drop = false;
    twin.prefix = vec![];
    let (_, rec, aux) = run_raw(&twin);
    if let Some(p) = &rec.panicked {
        return Err(format!("twin (pushdown disabled) panicked: {p}"));
    }
    if rec.deadlock || rec.outputs.iter().any(|o| !o.finished || o.error.is_some()) || rec.execute_error.is_some() {
        return Err(format!("twin (pushdown disabled) did not complete: {:?}", rec.log));
    }
    if aux.logs.iter().any(|l| !l.lock().installed.is_empty()) {
        return Err("twin (pushdown disabled) still received a filter".into());
    }
    Ok(engine_result(&sc.kind, &rec).0)
}

fn check(sc: &Scenario, trace: &mc_core::explore::Trace, rec: &RunRecord, aux: &Aux, expected: &[Row]) -> std::result::Result<RunStats, String> {
    if let Some(p) = &rec.panicked {
        return Err(format!("panic: {p}"));
    }
    if let Some(e) = &rec.execute_error {
        return Err(format!("execute failed: {e}"));
    }
    let build = flat(&sc.build);
    let probe = flat(&sc.probe);
    let is_join = matches!(sc.kind, Kind::Join { .. });
    let probe_log = aux.logs.last().expect("probe log").lock();
    let build_discards: Vec<Discard> = if is_join { aux.logs[0].lock().discarded.clone() } else { vec![] };
    let discards: Vec<Discard> = probe_log.discarded.clone();
    let at = |d: &Discard| format!("row {:?} (partition {}) discarded while the filter read `{}`", d.row, d.partition, d.filter);

    // runs in which the consumer abandoned an output have no defined final result; there only the rows that were
    // headed for a surviving output are judged (an implementation may stop caring about the others).  The routing
    // of the hash exchange is taken from RepartitionExec's own hash - this only ever relaxes the oracle.
    let dropped: Vec<bool> = rec.outputs.iter().map(|o| o.dropped).collect();
    let any_dropped = dropped.iter().any(|d| *d);
    let survives = |d: &Discard| -> bool {
        if !any_dropped {
            return true;
        }
        match &sc.kind {
            Kind::Join { partitioned: None, .. } => !dropped[d.partition],
            Kind::Join { partitioned: Some(n), keys, .. } => {
                let arrays: Vec<ArrayRef> = (0..*keys).map(|i| Arc::new(Int64Array::from(vec![d.row[i]])) as ArrayRef).collect();
                let mut h = vec![0u64; 1];
                create_hashes(&arrays, REPARTITION_RANDOM_STATE.random_state(), &mut h).expect("hash");
                !dropped[(h[0] % (*n as u64)) as usize]
            }
            _ => false,
        }
    };
    // (ii) every discarded row, judged directly
    match &sc.kind {
        Kind::Join { keys, null_eq, jt, .. } => {
            for d in discards.iter().filter(|d| survives(d)) {
                if let Some(b) = build.iter().find(|b| key_eq(b, &d.row, *keys, *null_eq)) {
                    return Err(format!("discarded probe row has a join partner: {} - build row {b:?} matches it ({jt:?} join, null_equals_null={null_eq})", at(d)));
                }
            }
        }
        Kind::TopK { k, desc, nulls_first, keys, .. } => {
            let top = ref_topk_keys(&probe, *k, *keys, *desc, *nulls_first);
            for d in &discards {
                let must_be_in = top.len() < *k || cmp_key(&d.row[..*keys], top.last().unwrap(), *keys, *desc, *nulls_first) == Ordering::Less;
                if must_be_in {
                    return Err(format!("discarded row belongs to every top-{k}: {} - final top-{k} keys {top:?}", at(d)));
                }
            }
        }
        Kind::Agg { .. } => {}
    }
    // (ii') the discarded rows, taken together, do not influence the result: reference on inputs minus discards
    let minus = |all: &[Row], ds: &[Discard]| -> Vec<Row> {
        let mut gone: Vec<&Row> = ds.iter().map(|d| &d.row).collect();
        all.iter()
            .filter(|r| match gone.iter().position(|g| g == r) {
                Some(i) => {
                    gone.swap_remove(i);
                    false
                }
                None => true,
            })
            .cloned()
            .collect()
    };
    let ref_full = reference(&sc.kind, &build, &probe);
    let ref_kept = reference(&sc.kind, &minus(&build, &build_discards), &minus(&probe, &discards));
    if ref_full != ref_kept && !any_dropped {
        let all: Vec<String> = build_discards.iter().map(|d| format!("build {}", at(d))).chain(discards.iter().map(at)).collect();
        // attribution: the aggregate filter is an OR over one disjunct per min/max; a disjunct that is absent while
        // rows are being discarded is the recorded root cause
        let mut marker = String::new();
        if let Kind::Agg { funcs } = &sc.kind {
            let names = ["k", "v"];
            let missing: Vec<String> = funcs
                .iter()
                .filter(|(is_max, c)| {
                    let want = format!("{}@{} {}", names[*c], c, if *is_max { ">" } else { "<" });
                    discards.iter().any(|d| !d.filter.contains(&want))
                })
                .map(|(is_max, c)| format!("{}({})", if *is_max { "max" } else { "min" }, names[*c]))
                .collect();
            if !missing.is_empty() {
                marker = format!(" [filter lacks the disjunct of {}]", missing.join(", "));
            }
        }
        return Err(format!(
            "discarded rows influence the result{marker}: reference on full inputs {ref_full:?} != reference without the discarded rows {ref_kept:?}; {}",
            all.join("; ")
        ));
    }

    // liveness / errors: with pushdown disabled the query completes, so anything else is a changed result
    for (j, o) in rec.outputs.iter().enumerate() {
        if let Some(e) = &o.error {
            return Err(format!("output {j} failed although the same plan succeeds without dynamic filters: {e}"));
        }
        if o.after_end != 0 {
            return Err(format!("output {j} yielded items after its end"));
        }
    }
    let mut st = RunStats { steps: rec.steps, ..Default::default() };
    let first_drop = rec.actions.iter().position(|a| matches!(a, Action::Drop(_)));
    // a default-choice Drop means nothing else was enabled: the output was pending for ever
    let stuck = rec.actions.iter().zip(&trace.choices).position(|(a, c)| matches!(a, Action::Drop(_)) && *c == 0);
    if rec.deadlock || stuck.is_some_and(|s| first_drop == Some(s)) {
        return Err(format!("hang: an output stays pending with every input delivered; actions {:?}", rec.actions));
    }
    if stuck.is_some() {
        // not what C31 states (no row is discarded wrongly) - recorded, and reproducible as a failure on request
        if std::env::var("C31Q_HANG_IS_VIOLATION").is_ok() {
            return Err(format!("hang after a partial drop: the remaining output stays pending with every input delivered; actions {:?}", rec.actions));
        }
        st.hang_after_partial_drop = true;
    }
    if rec.steps >= 300 {
        return Err("step horizon reached".into());
    }

    // (i) final result
    let (got, raw) = engine_result(&sc.kind, rec);
    let complete = rec.outputs.iter().all(|o| o.finished && !o.dropped);
    if complete {
        if got != expected {
            return Err(format!("final result differs from the same plan without dynamic filter pushdown: got {got:?}, expected {expected:?}"));
        }
        if let Kind::TopK { .. } = sc.kind {
            // rows must be input rows, each at most once
            let mut pool = probe.clone();
            for r in &raw {
                match pool.iter().position(|x| x == r) {
                    Some(i) => {
                        pool.swap_remove(i);
                    }
                    None => return Err(format!("TopK output row {r:?} is not an (unused) input row")),
                }
            }
        }
    }
    st.filter_installed = !probe_log.installed.is_empty();
    st.discarded = discards.len() + build_discards.len();
    st.evals = probe_log.evals;
    st.evals_placeholder = probe_log.evals_placeholder;
    st.snapshots = probe_log.snapshots.clone();
    let mut dk: Vec<&Row> = discards.iter().map(|d| &d.row).collect();
    dk.sort();
    st.outcome = format!("{:?}|{:?}|{:?}", raw, dk, rec.outputs.iter().map(|o| o.dropped).collect::<Vec<_>>());
    st.actions = format!("{:?}", rec.actions);
    st.plan_text = aux.plan_text.clone();
    st.discards = discards;
    st.result = raw;
    Ok(st)
}

const DIVERGED: &str = "replay diverged from its prefix";

fn run_case(sc: &Scenario, expected: &[Row]) -> (mc_core::explore::Trace, std::result::Result<RunStats, String>) {
    let (trace, rec, aux) = run_raw(sc);
    if rec.diverged {
        // the engine could not follow the recorded choices (nondeterminism it does not own): not a verdict
        return (trace, Err(DIVERGED.to_string()));
    }
    let r = check(sc, &trace, &rec, &aux, expected);
    (trace, r)
}

// ------------------------------------------------------------------ scenario lists

fn jr(k: Option<i64>, k2: i64, id: i64) -> Row {
    vec![k, Some(k2), Some(id)]
}

/// (name, build partitions, probe partitions); ids are unique per side
fn join_inputs() -> Vec<(&'static str, Parts, Parts)> {
    let n = None;
    vec![
        // key 2 lies inside the build bounds [1,3] but is not a build key; (3,2) differs in the second key only
        (
            "J1",
            vec![vec![vec![jr(Some(1), 1, 0)]], vec![vec![jr(Some(3), 1, 1)]]],
            vec![vec![vec![jr(Some(1), 1, 10)], vec![jr(Some(2), 1, 11)]], vec![vec![jr(Some(3), 2, 12), jr(n, 1, 13)]]],
        ),
        // NULL build key (null equality decides), probe keys outside the bounds
        (
            "J2",
            vec![vec![vec![jr(Some(2), 1, 0), jr(n, 1, 1)]], vec![]],
            vec![vec![vec![jr(n, 1, 10), jr(Some(2), 1, 11)]], vec![vec![jr(Some(1), 1, 12)], vec![jr(Some(3), 1, 13)]]],
        ),
        // empty build side
        ("J3", vec![vec![], vec![]], vec![vec![vec![jr(Some(1), 1, 10)]], vec![vec![jr(n, 1, 11)]]]),
        // duplicates on both sides
        (
            "J4",
            vec![vec![vec![jr(Some(1), 1, 0), jr(Some(1), 1, 1)]], vec![vec![jr(Some(2), 2, 2)]]],
            vec![vec![vec![jr(Some(2), 2, 10), jr(Some(2), 1, 11)]], vec![vec![jr(Some(3), 1, 12)], vec![jr(Some(1), 1, 13)]]],
        ),
    ]
}

fn topk_inputs() -> Vec<(&'static str, Parts)> {
    let n = None;
    vec![
        ("T1", vec![vec![vec![jr(Some(2), 1, 0), jr(Some(1), 2, 1)], vec![jr(Some(3), 1, 2)]], vec![vec![jr(Some(1), 1, 3)], vec![jr(n, 1, 4), jr(Some(2), 2, 5)]]]),
        ("T2", vec![vec![vec![jr(Some(3), 1, 0)], vec![jr(Some(2), 1, 1)]], vec![vec![jr(n, 2, 2)], vec![jr(Some(1), 1, 3)]]]),
        ("T3", vec![vec![vec![jr(Some(1), 1, 0), jr(Some(1), 2, 1)]], vec![vec![jr(Some(1), 3, 2)], vec![jr(Some(2), 1, 3)]]]),
    ]
}

fn join_sc(partitioned: Option<usize>, jt: JT, null_eq: bool, null_aware: bool, strat: Strat, keys: usize, buffered: bool, inp: &(&'static str, Parts, Parts), allow_drop: bool) -> Scenario {
    Scenario {
        kind: Kind::Join { partitioned, jt, null_eq, null_aware, strat, keys, buffered },
        build: inp.1.clone(),
        probe: inp.2.clone(),
        allow_drop,
        dynamic: true,
        mutate: false,
        prefix: vec![],
    }
}

/// scenarios with the deviation bound to explore each with, simplest first
fn scenarios(ctx: &Ctx) -> Vec<(Scenario, usize)> {
    // deviation bounds: `full` for the scenarios where the event order decides what the filter reads
    // (eager probe side, TopK, aggregate), `low` for the broad configuration sweep
    let full = ctx.pick(2, 3);
    let low = ctx.pick(1, 2);
    let bound = ctx.pick(3, 4); // TopK / aggregate: few actions per step, deeper bound
    let ji = join_inputs();
    let mut v: Vec<(Scenario, usize)> = vec![];
    let modes: Vec<Option<usize>> = if ctx.quick() { vec![None, Some(2)] } else { vec![None, Some(2), Some(3)] };
    // join types without pushdown: the rule must leave the source alone (counted; nothing may be discarded)
    for jt in ALL_JT.iter().filter(|j| !j.pushes()) {
        for m in &modes {
            for null_eq in [false, true] {
                v.push((join_sc(*m, *jt, null_eq, false, Strat::InList, 1, true, &ji[0], false), 1));
            }
        }
    }
    for jt in ALL_JT.iter().filter(|j| j.pushes()) {
        for m in &modes {
            for null_eq in [false, true] {
                for buffered in [false, true] {
                    for (ii, inp) in ji.iter().enumerate() {
                        for strat in [Strat::InList, Strat::LookupArray, Strat::LookupHash] {
                            // without the eager buffer the probe side is only polled after the filter is complete, so
                            // the event order cannot change what is read there: low bound.  Thorough spends its deepest
                            // bound on the inputs J1 and J2
                            let core = buffered
                                && (ctx.quick()
                                    || ii < 2 && m.map_or(true, |n| n == 2));
                            v.push((join_sc(*m, *jt, null_eq, false, strat, 1, buffered, inp, false), if core { full } else { low }));
                        }
                    }
                }
            }
        }
    }
    // two join keys (struct IN-list / multi-column hash lookup)
    for jt in [JT::Inner, JT::LeftSemi, JT::LeftAnti] {
        for m in &modes {
            for (si, strat) in [Strat::InList, Strat::LookupHash].into_iter().enumerate() {
                for (xi, ii) in [0usize, 3].into_iter().enumerate() {
                    for null_eq in [false, true] {
                        let _ = (si, xi);
                        if ctx.quick() && null_eq && jt != JT::Inner {
                            continue;
                        }
                        v.push((join_sc(*m, jt, null_eq, false, strat, 2, true, &ji[ii], false), if null_eq { low } else { full }));
                    }
                }
            }
        }
    }
    // null-aware anti join (NOT IN) with a NOT NULL build key
    for (si, strat) in [Strat::InList, Strat::LookupHash].into_iter().enumerate() {
        for buffered in [false, true] {
            for (xi, ii) in [0usize, 3].into_iter().enumerate() {
                let _ = (si, xi);
                v.push((join_sc(None, JT::LeftAnti, false, true, strat, 1, buffered, &ji[ii], false), if buffered { full } else { low }));
            }
        }
    }
    // cancelling one output partition early
    for jt in [JT::Inner, JT::LeftAnti] {
        for m in &modes {
            for buffered in [false, true] {
                for ii in [0, 1] {
                    if ctx.quick() && jt == JT::LeftAnti && ii == 1 {
                        continue;
                    }
                    v.push((join_sc(*m, jt, false, false, Strat::InList, 1, buffered, &ji[ii], true), ctx.pick(2, 2)));
                }
            }
        }
    }
    // TopK
    for (ti, (_, inp)) in topk_inputs().into_iter().enumerate() {
        // quick: the all-ties input gets the smaller bound
        let _ = ti;
        for merge in [true, false] {
            for k in [1usize, 2] {
                for desc in [false, true] {
                    for nulls_first in [false, true] {
                        for keys in [1usize, 2] {
                            if ctx.quick() && keys == 2 && (k == 1 || desc != nulls_first) {
                                continue;
                            }
                            v.push((
                                Scenario {
                                    kind: Kind::TopK { merge, k, desc, nulls_first, keys },
                                    build: vec![],
                                    probe: inp.clone(),
                                    allow_drop: false,
                                    dynamic: true,
                                    mutate: false,
                                    prefix: vec![],
                                },
                                bound,
                            ));
                        }
                    }
                }
            }
        }
    }
    // un-grouped min / max
    let mut agg_inputs: Vec<(&'static str, Parts)> = vec![
        // one partition; a batch whose aggregated column is all NULL comes first
        ("A0", vec![vec![vec![jr(None, 1, 0)], vec![jr(Some(3), 1, 1)], vec![jr(Some(1), 1, 2)]]]),
        ("A1", vec![vec![vec![vec![Some(2), None, Some(0)]], vec![vec![Some(3), Some(5), Some(1)]]]]),
    ];
    agg_inputs.extend(topk_inputs());
    for (_, inp) in agg_inputs {
        for funcs in [vec![(false, 1usize)], vec![(true, 1)], vec![(false, 0), (true, 0)], vec![(false, 0), (true, 1)]] {
            v.push((
                Scenario { kind: Kind::Agg { funcs }, build: vec![], probe: inp.clone(), allow_drop: false, dynamic: true, mutate: false, prefix: vec![] },
                bound,
            ));
        }
    }
    if ctx.thorough() {
        // every build / probe multiset of <= 2 rows over {NULL,1,2,3}, one row per batch, rows dealt to 2 partitions
        let dom = [None, Some(1), Some(2), Some(3)];
        let sets = mc_core::enumerate::multisets(&dom, 0, 2);
        let deal = |ks: &Vec<Option<i64>>, base: i64| -> Parts {
            let mut p: Parts = vec![vec![], vec![]];
            for (i, k) in ks.iter().enumerate() {
                p[i % 2].push(vec![jr(*k, 1, base + i as i64)]);
            }
            p
        };
        for jt in ALL_JT.iter().filter(|j| j.pushes()) {
            for m in [None, Some(2)] {
                for null_eq in [false, true] {
                    for strat in [Strat::InList, Strat::LookupHash] {
                        for b in &sets {
                            for p in &sets {
                                if p.is_empty() {
                                    continue;
                                }
                                let inp = ("DB2", deal(b, 0), deal(p, 10));
                                v.push((join_sc(m, *jt, null_eq, false, strat, 1, true, &inp, false), 1));
                            }
                        }
                    }
                }
            }
        }
    }
    let mutate = std::env::var("C31Q_SELFTEST").map(|s| s == "strict").unwrap_or(false);
    if mutate {
        for (s, _) in v.iter_mut() {
            s.mutate = true;
        }
    }
    v
}

// ------------------------------------------------------------------ exploration

fn violation_key(sc: &Scenario, what: &str) -> String {
    // one key per (plan family, operator configuration class, failure class): a root cause, not an input
    let mut cls: String = what.split(':').next().unwrap_or("").chars().take(60).collect();
    if let Kind::Agg { .. } = &sc.kind {
        // recorded root cause: the OR-combined aggregate filter omits the disjunct of an accumulator without a bound
        if what.contains("[filter lacks the disjunct of") {
            return format!("query:agg_minmax:disjunct-of-boundless-accumulator-missing{}", if sc.mutate { ":SELFTEST" } else { "" });
        }
        cls.push_str("/other");
    }
    let conf = match &sc.kind {
        Kind::Join { jt, null_eq, null_aware, strat, keys, .. } => format!("{jt:?}/null_eq={null_eq}/null_aware={null_aware}/{strat:?}/keys={keys}"),
        Kind::TopK { k, desc, nulls_first, keys, .. } => format!("k={k}/desc={desc}/nulls_first={nulls_first}/keys={keys}"),
        Kind::Agg { funcs } => format!("{funcs:?}"),
    };
    format!("query:{}:{}:{}{}", sc.kind.family(), conf, cls, if sc.mutate { ":SELFTEST" } else { "" })
}

fn explore(ctx: &Ctx) {
    let list = scenarios(ctx);
    let max_bound = list.iter().map(|(_, b)| *b).max().unwrap_or(0);
    ctx.set_extra(
        "bounds",
        json!({
            "scenarios": list.len(),
            "deviation_bound": max_bound,
            "deviation_bounds": "TopK / min-max: 3 quick, 4 thorough; joins with the eager probe side (HashJoinBuffering): 2 quick (all inputs and variants), 3 thorough on inputs J1/J2 x {CollectLeft, Partitioned(2)} and 2 on the rest; 2-key joins, null-aware anti join: 2 quick, 3 thorough; drop scenarios: 2; joins whose probe side is polled lazily (the filter is complete before the first probe batch is requested) and join types without pushdown: 1 quick, 2 thorough; thorough DB(2) input sweep: 1",
            "inputs": "joins: build <= 3 rows, probe <= 4 rows over key {NULL,1,2,3} (second key {1,2}), 2 partitions x 0-2 batches; TopK / min-max: 4-6 rows in 2 partitions x 1-2 batches; thorough adds every build x probe multiset of <= 2 rows",
            "joins": "CollectLeft and Partitioned(2; thorough also 3) x 10 join types x NullEquality x {IN-list, hash_lookup on ArrayMap, hash_lookup on JoinHashMap} x {probe polled lazily, HashJoinBuffering/BufferExec eager} ; 2-key joins; null-aware LeftAnti; early drop of an output partition",
            "topk": "SortPreservingMerge over per-partition SortExec(fetch) and SortExec(fetch) over CoalescePartitions x k in {1,2} x asc/desc x nulls first/last x 1-2 sort keys",
            "agg": "un-grouped Partial/Final min / max / min+max over one or two columns",
            "events": "release next batch / end of input of a source partition, poll output j, drop output j (drop scenarios)",
        }),
    );
    let per_family: Mutex<BTreeMap<String, [u64; 5]>> = Mutex::new(BTreeMap::new());
    let sampled: Mutex<BTreeMap<&'static str, usize>> = Mutex::new(BTreeMap::new());
    // smallest inputs first and on their own, so that the first counterexample of a class is a small one
    let small = |sc: &Scenario| flat(&sc.build).len() + flat(&sc.probe).len() <= 3;
    let (first, rest): (Vec<_>, Vec<_>) = list.iter().partition(|(sc, _)| small(sc));
    let run_scenario = |(sc, bound): &(Scenario, usize)| {
        if ctx.should_stop() {
            return;
        }
        let expected = match mc_core::catch(|| expected_for(sc)).unwrap_or_else(Err) {
            Ok(e) => e,
            Err(w) => {
                ctx.violation(violation_key(sc, &format!("twin-failed: {w}")), format!("twin-failed: {w}"), json!({"scenario": sc}));
                return;
            }
        };
        // the twin itself against the independent reference (not a dynamic-filter matter if it differs, but recorded)
        let reference_result = reference(&sc.kind, &flat(&sc.build), &flat(&sc.probe));
        if reference_result != expected {
            ctx.count("twin_vs_independent_reference_mismatch", 1);
            eprintln!("NOTE twin (no dynamic filter) differs from the independent reference: {} twin {expected:?} reference {reference_result:?}", serde_json::to_string(sc).unwrap());
        }
        let fam = sc.kind.family();
        let mut outcomes = std::collections::HashSet::new();
        let mut local = [0u64; 5]; // runs, filter installed, nontrivial, read placeholder, hang after partial drop
        let sc_json = serde_json::to_string(sc).unwrap();
        let stats = mc_core::explore::dfs_deviations(
            *bound,
            |prefix| {
                let mut c = sc.clone();
                c.prefix = prefix.to_vec();
                let (trace, res) = match mc_core::catch(|| run_case(&c, &expected)) {
                    Ok(x) => x,
                    Err(p) => {
                        ctx.violation(violation_key(sc, &p), p, json!({"scenario": c}));
                        return mc_core::explore::Trace { choices: prefix.to_vec(), enabled: vec![1; prefix.len()] };
                    }
                };
                if !matches!(&res, Err(w) if w == DIVERGED) {
                    ctx.eval();
                }
                c.prefix = trace.choices.clone();
                match res {
                    Ok(st) => {
                        ctx.add_transitions(st.steps as u64);
                        local[0] += 1;
                        if st.filter_installed {
                            local[1] += 1;
                        }
                        let nontrivial = st.filter_installed && st.discarded > 0;
                        if nontrivial {
                            local[2] += 1;
                        }
                        if st.evals_placeholder > 0 {
                            local[3] += 1;
                        }
                        if st.hang_after_partial_drop {
                            local[4] += 1;
                            if local[4] == 1 {
                                eprintln!("NOTE hang after a partial drop (not a C31 matter, recorded): {} actions {}", serde_json::to_string(&c).unwrap(), st.actions);
                            }
                        }
                        if st.filter_installed != (sc.kind.expects_filter()) {
                            ctx.count(if st.filter_installed { "runs_with_filter_where_production_does_not_push" } else { "runs_without_filter_where_production_pushes" }, 1);
                        }
                        if outcomes.insert(st.outcome.clone()) {
                            ctx.add_states(1);
                            if nontrivial {
                                ctx.nontrivial(&(sc_json.as_str(), st.outcome.as_str()));
                                for s in &st.snapshots {
                                    let shape = if s.contains("CASE") {
                                        "filter_shape_case_routed"
                                    } else if s.contains("hash_lookup") {
                                        "filter_shape_hash_lookup"
                                    } else if s.contains(" IN ") {
                                        "filter_shape_in_list"
                                    } else if s == "false" {
                                        "filter_shape_false"
                                    } else if s == "true" {
                                        "filter_shape_placeholder_true"
                                    } else {
                                        "filter_shape_comparison"
                                    };
                                    ctx.count(shape, 1);
                                }
                                let take = ctx.want_sample() && st.evals_placeholder < st.evals && {
                                    let mut sm = sampled.lock();
                                    let n = sm.entry(fam).or_insert(0);
                                    *n += 1;
                                    *n <= 1
                                };
                                if take {
                                    ctx.sample(json!({"part": "query", "scenario": c, "plan": st.plan_text, "actions": st.actions,
                                        "discarded": st.discards, "result": format!("{:?}", st.result)}));
                                }
                            }
                        }
                    }
                    Err(w) if w == DIVERGED => {}
                    Err(w) => {
                        ctx.violation(violation_key(sc, &w), w, json!({"scenario": c}));
                    }
                }
                trace
            },
            || ctx.should_stop(),
        );
        if !stats.complete {
            ctx.mark_capped("wall cap hit during event-order exploration");
        }
        if stats.diverged > 0 {
            ctx.count("replays_that_diverged", stats.diverged);
            ctx.mark_capped("some replays diverged from their prefix (nondeterminism inside the operator); their subtrees were not explored");
        }
        let mut pf = per_family.lock();
        let e = pf.entry(fam.to_string()).or_insert([0; 5]);
        for i in 0..5 {
            e[i] += local[i];
        }
    };
    first.par_iter().for_each(|x| run_scenario(x));
    rest.par_iter().for_each(|x| run_scenario(x));
    let pf = per_family.lock();
    let mut vacuous = vec![];
    for (fam, c) in pf.iter() {
        ctx.count(&format!("{fam}__runs"), c[0]);
        ctx.count(&format!("{fam}__runs_filter_in_source"), c[1]);
        ctx.count(&format!("{fam}__runs_nontrivial_filter_discarded_rows"), c[2]);
        ctx.count(&format!("{fam}__runs_read_before_first_update"), c[3]);
        if c[4] > 0 {
            ctx.count(&format!("{fam}__runs_hang_after_partial_drop"), c[4]);
        }
        if c[2] == 0 && !std::env::var("C31Q_SELFTEST").is_ok() {
            vacuous.push(fam.clone());
        }
    }
    ctx.set_extra("per_plan_kind", json!(pf.iter().map(|(k, c)| (k.clone(), json!({"runs": c[0], "filter_in_source": c[1], "nontrivial": c[2], "read_placeholder": c[3]}))).collect::<BTreeMap<_, _>>()));
    if !vacuous.is_empty() && !ctx.out_of_time() && ctx.violation_count() == 0 {
        ctx.machinery_error(format!("VACUOUS plan kinds (the dynamic filter never discarded a row in the source): {vacuous:?}"));
    }
    ctx.assume("schedules are explored at poll granularity on a single-threaded runtime (all orders of environment events within the deviation bound); instruction-level races on the filter object are the loom part of C31");
    ctx.assume("the source evaluates the pushed filter row-exactly on each batch at delivery time; statistics-based pruning (Parquet row groups / pages) is not modelled");
}

fn replay(v: &Value) -> std::result::Result<(), String> {
    let s = v.get("scenario").ok_or("unknown case kind")?;
    let sc: Scenario = serde_json::from_value(s.clone()).map_err(|e| e.to_string())?;
    mc_core::catch(|| {
        let expected = expected_for(&sc).map_err(|w| format!("twin-failed: {w}"))?;
        if std::env::var("C31Q_VERBOSE").is_ok() {
            let (trace, rec, aux) = run_raw(&sc);
            eprintln!("plan:\n{}", aux.plan_text);
            eprintln!("choices: {:?}\nactions: {:?}\nlog: {:?}", trace.choices, rec.actions, rec.log);
            for (i, l) in aux.logs.iter().enumerate() {
                let l = l.lock();
                eprintln!("source {i}: installed {:?} evals {} (placeholder {}) rows_seen {} snapshots {:?}", l.installed, l.evals, l.evals_placeholder, l.rows_seen, l.snapshots);
                for d in &l.discarded {
                    eprintln!("  discarded {:?} partition {} under `{}`", d.row, d.partition, d.filter);
                }
            }
            eprintln!("result:   {:?}\nexpected: {:?}", engine_result(&sc.kind, &rec).1, expected);
        }
        run_case(&sc, &expected).1.map(|_| ())
    })
    .unwrap_or_else(Err)
}

fn main() {
    mc_core::quiet_panics();
    run_check(
        "C31",
        Level::ModelChecking,
        "query level: real HashJoinExec (CollectLeft / Partitioned, +-HashJoinBuffering's eager probe-side BufferExec) / SortExec(fetch) TopK / un-grouped min-max AggregateExec over gated sources that absorb the dynamic filter through the real FilterPushdown(Post) rule and apply it to each batch at the moment it is released; \
         every order of {release next batch or end of input of a source partition, poll output j, drop output j} within a deviation bound from the default order (TopK / min-max 3 quick, 4 thorough; joins with an eagerly polled probe side 2 / 3; lazily polled probe side 1 / 2 - see bounds); \
         oracle: result = same plan with pushdown disabled (cross-checked against nested-loop / sort / min-max references) and every discarded row has no join partner / does not sort before the final k-th key / the reference on inputs minus discarded rows is unchanged; \
         states = distinct (scenario, result, discarded rows, dropped outputs), transitions = driver steps; non-trivial = distinct (scenario, outcome) in which the filter was inside the source and discarded at least one row",
        explore,
        replay,
    );
}
