//! C16 (part `hist`) — spill channels deliver every spilled batch exactly once and terminate.
//!
//! Style H on the *compiled* crate: every sequential history (interleaving at
//! operation granularity) over
//!
//!   writer w : push(non-empty batch) | push(empty batch) | drop | clone (mpsc only)
//!   reader   : poll once (recording waker) | poll to a fixed point
//!
//! on the real `spill_pool::{spsc_channel, mpsc_channel}` with the real
//! `SpillManager` / IPC stream writer / `SpillReaderStream`, for
//! `max_file_size` in {0, one batch, usize::MAX}, with
//!
//! * backend `mem`: `DiskManagerMode::Custom(MemSpillFactory)` and a single
//!   injected failure (k-th `create_temp_file` / k-th `write` / k-th `finish`)
//!   for every k that the fault-free history reaches, and
//! * backend `os` : real temp files with the real `FileSpillWriter` quota and
//!   `used_disk_space` accounting of a real `DiskManager` (the read side is a
//!   synchronous file reader with the same poll protocol as `MemSpillFactory`,
//!   so that the driver stays deterministic without a blocking pool), and a
//!   `max_temp_directory_size` placed so that a given push exceeds it.
//!
//! Every *prefix* of every history is executed from scratch (the subject does
//! not clone), checked step by step against a reference model (per-writer FIFO
//! queues of successfully pushed batches), and then closed by an epilogue that
//! drops the remaining writers and drains the reader to its end: so the
//! liveness clause "once all writers are gone the reader delivers what is left
//! and then ends" is checked in *every* reachable state, not only at the end of
//! maximal histories.
//!
//! What is merged and why it is sound:
//!  * `poll-to-fixed-point` is skipped where it would perform literally the same
//!    single `poll_next` call as `poll once` (identical call sequence on a
//!    deterministic subject => identical state);
//!  * a fault configuration is only executed on histories that reach the fault
//!    (before that point the call sequence and all results are identical to the
//!    fault-free execution of the same history, which is executed);
//!  * two live writer clones on which no operation was performed yet are
//!    interchangeable handles (renaming symmetry): only the older one is used.
//! Histories are NOT merged by the reference model's state: the reader's
//! position inside a byte chunk, the place where its waker is parked (pool or
//! file) and the file layout are hidden state that the reference does not
//! determine, and they are exactly where the defects of this property live.
//! `states` therefore only *counts* distinct canonical reference states.

use arrow::array::{Array, Int64Array, RecordBatch};
use arrow::datatypes::{DataType, Field, Schema, SchemaRef};
use chk_plan::evt::{MemSpillFactory, MemSpillStats, SpillFaults};
use datafusion_common::{DataFusionError, Result as DFResult};
use datafusion_execution::disk_manager::{DiskManager, DiskManagerBuilder, DiskManagerMode};
use datafusion_execution::runtime_env::RuntimeEnvBuilder;
use datafusion_execution::{SendableRecordBatchStream, SpillFile, SpillWriter, TempFileFactory};
use datafusion_physical_expr_common::metrics::{ExecutionPlanMetricsSet, SpillMetrics};
use datafusion_physical_plan::spill::SpillManager;
use datafusion_physical_plan::spill::spill_pool::{self, SpillPoolSink, SpillPoolWriter};
use futures::{Stream, StreamExt};
use mc_core::serde_json::{self, Value, json};
use mc_core::{Ctx, Level, rayon::prelude::*, run_check, stable_hash};
use serde::{Deserialize, Serialize};
use std::collections::{BTreeSet, HashSet, VecDeque};
use std::io::Read;
use std::path::PathBuf;
use std::pin::Pin;
use std::sync::atomic::{AtomicBool, AtomicU64, AtomicUsize, Ordering};
use std::sync::{Arc, Mutex, OnceLock};
use std::task::{Context, Poll, Wake, Waker};

// ------------------------------------------------------------------ case

#[derive(Serialize, Deserialize, Clone, Copy, Debug, Hash, PartialEq, Eq)]
enum Kind {
    Spsc,
    Mpsc,
}

#[derive(Serialize, Deserialize, Clone, Copy, Debug, Hash, PartialEq, Eq)]
enum Mfs {
    /// rotate after every push
    Zero,
    /// `get_array_memory_size()` of one batch: rotate after every second push
    OneBatch,
    /// never rotate
    Max,
}

#[derive(Serialize, Deserialize, Clone, Copy, Debug, Hash, PartialEq, Eq)]
enum Fault {
    None,
    /// the k-th (0-based) `create_temp_file` fails (mem backend)
    Create(usize),
    /// the k-th `write` of the spill writer fails (mem backend)
    Write(usize),
    /// the k-th `SpillWriter::finish` fails (mem backend)
    Finish(usize),
    /// `max_temp_directory_size` of the real DiskManager (os backend)
    DiskLimit(u64),
}

#[derive(Serialize, Deserialize, Clone, Copy, Debug, Hash, PartialEq, Eq)]
enum Op {
    Push(u8),
    PushEmpty(u8),
    Drop(u8),
    /// `SpillPoolWriter::clone` of writer w; the clone gets the next writer number
    Clone(u8),
    PollOnce,
    /// poll until an item / end / `Pending` without a wake-up
    PollFix,
}

/// Self-test switches (detection demonstration only; never set in a normal run).
#[derive(Serialize, Deserialize, Clone, Copy, Debug, Hash, PartialEq, Eq)]
enum Plant {
    /// harness stream around the reader: after some push has failed, the end of
    /// the stream is replaced by `Pending` without a wake-up — the symptom of a
    /// spill file that a failed `push_batch` left unfinished
    HangAfterFailedPush,
    /// wrong rule in the reference: a writer's batches are expected newest first
    RefLifo,
    /// harness waker proxy: wake-ups issued while no writer is alive are swallowed
    /// (symptom of a last-writer drop that forgets to wake the reader)
    LoseFinalWake,
}

#[derive(Serialize, Deserialize, Clone, Debug, Hash, PartialEq, Eq)]
struct Case {
    kind: Kind,
    mfs: Mfs,
    /// backend: false = MemSpillFactory, true = real temp files + real quota
    os: bool,
    fault: Fault,
    ops: Vec<Op>,
    #[serde(default, skip_serializing_if = "Option::is_none")]
    plant: Option<Plant>,
}

// ------------------------------------------------------------------ batches

const ROWS: usize = 2;

fn schema() -> SchemaRef {
    static S: OnceLock<SchemaRef> = OnceLock::new();
    Arc::clone(S.get_or_init(|| Arc::new(Schema::new(vec![Field::new("v", DataType::Int64, false)]))))
}

fn batch_for(id: usize) -> RecordBatch {
    let v = 1000 + id as i64;
    RecordBatch::try_new(schema(), vec![Arc::new(Int64Array::from(vec![v, -v]))]).expect("batch")
}

fn empty_batch() -> RecordBatch {
    RecordBatch::try_new(schema(), vec![Arc::new(Int64Array::from(Vec::<i64>::new()))]).expect("batch")
}

/// id of a delivered batch, or a description of why it is not one of ours
fn id_of(b: &RecordBatch) -> Result<usize, String> {
    if b.schema() != schema() {
        return Err(format!("schema {:?}", b.schema()));
    }
    if b.num_rows() != ROWS || b.num_columns() != 1 {
        return Err(format!("{} rows x {} columns", b.num_rows(), b.num_columns()));
    }
    let a = b.column(0).as_any().downcast_ref::<Int64Array>().ok_or("not Int64")?;
    if a.null_count() != 0 {
        return Err("nulls".into());
    }
    let (v0, v1) = (a.value(0), a.value(1));
    if v0 < 1000 || v1 != -v0 {
        return Err(format!("values [{v0}, {v1}]"));
    }
    Ok((v0 - 1000) as usize)
}

fn mfs_bytes(m: Mfs) -> usize {
    match m {
        Mfs::Zero => 0,
        Mfs::OneBatch => batch_for(0).get_array_memory_size(),
        Mfs::Max => usize::MAX,
    }
}

// ------------------------------------------------------------------ os backend (real quota, synchronous read side)

fn os_base_dir() -> &'static PathBuf {
    static D: OnceLock<PathBuf> = OnceLock::new();
    D.get_or_init(|| {
        let root = if std::path::Path::new("/dev/shm").is_dir() { PathBuf::from("/dev/shm") } else { std::env::temp_dir() };
        // remove what earlier (finished) processes left behind: the per-thread temp directories are
        // not unwound when the framework exits the process
        if let Ok(rd) = std::fs::read_dir(&root) {
            for e in rd.flatten() {
                let name = e.file_name().to_string_lossy().to_string();
                if let Some(pid) = name.strip_prefix("c16h-").and_then(|p| p.parse::<u32>().ok()) {
                    if !std::path::Path::new(&format!("/proc/{pid}")).exists() {
                        let _ = std::fs::remove_dir_all(e.path());
                    }
                }
            }
        }
        let d = root.join(format!("c16h-{}", std::process::id()));
        std::fs::create_dir_all(&d).expect("base dir");
        d
    })
}

struct OsFactory {
    dm: Arc<DiskManager>,
    live: Arc<AtomicUsize>,
    created: Arc<AtomicUsize>,
}

struct OsFile {
    inner: Arc<dyn SpillFile>,
    live: Arc<AtomicUsize>,
}

impl Drop for OsFile {
    fn drop(&mut self) {
        self.live.fetch_sub(1, Ordering::SeqCst);
    }
}

impl TempFileFactory for OsFactory {
    fn create_temp_file(&self, description: &str) -> DFResult<Arc<dyn SpillFile>> {
        let inner = self.dm.create_tmp_file(description)?;
        self.live.fetch_add(1, Ordering::SeqCst);
        self.created.fetch_add(1, Ordering::SeqCst);
        Ok(Arc::new(OsFile { inner, live: Arc::clone(&self.live) }))
    }
}

impl SpillFile for OsFile {
    fn path(&self) -> Option<&std::path::Path> {
        self.inner.path()
    }
    fn size(&self) -> Option<u64> {
        self.inner.size()
    }
    fn read_stream(&self) -> DFResult<Pin<Box<dyn Stream<Item = DFResult<bytes::Bytes>> + Send>>> {
        // Same poll protocol as the OS backend seen from the decoder (and as MemSpillFactory): the
        // first poll is Pending with an immediate wake-up (asynchronous open), every later poll
        // returns what was appended since (<= 128 KiB), a poll that finds nothing new ends the stream.
        let path = self.inner.path().ok_or_else(|| DataFusionError::Execution("no path".into()))?.to_owned();
        Ok(Box::pin(SyncFileStream { path, keep: Arc::clone(&self.inner), file: None, opened: false, done: false }))
    }
    fn open_writer(&self) -> DFResult<Box<dyn SpillWriter>> {
        // the real FileSpillWriter: quota check + used_disk_space accounting + write_all
        self.inner.open_writer()
    }
}

struct SyncFileStream {
    path: PathBuf,
    #[allow(dead_code)]
    keep: Arc<dyn SpillFile>,
    file: Option<std::fs::File>,
    opened: bool,
    done: bool,
}

impl Stream for SyncFileStream {
    type Item = DFResult<bytes::Bytes>;
    fn poll_next(mut self: Pin<&mut Self>, cx: &mut Context<'_>) -> Poll<Option<Self::Item>> {
        if self.done {
            return Poll::Ready(None);
        }
        if !self.opened {
            self.opened = true;
            cx.waker().wake_by_ref();
            return Poll::Pending;
        }
        if self.file.is_none() {
            match std::fs::File::open(&self.path) {
                Ok(f) => self.file = Some(f),
                Err(e) => {
                    self.done = true;
                    return Poll::Ready(Some(Err(DataFusionError::IoError(e))));
                }
            }
        }
        let mut buf = vec![0u8; 128 * 1024];
        match self.file.as_mut().unwrap().read(&mut buf) {
            Ok(0) => {
                self.done = true;
                Poll::Ready(None)
            }
            Ok(n) => {
                buf.truncate(n);
                Poll::Ready(Some(Ok(bytes::Bytes::from(buf))))
            }
            Err(e) => {
                self.done = true;
                Poll::Ready(Some(Err(DataFusionError::IoError(e))))
            }
        }
    }
}

// ------------------------------------------------------------------ driver pieces

struct Flag {
    woken: AtomicBool,
    wakes: AtomicUsize,
    /// self-test only: swallow wake-ups while this is set
    mute: AtomicBool,
}

impl Wake for Flag {
    fn wake(self: Arc<Self>) {
        self.wake_by_ref()
    }
    fn wake_by_ref(self: &Arc<Self>) {
        if self.mute.load(Ordering::SeqCst) {
            return;
        }
        self.woken.store(true, Ordering::SeqCst);
        self.wakes.fetch_add(1, Ordering::SeqCst);
    }
}

enum WriterH {
    Sink(SpillPoolSink),
    Multi(SpillPoolWriter),
}

impl WriterH {
    fn push(&self, b: &RecordBatch) -> DFResult<()> {
        match self {
            WriterH::Sink(s) => s.push_batch(b),
            WriterH::Multi(w) => w.push_batch(b),
        }
    }
}

enum Backend {
    Mem(Arc<MemSpillStats>),
    Os { dm: Arc<DiskManager>, live: Arc<AtomicUsize>, created: Arc<AtomicUsize> },
}

/// counters of the backend: (files created, writes, finishes, bytes in use)
#[derive(Clone, Copy, Debug, Default, PartialEq, Eq)]
struct Snap {
    created: usize,
    writes: usize,
    finishes: usize,
    usage: u64,
}

impl Backend {
    fn snap(&self) -> Snap {
        match self {
            Backend::Mem(s) => Snap {
                created: s.created.load(Ordering::SeqCst),
                writes: s.writes.load(Ordering::SeqCst),
                finishes: s.finishes.load(Ordering::SeqCst),
                usage: 0,
            },
            Backend::Os { dm, created, .. } => {
                Snap { created: created.load(Ordering::SeqCst), writes: 0, finishes: 0, usage: dm.used_disk_space() }
            }
        }
    }
}

#[derive(Clone, Copy, Debug, PartialEq, Eq)]
enum PollRes {
    Item(usize),
    End,
    /// Pending; true = the waker was invoked during the poll (the stream asked to be polled again)
    Pending(bool),
}

// ------------------------------------------------------------------ reference model

#[derive(Default)]
struct Model {
    next_id: usize,
    alive: Vec<bool>,
    /// per writer: ids of its successful pushes not yet delivered, in push order
    sure: Vec<VecDeque<usize>>,
    /// ids of pushes that returned Err: may be delivered (at most once) or not
    maybe: BTreeSet<usize>,
    owner: Vec<usize>,
    delivered: Vec<usize>,
    /// the last poll returned Pending and the waker was not invoked since
    parked: bool,
    finished: bool,
    any_push_failed: bool,
}

impl Model {
    fn alive_count(&self) -> usize {
        self.alive.iter().filter(|a| **a).count()
    }
    fn sure_total(&self) -> usize {
        self.sure.iter().map(|q| q.len()).sum()
    }
}

struct Viol {
    class: &'static str,
    what: String,
    /// index of the operation at which it was observed (ops.len() = epilogue)
    at: usize,
}

/// What the explorer needs to know about an executed history.
#[derive(Clone, Debug, Default)]
struct RunInfo {
    reader_finished: bool,
    /// the last operation was a single poll that returned Pending with a self wake-up
    last_poll_selfwoke: bool,
    last_push_ok: bool,
    /// backend counters before the first op and after each op
    snaps: Vec<Snap>,
    fault_reached: bool,
    /// index of the first operation at which an injected failure surfaced as a push error
    first_push_error_at: Option<usize>,
    transitions: u64,
    state_key: u64,
    delivered: usize,
    delivered_in_history: usize,
    files_created: usize,
    wake_checks: usize,
    parked_polls: usize,
    maybe_delivered: usize,
    maybe_total: usize,
    log: Vec<String>,
}

struct Exec<'a> {
    case: &'a Case,
    backend: Backend,
    writers: Vec<Option<WriterH>>,
    reader: Option<SendableRecordBatchStream>,
    flag: Arc<Flag>,
    waker: Waker,
    m: Model,
    info: RunInfo,
    want_log: bool,
}

impl<'a> Exec<'a> {
    fn new(case: &'a Case, want_log: bool) -> Result<Self, Viol> {
        let mach = |e: String| Viol { class: "machinery", what: e, at: 0 };
        let (env, backend) = if case.os {
            // One real DiskManager (one temp directory) per worker thread, reused by consecutive runs: a run
            // hands it back only if it ended with zero usage and zero active files (see `epilogue`), so
            // every run starts from the state of a freshly built one.
            let dm = match OS_DM.with(|c| c.borrow_mut().take()) {
                Some(dm) => dm,
                None => {
                    let b = DiskManagerBuilder::default().with_mode(DiskManagerMode::Directories(vec![os_base_dir().clone()]));
                    Arc::new(b.build().map_err(|e| mach(format!("disk manager: {e}")))?)
                }
            };
            let limit = match case.fault {
                Fault::DiskLimit(l) => l,
                _ => datafusion_execution::disk_manager::DEFAULT_MAX_TEMP_DIRECTORY_SIZE,
            };
            dm.set_max_temp_directory_size(limit).map_err(|e| mach(format!("set limit: {e}")))?;
            let live = Arc::new(AtomicUsize::new(0));
            let created = Arc::new(AtomicUsize::new(0));
            let f = Arc::new(OsFactory { dm: Arc::clone(&dm), live: Arc::clone(&live), created: Arc::clone(&created) });
            let env = RuntimeEnvBuilder::new()
                .with_disk_manager_builder(DiskManagerBuilder::default().with_temp_file_factory(f))
                .build_arc()
                .map_err(|e| mach(format!("runtime env: {e}")))?;
            (env, Backend::Os { dm, live, created })
        } else {
            let faults = match case.fault {
                Fault::None => SpillFaults::default(),
                Fault::Create(k) => SpillFaults { create: Some(k), ..Default::default() },
                Fault::Write(k) => SpillFaults { write: Some(k), ..Default::default() },
                Fault::Finish(k) => SpillFaults { finish: Some(k), ..Default::default() },
                Fault::DiskLimit(_) => return Err(mach("DiskLimit needs the os backend".into())),
            };
            let f = MemSpillFactory::new(faults);
            let stats = Arc::clone(&f.stats);
            let env = RuntimeEnvBuilder::new()
                .with_disk_manager_builder(DiskManagerBuilder::default().with_temp_file_factory(f))
                .build_arc()
                .map_err(|e| mach(format!("runtime env: {e}")))?;
            (env, Backend::Mem(stats))
        };
        let metrics = SpillMetrics::new(&ExecutionPlanMetricsSet::new(), 0);
        let sm = Arc::new(SpillManager::new(env, metrics, schema()));
        let max = mfs_bytes(case.mfs);
        let (w, reader) = match case.kind {
            Kind::Spsc => {
                let (w, r) = spill_pool::spsc_channel(max, sm);
                (WriterH::Sink(w), r)
            }
            Kind::Mpsc => {
                let (w, r) = spill_pool::mpsc_channel(max, sm);
                (WriterH::Multi(w), r)
            }
        };
        let flag = Arc::new(Flag { woken: AtomicBool::new(false), wakes: AtomicUsize::new(0), mute: AtomicBool::new(false) });
        let waker = Waker::from(Arc::clone(&flag));
        let mut m = Model::default();
        m.alive.push(true);
        m.sure.push(VecDeque::new());
        let mut info = RunInfo::default();
        info.snaps.push(backend.snap());
        Ok(Exec { case, backend, writers: vec![Some(w)], reader: Some(reader), flag, waker, m, info, want_log })
    }

    fn log(&mut self, s: impl FnOnce() -> String) {
        if self.want_log {
            let s = s();
            self.info.log.push(s);
        }
    }

    fn plant(&self, p: Plant) -> bool {
        self.case.plant == Some(p)
    }

    /// one `poll_next` on the real reader
    fn raw_poll(&mut self, at: usize) -> Result<PollRes, Viol> {
        self.flag.woken.store(false, Ordering::SeqCst);
        self.info.transitions += 1;
        let r = {
            let mut cx = Context::from_waker(&self.waker);
            self.reader.as_mut().expect("reader").poll_next_unpin(&mut cx)
        };
        // self-test: a harness stream that hangs instead of ending once a push has failed
        let r = match r {
            Poll::Ready(None) if self.plant(Plant::HangAfterFailedPush) && self.m.any_push_failed => Poll::Pending,
            r => r,
        };
        match r {
            Poll::Ready(Some(Ok(b))) => {
                let id = id_of(&b).map_err(|e| Viol { class: "foreign_batch", what: format!("reader yielded a batch that was never pushed: {e}"), at })?;
                Ok(PollRes::Item(id))
            }
            Poll::Ready(Some(Err(e))) => Err(Viol {
                class: "reader_error",
                what: format!("reader yielded an error instead of a pushed batch: {e}"),
                at,
            }),
            Poll::Ready(None) => Ok(PollRes::End),
            Poll::Pending => Ok(PollRes::Pending(self.flag.woken.load(Ordering::SeqCst))),
        }
    }

    /// model transition + oracle for one reader observation
    fn observe(&mut self, r: PollRes, at: usize, in_history: bool) -> Result<(), Viol> {
        let kind = self.case.kind;
        match r {
            PollRes::Item(id) => {
                self.m.parked = false;
                if id >= self.m.next_id {
                    return Err(Viol { class: "foreign_batch", what: format!("reader yielded batch #{id}, which was never pushed"), at });
                }
                if self.m.delivered.contains(&id) {
                    return Err(Viol {
                        class: "duplicate",
                        what: format!("reader yielded batch #{id} twice (delivered so far {:?})", self.m.delivered),
                        at,
                    });
                }
                if self.m.maybe.remove(&id) {
                    // batch of a push that returned Err: allowed, nothing demanded about its position
                    self.info.maybe_delivered += 1;
                } else {
                    let w = self.m.owner[id];
                    let lifo = self.plant(Plant::RefLifo);
                    let expect = if lifo { self.m.sure[w].back().copied() } else { self.m.sure[w].front().copied() };
                    if expect != Some(id) {
                        let (class, text) = match kind {
                            Kind::Spsc => ("spsc_order", "single-writer channel must yield the pushed batches in push order"),
                            Kind::Mpsc => ("mpsc_writer_order", "batches of one writer must be yielded in that writer's push order"),
                        };
                        return Err(Viol {
                            class,
                            what: format!(
                                "{text}: got #{id} of writer {w}, expected #{:?}; undelivered of that writer {:?}, delivered so far {:?}",
                                expect, self.m.sure[w], self.m.delivered
                            ),
                            at,
                        });
                    }
                    if lifo {
                        self.m.sure[w].pop_back();
                    } else {
                        self.m.sure[w].pop_front();
                    }
                }
                self.m.delivered.push(id);
                self.info.delivered += 1;
                if in_history {
                    self.info.delivered_in_history += 1;
                }
            }
            PollRes::End => {
                self.m.parked = false;
                self.m.finished = true;
                if self.m.alive_count() > 0 {
                    return Err(Viol {
                        class: "early_end",
                        what: format!("reader reported end-of-stream while {} writer(s) are still alive", self.m.alive_count()),
                        at,
                    });
                }
                if self.m.sure_total() > 0 {
                    let lost: Vec<usize> = self.m.sure.iter().flatten().copied().collect();
                    return Err(Viol {
                        class: "lost_batch",
                        what: format!("reader reported end-of-stream but successfully pushed batches {lost:?} were never delivered (delivered {:?})", self.m.delivered),
                        at,
                    });
                }
            }
            PollRes::Pending(true) => {
                // the stream asked to be polled again (asynchronous file open): not parked
                self.m.parked = false;
            }
            PollRes::Pending(false) => {
                self.m.parked = true;
                self.info.parked_polls += 1;
                if self.m.alive_count() == 0 {
                    return Err(Viol {
                        class: if self.m.any_push_failed { "hang_after_failed_push" } else { "hang_all_writers_dropped" },
                        what: format!(
                            "all writers are dropped but the reader returned Pending without a wake-up: it waits forever \
                             (undelivered successful batches {:?}, delivered {:?}, a push failed before: {})",
                            self.m.sure.iter().flatten().collect::<Vec<_>>(),
                            self.m.delivered,
                            self.m.any_push_failed
                        ),
                        at,
                    });
                }
                if self.m.sure_total() > 0 {
                    return Err(Viol {
                        class: "parked_with_data",
                        what: format!(
                            "reader returned Pending without a wake-up although successfully pushed batches {:?} are available; \
                             nothing will wake it until another push or the last drop",
                            self.m.sure.iter().flatten().collect::<Vec<_>>()
                        ),
                        at,
                    });
                }
            }
        }
        Ok(())
    }

    fn poll_fix(&mut self, at: usize, in_history: bool) -> Result<PollRes, Viol> {
        let mut rounds = 0;
        loop {
            rounds += 1;
            let r = self.raw_poll(at)?;
            self.observe(r, at, in_history)?;
            match r {
                PollRes::Pending(true) if rounds < 64 => continue,
                PollRes::Pending(true) => {
                    if self.m.alive_count() == 0 {
                        return Err(Viol {
                            class: "spin_all_writers_dropped",
                            what: "all writers are dropped and the reader keeps returning Pending with a self wake-up (64 rounds): it never terminates".into(),
                            at,
                        });
                    }
                    return Ok(r);
                }
                _ => return Ok(r),
            }
        }
    }

    /// after a writer-side operation: did it wake a parked reader?
    fn after_writer_op(&mut self, must_wake: bool, what: &str, at: usize) -> Result<(), Viol> {
        let woken = self.flag.woken.load(Ordering::SeqCst);
        if self.m.parked {
            if must_wake {
                self.info.wake_checks += 1;
            }
            if woken {
                self.m.parked = false;
            } else if must_wake {
                return Err(Viol {
                    class: "lost_wakeup",
                    what: format!("the reader's last poll returned Pending (waker registered), then {what}, but the waker was not invoked"),
                    at,
                });
            }
        }
        Ok(())
    }

    fn drop_writer(&mut self, w: usize, at: usize) -> Result<(), Viol> {
        let h = self.writers[w].take().expect("alive writer");
        self.info.transitions += 1;
        self.m.alive[w] = false;
        let last = self.m.alive_count() == 0;
        if last && self.plant(Plant::LoseFinalWake) {
            self.flag.mute.store(true, Ordering::SeqCst);
        }
        drop(h);
        self.flag.mute.store(false, Ordering::SeqCst);
        self.after_writer_op(last, &format!("the last writer ({w}) was dropped"), at)
    }

    fn step(&mut self, i: usize, op: Op) -> Result<(), Viol> {
        self.info.last_poll_selfwoke = false;
        match op {
            Op::Push(w) | Op::PushEmpty(w) => {
                let w = w as usize;
                let empty = matches!(op, Op::PushEmpty(_));
                let (id, batch) = if empty {
                    (usize::MAX, empty_batch())
                } else {
                    let id = self.m.next_id;
                    self.m.next_id += 1;
                    self.m.owner.push(w);
                    (id, batch_for(id))
                };
                self.info.transitions += 1;
                let r = self.writers[w].as_ref().expect("alive writer").push(&batch);
                match r {
                    Ok(()) => {
                        self.info.last_push_ok = true;
                        if !empty {
                            self.m.sure[w].push_back(id);
                        }
                        self.log(|| if empty { format!("push_empty({w})=ok") } else { format!("push({w})#{id}=ok") });
                        self.after_writer_op(!empty, &format!("push #{id} by writer {w} succeeded"), i)?;
                    }
                    Err(e) => {
                        self.info.last_push_ok = false;
                        let msg = e.to_string();
                        let injected = msg.contains("INJECTED spill failure") || msg.contains("exceeded the allowable limit");
                        if !injected || matches!(self.case.fault, Fault::None) || empty {
                            return Err(Viol {
                                class: "push_failed_without_fault",
                                what: format!("push by writer {w} failed although no failure was injected into it: {msg}"),
                                at: i,
                            });
                        }
                        self.m.any_push_failed = true;
                        if self.info.first_push_error_at.is_none() {
                            self.info.first_push_error_at = Some(i);
                        }
                        self.m.maybe.insert(id);
                        self.info.maybe_total += 1;
                        self.log(|| format!("push({w})#{id}=ERR"));
                        self.after_writer_op(false, "", i)?;
                    }
                }
            }
            Op::Drop(w) => {
                let w = w as usize;
                self.log(|| format!("drop({w})"));
                self.drop_writer(w, i)?;
            }
            Op::Clone(w) => {
                let w = w as usize;
                self.info.transitions += 1;
                let c = match self.writers[w].as_ref().expect("alive writer") {
                    WriterH::Multi(x) => WriterH::Multi(x.clone()),
                    WriterH::Sink(_) => return Err(Viol { class: "machinery", what: "clone on an spsc sink".into(), at: i }),
                };
                self.writers.push(Some(c));
                self.m.alive.push(true);
                self.m.sure.push(VecDeque::new());
                let n = self.writers.len() - 1;
                self.log(|| format!("clone({w})->{n}"));
                self.after_writer_op(false, "", i)?;
            }
            Op::PollOnce => {
                let r = self.raw_poll(i)?;
                self.log(|| format!("poll_once={r:?}"));
                self.observe(r, i, true)?;
                self.info.last_poll_selfwoke = r == PollRes::Pending(true);
            }
            Op::PollFix => {
                let r = self.poll_fix(i, true)?;
                self.log(|| format!("poll_fix={r:?}"));
            }
        }
        Ok(())
    }

    fn state_key(&self) -> u64 {
        let mut per: Vec<(bool, usize)> = (0..self.m.alive.len()).map(|w| (self.m.alive[w], self.m.sure[w].len())).collect();
        per.sort();
        stable_hash(&(
            (self.case.kind, self.case.mfs, self.case.os, self.case.fault),
            per,
            self.m.delivered.len(),
            self.m.maybe.len(),
            self.m.next_id,
            self.m.parked,
            self.m.finished,
            self.info.last_poll_selfwoke,
        ))
    }

    fn fault_reached(&self) -> bool {
        let s = self.backend.snap();
        match self.case.fault {
            Fault::None => false,
            Fault::Create(k) => s.created > k,
            Fault::Write(k) => s.writes > k,
            Fault::Finish(k) => s.finishes > k,
            Fault::DiskLimit(_) => self.m.any_push_failed,
        }
    }

    /// drop what is left, drain the reader, check termination and leaks
    fn epilogue(&mut self) -> Result<(), Viol> {
        let at = self.case.ops.len();
        for w in 0..self.writers.len() {
            if self.writers[w].is_some() {
                self.drop_writer(w, at)?;
            }
        }
        if !self.m.finished {
            let budget = self.m.sure_total() + self.m.maybe.len() + 2;
            for _ in 0..budget {
                let r = self.poll_fix(at, false)?;
                self.log(|| format!("epilogue poll_fix={r:?}"));
                match r {
                    PollRes::End => break,
                    PollRes::Item(_) => {}
                    PollRes::Pending(_) => unreachable!("Pending with no writer alive is reported by observe/poll_fix"),
                }
            }
            if !self.m.finished {
                return Err(Viol { class: "no_end", what: "reader keeps yielding items beyond everything that was pushed".into(), at });
            }
        }
        self.reader = None;
        self.info.transitions += 1;
        match &self.backend {
            Backend::Mem(s) => {
                let live = s.live_files.load(Ordering::SeqCst);
                if live != 0 {
                    return Err(Viol { class: "leak", what: format!("{live} spill file(s) still alive after writers and reader were dropped"), at });
                }
            }
            Backend::Os { dm, live, .. } => {
                let l = live.load(Ordering::SeqCst);
                let used = dm.used_disk_space();
                let active = dm.spilling_progress().active_files_count;
                if l != 0 || used != 0 || active != 0 {
                    return Err(Viol {
                        class: "leak",
                        what: format!("after writers and reader were dropped: {l} spill file handle(s) alive, used_disk_space() = {used}, active_files_count = {active}"),
                        at,
                    });
                }
                // clean: the next run on this thread may reuse the disk manager
                OS_DM.with(|c| *c.borrow_mut() = Some(Arc::clone(dm)));
            }
        }
        Ok(())
    }
}

thread_local! {
    static OS_DM: std::cell::RefCell<Option<Arc<DiskManager>>> = const { std::cell::RefCell::new(None) };
}

fn run_case(case: &Case, want_log: bool) -> Result<RunInfo, Viol> {
    // validate the operation list against the abstract state (replay files may be hand-written)
    {
        let mut alive = vec![true];
        for (i, op) in case.ops.iter().enumerate() {
            let bad = |w: u8| (w as usize) >= alive.len() || !alive[w as usize];
            let ok = match *op {
                Op::Push(w) | Op::PushEmpty(w) => !bad(w),
                Op::Drop(w) => {
                    if bad(w) {
                        false
                    } else {
                        alive[w as usize] = false;
                        true
                    }
                }
                Op::Clone(w) => {
                    if bad(w) || case.kind == Kind::Spsc {
                        false
                    } else {
                        alive.push(true);
                        true
                    }
                }
                Op::PollOnce | Op::PollFix => true,
            };
            if !ok {
                return Err(Viol { class: "machinery", what: format!("operation {i} ({op:?}) is not enabled"), at: i });
            }
        }
    }
    let mut x = Exec::new(case, want_log)?;
    for (i, op) in case.ops.iter().enumerate() {
        if x.m.finished && matches!(op, Op::PollOnce | Op::PollFix) {
            return Err(Viol { class: "machinery", what: format!("operation {i}: poll after end-of-stream"), at: i });
        }
        x.step(i, *op)?;
        let s = x.backend.snap();
        x.info.snaps.push(s);
    }
    x.info.reader_finished = x.m.finished;
    x.info.state_key = x.state_key();
    x.epilogue()?;
    x.info.fault_reached = x.fault_reached();
    x.info.files_created = x.backend.snap().created;
    Ok(std::mem::take(&mut x.info))
}

/// run with panics turned into violations; the violation's case is cut to the failing prefix
fn run_guarded(case: &Case, want_log: bool) -> Result<RunInfo, (String, String, Case)> {
    thread_local! {
        static RT: tokio::runtime::Runtime = tokio::runtime::Builder::new_current_thread().build().expect("runtime");
    }
    let r = RT.with(|rt| {
        let _enter = rt.enter();
        mc_core::catch(|| run_case(case, want_log))
    });
    let v = match r {
        Ok(Ok(i)) => return Ok(i),
        Ok(Err(v)) => v,
        Err(p) => Viol { class: "panic", what: format!("panic: {p}"), at: case.ops.len() },
    };
    let mut min = case.clone();
    let mut what = v.what;
    if v.at < case.ops.len() {
        min.ops.truncate(v.at + 1);
        what = format!("at operation {} ({:?}): {what}", v.at, case.ops[v.at]);
    } else {
        what = format!("in the epilogue (remaining writers dropped, reader drained): {what}");
    }
    let key = format!("{}|{}", v.class, serde_json::to_string(&min).unwrap());
    Err((key, what, min))
}

// ------------------------------------------------------------------ explorer

#[derive(Clone, Debug, Serialize)]
struct Family {
    name: &'static str,
    kind: Kind,
    os: bool,
    max_len: usize,
    max_writers: usize,
    max_push: usize,
    max_empty: usize,
    /// inject the k-th write failure for every k-th reached write (1 = all)
    write_fault_all: bool,
}

#[derive(Default)]
struct Acc {
    evals: u64,
    transitions: u64,
    states: HashSet<u64>,
    nontrivial: Vec<u64>,
    fault_runs: u64,
    fault_reached_runs: u64,
    faulted_histories_by_kind: [u64; 4],
    maybe_delivered: u64,
    maybe_dropped: u64,
    wake_checks: u64,
    parked_polls: u64,
    delivered: u64,
    rotations_runs: u64,
    disk_variants_skipped: u64,
    max_len_seen: usize,
    viols: Vec<(usize, String, String, Value)>,
}

struct Global {
    acc: Mutex<Acc>,
    viol_count: AtomicUsize,
    nodes: AtomicU64,
    stopped: AtomicBool,
    sampled: Mutex<HashSet<u64>>,
    plant: Option<Plant>,
}

impl Global {
    fn merge(&self, a: Acc) {
        let mut g = self.acc.lock().unwrap();
        g.evals += a.evals;
        g.transitions += a.transitions;
        g.states.extend(a.states);
        g.nontrivial.extend(a.nontrivial);
        g.fault_runs += a.fault_runs;
        g.fault_reached_runs += a.fault_reached_runs;
        for i in 0..4 {
            g.faulted_histories_by_kind[i] += a.faulted_histories_by_kind[i];
        }
        g.maybe_delivered += a.maybe_delivered;
        g.maybe_dropped += a.maybe_dropped;
        g.wake_checks += a.wake_checks;
        g.parked_polls += a.parked_polls;
        g.delivered += a.delivered;
        g.rotations_runs += a.rotations_runs;
        g.disk_variants_skipped += a.disk_variants_skipped;
        g.max_len_seen = g.max_len_seen.max(a.max_len_seen);
        g.viols.extend(a.viols);
    }
}

struct Abs {
    alive: Vec<bool>,
    used: Vec<bool>,
    pushes: usize,
    empties: usize,
}

fn abs_of(ops: &[Op]) -> Abs {
    let mut a = Abs { alive: vec![true], used: vec![true], pushes: 0, empties: 0 };
    for op in ops {
        match *op {
            Op::Push(w) => {
                a.pushes += 1;
                a.used[w as usize] = true;
            }
            Op::PushEmpty(w) => {
                a.empties += 1;
                a.used[w as usize] = true;
            }
            Op::Drop(w) => a.alive[w as usize] = false,
            Op::Clone(w) => {
                a.used[w as usize] = true;
                a.alive.push(true);
                a.used.push(false);
            }
            Op::PollOnce | Op::PollFix => {}
        }
    }
    a
}

/// children of a node, as groups that must be processed in order inside one task
fn children(fam: &Family, ops: &[Op], info: &RunInfo) -> Vec<Vec<Op>> {
    let a = abs_of(ops);
    let mut out: Vec<Vec<Op>> = vec![];
    let mut seen_unused_clone = false;
    for w in 0..a.alive.len() {
        if !a.alive[w] {
            continue;
        }
        if !a.used[w] {
            // unused clones are interchangeable: only the oldest is operated on
            if seen_unused_clone {
                continue;
            }
            seen_unused_clone = true;
        }
        let wb = w as u8;
        if a.pushes < fam.max_push {
            out.push(vec![Op::Push(wb)]);
        }
        if a.empties < fam.max_empty {
            out.push(vec![Op::PushEmpty(wb)]);
        }
        out.push(vec![Op::Drop(wb)]);
        if fam.kind == Kind::Mpsc && a.alive.len() < fam.max_writers {
            out.push(vec![Op::Clone(wb)]);
        }
    }
    if !info.reader_finished {
        out.push(vec![Op::PollOnce, Op::PollFix]);
    }
    out
}

const PAR_DEPTH: usize = 3;

struct Explorer<'a> {
    ctx: &'a Ctx,
    g: &'a Global,
    fam: &'a Family,
}

impl<'a> Explorer<'a> {
    fn stop(&self) -> bool {
        if self.g.stopped.load(Ordering::Relaxed) {
            return true;
        }
        let n = self.g.nodes.fetch_add(1, Ordering::Relaxed);
        if self.g.viol_count.load(Ordering::Relaxed) >= 64 || (n % 256 == 0 && self.ctx.out_of_time()) {
            self.g.stopped.store(true, Ordering::Relaxed);
            return true;
        }
        false
    }

    /// execute one node; returns its info if it passed
    fn run_node(&self, case: &Case, acc: &mut Acc) -> Option<RunInfo> {
        let want_log = false;
        acc.evals += 1;
        match run_guarded(case, want_log) {
            Ok(info) => {
                acc.transitions += info.transitions;
                acc.states.insert(info.state_key);
                acc.max_len_seen = acc.max_len_seen.max(case.ops.len());
                acc.wake_checks += info.wake_checks as u64;
                acc.parked_polls += info.parked_polls as u64;
                acc.delivered += info.delivered as u64;
                acc.maybe_delivered += info.maybe_delivered as u64;
                acc.maybe_dropped += (info.maybe_total - info.maybe_delivered) as u64;
                if info.files_created >= 2 {
                    acc.rotations_runs += 1;
                }
                if case.fault != Fault::None {
                    acc.fault_runs += 1;
                    if info.fault_reached {
                        acc.fault_reached_runs += 1;
                        let k = match case.fault {
                            Fault::Create(_) => 0,
                            Fault::Write(_) => 1,
                            Fault::Finish(_) => 2,
                            _ => 3,
                        };
                        acc.faulted_histories_by_kind[k] += 1;
                    }
                }
                // non-trivial: a batch was delivered and (a parked reader had to be woken, or a file
                // rotation happened, or the injected failure was reached)
                if info.delivered >= 1 && (info.wake_checks >= 1 || info.files_created >= 2 || info.fault_reached) {
                    acc.nontrivial.push(stable_hash(case));
                }
                if case.ops.len() >= 5 && info.delivered_in_history >= 2 && info.wake_checks >= 1 && info.files_created >= 2 && self.ctx.want_sample() {
                    let class = (case.kind, case.os, std::mem::discriminant(&case.fault));
                    if self.g.sampled.lock().unwrap().insert(stable_hash(&class)) {
                        if let Ok(full) = run_guarded(case, true) {
                            self.ctx.sample(json!({"case": case, "observations": full.log}));
                        }
                    }
                }
                Some(info)
            }
            Err((key, what, min)) => {
                self.g.viol_count.fetch_add(1, Ordering::Relaxed);
                acc.viols.push((min.ops.len(), key, what, serde_json::to_value(&min).unwrap()));
                None
            }
        }
    }

    fn visit(&self, cfg: &Case, info: &RunInfo, acc: &mut Acc) {
        if cfg.ops.len() >= self.fam.max_len {
            return;
        }
        let groups = children(self.fam, &cfg.ops, info);
        if cfg.ops.len() < PAR_DEPTH {
            groups.into_par_iter().for_each(|grp| {
                let mut a = Acc::default();
                self.group(cfg, &grp, &mut a);
                self.g.merge(a);
            });
        } else {
            for grp in groups {
                self.group(cfg, &grp, acc);
            }
        }
    }

    fn group(&self, cfg: &Case, grp: &[Op], acc: &mut Acc) {
        let mut prev_selfwoke = false;
        for (gi, op) in grp.iter().enumerate() {
            if *op == Op::PollFix && gi > 0 && !prev_selfwoke {
                // would perform the same single poll_next call as PollOnce did
                continue;
            }
            if self.stop() {
                return;
            }
            let mut child = cfg.clone();
            child.ops.push(*op);
            let Some(ci) = self.run_node(&child, acc) else { continue };
            prev_selfwoke = ci.last_poll_selfwoke;
            if cfg.fault == Fault::None {
                self.spawn_faults(&child, &ci, acc);
            }
            self.visit(&child, &ci, acc);
        }
    }

    /// fault configurations whose failure point lies in the last operation of `child`
    fn spawn_faults(&self, child: &Case, ci: &RunInfo, acc: &mut Acc) {
        let n = ci.snaps.len();
        let (before, after) = (ci.snaps[n - 2], ci.snaps[n - 1]);
        let mut faults: Vec<Fault> = vec![];
        if !child.os {
            for k in before.created..after.created {
                faults.push(Fault::Create(k));
            }
            if self.fam.write_fault_all {
                for k in before.writes..after.writes {
                    faults.push(Fault::Write(k));
                }
            } else if after.writes > before.writes {
                faults.push(Fault::Write(before.writes));
                if after.writes - 1 > before.writes {
                    faults.push(Fault::Write(after.writes - 1));
                }
            }
            for k in before.finishes..after.finishes {
                faults.push(Fault::Finish(k));
            }
        } else if matches!(child.ops.last(), Some(Op::Push(_))) && ci.last_push_ok && after.usage > before.usage {
            // limit hit by the first / by the last write of this push
            faults.push(Fault::DiskLimit(before.usage));
            if after.usage - 1 > before.usage {
                faults.push(Fault::DiskLimit(after.usage - 1));
            }
        }
        for f in faults {
            if self.stop() {
                return;
            }
            let mut fc = child.clone();
            fc.fault = f;
            let Some(fi) = self.run_node(&fc, acc) else { continue };
            if let Fault::DiskLimit(_) = f {
                // usage is not monotone (the reader releases files): the limit may already stop an earlier push;
                // that history belongs to the variant rooted at the earlier push
                if fi.first_push_error_at != Some(fc.ops.len() - 1) {
                    acc.disk_variants_skipped += 1;
                    continue;
                }
            }
            self.visit(&fc, &fi, acc);
        }
    }
}

fn families(ctx: &Ctx) -> Vec<Family> {
    let q = ctx.quick();
    vec![
        Family { name: "spsc/mem", kind: Kind::Spsc, os: false, max_len: if q { 8 } else { 10 }, max_writers: 1, max_push: 4, max_empty: 2, write_fault_all: true },
        Family { name: "mpsc2/mem", kind: Kind::Mpsc, os: false, max_len: if q { 7 } else { 9 }, max_writers: 2, max_push: 4, max_empty: 1, write_fault_all: true },
        Family { name: "mpsc3/mem", kind: Kind::Mpsc, os: false, max_len: if q { 6 } else { 8 }, max_writers: 3, max_push: 4, max_empty: 1, write_fault_all: !q },
        Family { name: "spsc/os", kind: Kind::Spsc, os: true, max_len: if q { 8 } else { 10 }, max_writers: 1, max_push: 4, max_empty: 1, write_fault_all: true },
        Family { name: "mpsc2/os", kind: Kind::Mpsc, os: true, max_len: if q { 6 } else { 8 }, max_writers: 2, max_push: 4, max_empty: 1, write_fault_all: true },
    ]
}

fn plant_from_env() -> Option<Plant> {
    match std::env::var("C16H_SELFTEST").ok().as_deref() {
        Some("hang_after_failed_push") => Some(Plant::HangAfterFailedPush),
        Some("ref_lifo") => Some(Plant::RefLifo),
        Some("lose_final_wake") => Some(Plant::LoseFinalWake),
        _ => None,
    }
}

fn explore(ctx: &Ctx) {
    let fams = families(ctx);
    let only: Option<String> = std::env::var("C16H_FAMILY").ok();
    let g = Global { acc: Mutex::new(Acc::default()), viol_count: AtomicUsize::new(0), nodes: AtomicU64::new(0), stopped: AtomicBool::new(false), sampled: Mutex::new(HashSet::new()), plant: plant_from_env() };
    ctx.set_extra(
        "bounds",
        json!({
            "families": fams,
            "max_file_size": ["0 (rotate every push)", format!("{} (one batch: rotate every 2nd push)", mfs_bytes(Mfs::OneBatch)), "usize::MAX"],
            "alphabet": "writer w: push(2-row batch) | push(0-row batch) | drop | clone (mpsc); reader: poll once | poll to fixed point",
            "faults_mem": "single failure per history: k-th create_temp_file / k-th write / k-th finish, every k reached by the fault-free history (write_fault_all=false: first and last write of each operation only)",
            "faults_os": "max_temp_directory_size = usage before a push (its first write fails) and usage after it - 1 (its last write fails), for every successful push of every history, unless an earlier push already fails under that limit",
            "epilogue": "after every prefix: drop remaining writers, drain reader to end, drop reader, check leaks",
        }),
    );
    if let Some(p) = g.plant {
        ctx.set_extra("selftest_plant", json!(format!("{p:?}")));
    }
    ctx.assume("sequential histories only: operations do not overlap in time (thread interleavings inside an operation are the loom part of C16)");
    ctx.assume("os backend: write side, quota and used_disk_space accounting are the real FileSpillWriter / DiskManager; the read side is a synchronous file reader with the poll protocol of tokio_util::io::ReaderStream (first poll Pending+wake, then appended bytes, EOF when nothing new)");

    for fam in &fams {
        if let Some(o) = &only {
            if o != fam.name {
                continue;
            }
        }
        let t0 = std::time::Instant::now();
        let before = g.acc.lock().unwrap().evals;
        let roots: Vec<Case> = [Mfs::Zero, Mfs::OneBatch, Mfs::Max]
            .into_iter()
            .map(|mfs| Case { kind: fam.kind, mfs, os: fam.os, fault: Fault::None, ops: vec![], plant: g.plant })
            .collect();
        roots.into_par_iter().for_each(|root| {
            let ex = Explorer { ctx, g: &g, fam };
            let mut acc = Acc::default();
            if let Some(info) = ex.run_node(&root, &mut acc) {
                ex.visit(&root, &info, &mut acc);
            }
            g.merge(acc);
        });
        let after = g.acc.lock().unwrap().evals;
        ctx.count(&format!("histories[{}]", fam.name), after - before);
        eprintln!("family {:10} : {:>9} histories in {:.1}s", fam.name, after - before, t0.elapsed().as_secs_f64());
        if ctx.out_of_time() {
            break;
        }
    }

    let mut acc = std::mem::take(&mut *g.acc.lock().unwrap());
    ctx.evals(acc.evals);
    ctx.add_transitions(acc.transitions);
    ctx.add_states(acc.states.len() as u64);
    for h in &acc.nontrivial {
        ctx.nontrivial(h);
    }
    ctx.count("histories_with_fault_config", acc.fault_runs);
    ctx.count("histories_fault_actually_reached", acc.fault_reached_runs);
    ctx.count("fault_reached[create]", acc.faulted_histories_by_kind[0]);
    ctx.count("fault_reached[write]", acc.faulted_histories_by_kind[1]);
    ctx.count("fault_reached[finish]", acc.faulted_histories_by_kind[2]);
    ctx.count("fault_reached[disk_limit]", acc.faulted_histories_by_kind[3]);
    ctx.count("disk_limit_variants_skipped_earlier_push_fails", acc.disk_variants_skipped);
    ctx.count("failed_push_batch_delivered", acc.maybe_delivered);
    ctx.count("failed_push_batch_not_delivered", acc.maybe_dropped);
    ctx.count("wakeup_obligations_checked", acc.wake_checks);
    ctx.count("parked_polls", acc.parked_polls);
    ctx.count("batches_delivered", acc.delivered);
    ctx.count("histories_with_rotation", acc.rotations_runs);
    ctx.count("max_history_length", acc.max_len_seen as u64);
    // shortest counterexamples first
    acc.viols.sort_by(|a, b| (a.0, &a.1).cmp(&(b.0, &b.1)));
    for (_, key, what, case) in acc.viols.into_iter().take(25) {
        ctx.violation(key, what, case);
    }
}

fn replay(v: &Value) -> Result<(), String> {
    let c: Case = serde_json::from_value(v.clone()).map_err(|e| format!("bad case: {e}"))?;
    match run_guarded(&c, true) {
        Ok(info) => {
            for l in &info.log {
                eprintln!("  {l}");
            }
            Ok(())
        }
        Err((_, what, _)) => Err(what),
    }
}

fn main() {
    mc_core::quiet_panics();
    run_check(
        "C16",
        Level::ModelChecking,
        "every sequential history (all prefixes, each re-executed from scratch and closed by drop-all + drain) over {push, push-empty, drop, clone, poll-once, poll-to-fixed-point} \
         within the per-family bounds x max_file_size {0, one batch, MAX} x every single create/write/finish failure reached (mem backend) or every disk-limit position (os backend); \
         states = distinct canonical reference states (config, sorted per-writer (alive, undelivered), delivered, parked, finished), transitions = calls into the implementation; \
         non-trivial = at least one batch delivered and (a parked reader had to be woken by a push/last drop, or a file rotation happened, or the injected failure was reached)",
        explore,
        replay,
    );
}
