//! C19 — dropping a query stream releases resources and stops background work;
//! a running query keeps yielding to the runtime.
//!
//! Part `drop` (engine evt, crash-point enumeration): for every plan shape of list P
//! (`c20/shapes.rs`) x memory budget {unbounded, calibrated spilling budget} x
//! {no fault, a source error in the middle of each input}: the query is driven in
//! the default event order (and every order with <= 1 / <= 2 deviations) and
//! abandoned at EVERY point: after s driver steps for every s from 0 (streams
//! created, never polled) to completion (all outputs dropped at once), and output j
//! alone right after its k-th batch for every (j, k) (the other outputs are read to
//! their end).  An output that yields an error is dropped by the consumer model
//! (every caller stops at the first error).  After the drop the plan is dropped too
//! and the runtime runs to quiescence (paused clock); then no input stream may be
//! alive, the pool must have 0 bytes reserved, no spill file may exist and the
//! number of alive tokio tasks must be back to its value before the query.
//!
//! Part `yield` (subprocesses under a watchdog): every shape over ENDLESS
//! always-ready sources behind `CooperativeExec`, drained by one task that never
//! yields by itself, next to a canary task on the same current-thread runtime:
//! between two polls of the canary no source stream may hand out more than
//! 2 x 128 batches (tokio's cooperative budget); after a fixed number of source
//! batches the query task is aborted: the abort must complete, every source stream
//! must be dropped and the pool empty.  A case that burns more than 20 s of CPU
//! (or 300 s of wall clock) without reporting is a reported violation (the task
//! never yielded), not a hung check; the subprocess continues with the next case.
#[path = "c20/shapes.rs"]
mod shapes;

use chk_plan::evt::RunRecord;
use datafusion_execution::SendableRecordBatchStream;
use datafusion_physical_plan::ExecutionPlan;
use futures::StreamExt;
use mc_core::explore::Trace;
use mc_core::serde_json::{Value, json};
use mc_core::{Ctx, Level, rayon::prelude::*, run_check};
use serde::{Deserialize, Serialize};
use shapes::{ALL_SHAPES, Fault, Shape, Spec, run_spec};
use std::collections::HashSet;
use std::future::Future;
use std::pin::Pin;
use std::sync::Arc;
use std::sync::atomic::{AtomicBool, AtomicUsize, Ordering};
use std::task::{Context, Poll};
use std::time::{Duration, Instant};

type Plan = Arc<dyn ExecutionPlan>;

#[derive(Serialize, Deserialize, Clone, Debug)]
enum Case {
    Drop { spec: Spec, prefix: Vec<usize> },
    Yield { spec: Spec, batches: usize },
}

fn wrap(p: Plan, _spec: &Spec) -> Plan {
    p
}

// ------------------------------------------------------------------ part drop

fn check_released(rec: &RunRecord) -> Result<(), (String, String)> {
    let v = |sym: &str, what: String| Err((sym.to_string(), what));
    if let Some(p) = &rec.panicked {
        return v("panic", format!("panic: {p}"));
    }
    if rec.live_source_streams_end != 0 {
        return v("input_stream_alive", format!("{} input stream(s) still alive after the query streams and the plan were dropped and the runtime went idle", rec.live_source_streams_end));
    }
    if rec.alive_tasks_end != rec.alive_tasks_start {
        return v("task_alive", format!("{} tokio task(s) alive after the drop (before the query: {})", rec.alive_tasks_end, rec.alive_tasks_start));
    }
    if rec.pool_reserved_end != 0 {
        return v("memory_reserved", format!("{} bytes still reserved in the memory pool after the drop", rec.pool_reserved_end));
    }
    if rec.live_spill_files_end != 0 {
        return v("spill_file_alive", format!("{} spill file(s) still exist after the drop ({} created)", rec.live_spill_files_end, rec.spill_files_created));
    }
    Ok(())
}

fn order_is_randomized(spec: &Spec) -> bool {
    // see c20.rs: executions of these scenarios are not a function of the event order
    spec.shape == Shape::Interleave || (spec.shape.has_coalescing_repartition() && spec.budget.is_some())
}

fn run_drop(spec: &Spec, prefix: &[usize]) -> (Trace, RunRecord, Result<(), (String, String)>) {
    let o = run_spec(spec, prefix, &wrap);
    let r = check_released(&o.rec);
    (o.trace, o.rec, r)
}

fn crash_label(spec: &Spec) -> String {
    match (spec.stop_at, spec.drop_after) {
        (Some(s), _) => format!("stop_at_step_{s}"),
        (_, Some((j, k))) => format!("drop_output_{j}_after_{k}_batches"),
        _ => "run_to_completion".into(),
    }
}

fn explore_drop(ctx: &Ctx) {
    let bs = 8192usize;
    let calibrated: Vec<(Shape, Option<(usize, usize)>)> = ALL_SHAPES.par_iter().map(|s| (*s, shapes::calibrate(*s, bs))).collect();
    // scenarios: shape x budget x fault variant
    let mut scenarios: Vec<Spec> = vec![];
    let mut budgets = serde_json::Map::new();
    for (s, cal) in &calibrated {
        let mut budgets_here = vec![None];
        if let Some((limit, files)) = cal {
            budgets_here.push(Some(*limit));
            budgets.insert(format!("{s:?}"), json!({"fair_spill_pool_limit": limit, "spill_files_fault_free": files}));
        }
        let (_, _, infos) = shapes::build_plan(&Spec::new(*s, None, bs));
        for b in budgets_here {
            scenarios.push(Spec::new(*s, b, bs));
            for (si, info) in infos.iter().enumerate() {
                // an error in the middle of partition 0 and at the end of the last partition of every input
                let last = info.batches.len() - 1;
                let variants = if ctx.quick() { vec![(0usize, 1usize)] } else { vec![(0usize, 1usize), (last, info.batches[last]), (last, 0)] };
                for (p, k) in variants {
                    let mut sp = Spec::new(*s, b, bs);
                    sp.faults = vec![Fault::Source { s: si, p, k }];
                    scenarios.push(sp);
                }
            }
        }
    }
    let bound = ctx.pick(1, 2);
    // crash points of every scenario, from its complete default-order run
    let items: Vec<Spec> = scenarios
        .par_iter()
        .flat_map(|sc| {
            let full = run_spec(sc, &[], &wrap);
            let mut v = vec![];
            for s in 0..=full.rec.steps {
                let mut sp = sc.clone();
                sp.stop_at = Some(s);
                v.push(sp);
            }
            if full.rec.outputs.len() > 1 {
                for (j, o) in full.rec.outputs.iter().enumerate() {
                    for k in 1..=o.batches.len() {
                        let mut sp = sc.clone();
                        sp.drop_after = Some((j, k));
                        v.push(sp);
                    }
                }
            }
            v
        })
        .collect();
    ctx.set_extra(
        "bounds_drop",
        json!({
            "shapes": ALL_SHAPES.len(), "scenarios": scenarios.len(), "crash_point_specs": items.len(),
            "sources": "2 partitions x 2-3 batches x 2 rows per leaf (1-2 leaves)",
            "fault_variants": ctx.pick("none; source error at item 1 of partition 0 of each input", "none; source error at item 1 of partition 0 / instead of the end of the last partition / as first item of the last partition, of each input"),
            "crash_points": "all streams + plan dropped after s driver steps for every s in 0..=steps of the complete run; output j alone dropped after its k-th batch for every (j, k)",
            "event_orders": format!("default + <= {bound} deviations before the drop (randomized scenarios - Interleave, coalescing RepartitionExec under a limited pool - default order only{})", ctx.pick("; quick tier: source-error scenarios default order only", "")),
            "spilling_budgets": budgets,
        }),
    );
    ctx.count("drop.scenarios", scenarios.len() as u64);
    ctx.count("drop.crash_point_specs", items.len() as u64);
    let seen_states: parking_lot::Mutex<HashSet<u64>> = Default::default();
    items.par_iter().for_each(|spec| {
        if ctx.should_stop() {
            return;
        }
        // quick tier: event-order deviations for the fault-free scenarios; the error scenarios in default order
        let b = if order_is_randomized(spec) || (ctx.quick() && !spec.faults.is_empty()) { 0 } else { bound };
        let fault = spec.faults.first().map(|f| f.kind()).unwrap_or("none");
        let local: std::cell::RefCell<std::collections::HashMap<String, u64>> = Default::default();
        let lcount = |name: String, n: u64| *local.borrow_mut().entry(name).or_insert(0) += n;
        let stats = mc_core::explore::dfs_deviations(
            b,
            |prefix| {
                let (trace, rec, res) = match mc_core::catch(|| run_drop(spec, prefix)) {
                    Ok(x) => x,
                    Err(p) => {
                        ctx.violation(format!("{:?}|{fault}|panic", spec.shape), format!("{p} [{}]", crash_label(spec)), json!({"Drop": {"spec": spec, "prefix": prefix}}));
                        return Trace { choices: prefix.to_vec(), enabled: vec![1; prefix.len()] };
                    }
                };
                ctx.eval();
                ctx.add_transitions(rec.steps as u64);
                let unfinished = rec.outputs.iter().filter(|o| !o.finished).count();
                let sig = (
                    serde_json::to_string(spec).unwrap(),
                    rec.actions.len(),
                    rec.outputs.iter().map(|o| (o.batches.len(), o.finished, o.dropped, o.error.is_some())).collect::<Vec<_>>(),
                    rec.spill_files_created,
                );
                if seen_states.lock().insert(mc_core::stable_hash(&(sig.clone(), &trace.choices))) {
                    ctx.add_states(1);
                }
                lcount(format!("drop.runs.budget_{}.fault_{fault}", if spec.budget.is_some() { "spilling" } else { "unbounded" }), 1);
                lcount(format!("drop.runs.shape.{:?}", spec.shape), 1);
                if rec.spill_files_created > 0 {
                    lcount("drop.runs_with_spill_files".into(), 1);
                }
                if unfinished > 0 || rec.outputs.iter().any(|o| o.dropped) {
                    // abandoned while work was outstanding
                    lcount("drop.runs_abandoned_before_completion".into(), 1);
                    ctx.nontrivial(&sig);
                    if ctx.want_sample() && prefix.is_empty() && rec.steps >= 6 && rec.spill_files_created > 0 {
                        ctx.sample(json!({"part": "drop", "spec": spec, "actions": format!("{:?}", rec.actions), "log": rec.log,
                            "after_drop": {"live_source_streams": rec.live_source_streams_end, "pool_reserved": rec.pool_reserved_end, "alive_tasks": rec.alive_tasks_end,
                                "alive_tasks_before": rec.alive_tasks_start, "live_spill_files": rec.live_spill_files_end, "spill_files_created": rec.spill_files_created}}));
                    }
                }
                if let Err((sym, what)) = res {
                    ctx.violation(
                        format!("{:?}|{fault}|{sym}", spec.shape),
                        format!("{what} [{}; budget {:?}; faults {:?}; actions {:?}]", crash_label(spec), spec.budget, spec.faults, rec.actions),
                        json!({"Drop": {"spec": spec, "prefix": trace.choices}}),
                    );
                }
                trace
            },
            || ctx.should_stop(),
        );
        for (k, v) in local.borrow().iter() {
            ctx.count(k, *v);
        }
        if !stats.complete {
            ctx.mark_capped("wall cap hit during crash-point enumeration");
        }
    });
}

// ------------------------------------------------------------------ part yield (child process)

const YIELD_BOUND: usize = 2 * 128;

/// A query task that never yields spins on the always-ready source: the watchdog is on the CPU time of the
/// subprocess (robust against a loaded machine; a healthy case needs 0.3 - 3 s), with a wall-clock backstop for a
/// task that blocks without spinning.  The subprocess also limits its own address space and CPU time.
const WATCHDOG_CPU: Duration = Duration::from_secs(20);
const WATCHDOG_WALL: Duration = Duration::from_secs(300);
const CHILD_AS_LIMIT: u64 = 4 << 30;

fn cpu_time_of(pid: u32) -> Option<Duration> {
    let stat = std::fs::read_to_string(format!("/proc/{pid}/stat")).ok()?;
    // fields after the parenthesised command name; utime and stime are fields 14 and 15 (1-based)
    let rest = &stat[stat.rfind(')')? + 2..];
    let f: Vec<&str> = rest.split(' ').collect();
    let ticks: u64 = f.get(11)?.parse::<u64>().ok()? + f.get(12)?.parse::<u64>().ok()?;
    let hz = unsafe { libc::sysconf(libc::_SC_CLK_TCK) }.max(1) as u64;
    Some(Duration::from_millis(ticks * 1000 / hz))
}

/// Polls every stream in turn and only returns `Pending` when none of them was ready: never yields by itself.
struct Drain {
    streams: Vec<Option<SendableRecordBatchStream>>,
    rows: Arc<AtomicUsize>,
}

impl Future for Drain {
    type Output = Result<(), String>;
    fn poll(mut self: Pin<&mut Self>, cx: &mut Context<'_>) -> Poll<Self::Output> {
        loop {
            let mut progressed = false;
            let rows = Arc::clone(&self.rows);
            for s in self.streams.iter_mut() {
                if let Some(st) = s {
                    match st.poll_next_unpin(cx) {
                        Poll::Ready(Some(Ok(b))) => {
                            rows.fetch_add(b.num_rows(), Ordering::SeqCst);
                            progressed = true;
                        }
                        Poll::Ready(Some(Err(e))) => return Poll::Ready(Err(e.to_string())),
                        Poll::Ready(None) => {
                            *s = None;
                            progressed = true;
                        }
                        Poll::Pending => {}
                    }
                }
            }
            if self.streams.iter().all(|s| s.is_none()) {
                return Poll::Ready(Ok(()));
            }
            if !progressed {
                return Poll::Pending;
            }
        }
    }
}

/// Re-schedules itself on every poll; records the largest number of batches any source stream handed out
/// between two of its polls.
struct Canary {
    counters: Vec<Arc<shapes::EndlessCounters>>,
    last: Vec<usize>,
    max_gap: usize,
    polls: usize,
    stop: Arc<AtomicBool>,
    /// total number of source batches after which the query task is aborted
    batches: usize,
}

impl Future for Canary {
    type Output = (usize, usize);
    fn poll(mut self: Pin<&mut Self>, cx: &mut Context<'_>) -> Poll<Self::Output> {
        self.polls += 1;
        let mut total = 0;
        for i in 0..self.counters.len() {
            let n = self.counters[i].batches.load(Ordering::SeqCst);
            let gap = n - self.last[i];
            self.last[i] = n;
            self.max_gap = self.max_gap.max(gap);
            total += n;
        }
        if total >= self.batches || self.stop.load(Ordering::SeqCst) {
            return Poll::Ready((self.max_gap, self.polls));
        }
        cx.waker().wake_by_ref();
        Poll::Pending
    }
}

fn child_yield(spec: &Spec, batches: usize) -> Value {
    let (plan, _, infos) = shapes::build_plan(spec);
    let plan = wrap(plan, spec);
    let (task_ctx, pool, _spill) = shapes::make_ctx(spec);
    let counters: Vec<Arc<shapes::EndlessCounters>> = infos.iter().flat_map(|i| i.endless.iter().cloned()).collect();
    let rt = tokio::runtime::Builder::new_current_thread().enable_time().build().expect("runtime");
    rt.block_on(async move {
        let n = datafusion_physical_plan::ExecutionPlanProperties::output_partitioning(&plan).partition_count();
        let tasks_before = tokio::runtime::Handle::current().metrics().num_alive_tasks();
        let mut streams = vec![];
        for j in 0..n {
            match plan.execute(j, Arc::clone(&task_ctx)) {
                Ok(s) => streams.push(Some(s)),
                Err(e) => return json!({"execute_error": e.to_string()}),
            }
        }
        let rows = Arc::new(AtomicUsize::new(0));
        let stop = Arc::new(AtomicBool::new(false));
        let query = tokio::spawn(Drain { streams, rows: Arc::clone(&rows) });
        let canary = tokio::spawn(Canary { last: vec![0; counters.len()], counters: counters.clone(), max_gap: 0, polls: 0, stop: Arc::clone(&stop), batches });
        // the query may finish by itself (LIMIT): then stop the canary
        let abort = query.abort_handle();
        let stop2 = Arc::clone(&stop);
        let watcher = tokio::spawn(async move {
            let r = query.await;
            stop2.store(true, Ordering::SeqCst);
            r
        });
        let (max_gap, polls) = canary.await.expect("canary");
        abort.abort();
        let joined = watcher.await.expect("watcher");
        let outcome = match &joined {
            Ok(Ok(())) => "finished".to_string(),
            Ok(Err(e)) => format!("error: {e}"),
            Err(e) if e.is_cancelled() => "cancelled".to_string(),
            Err(e) => format!("join error: {e}"),
        };
        drop(joined);
        drop(plan);
        for _ in 0..64 {
            tokio::task::yield_now().await;
        }
        json!({
            "max_gap": max_gap, "canary_polls": polls, "source_batches": counters.iter().map(|c| c.batches.load(Ordering::SeqCst)).sum::<usize>(),
            "rows_out": rows.load(Ordering::SeqCst), "query": outcome,
            "live_source_streams_after": counters.iter().map(|c| c.live.load(Ordering::SeqCst)).sum::<usize>(),
            "pool_reserved_after": datafusion_execution::memory_pool::MemoryPool::reserved(pool.as_ref()),
            "alive_tasks_after": tokio::runtime::Handle::current().metrics().num_alive_tasks(), "alive_tasks_before": tasks_before,
        })
    })
}

type YieldResult = Result<Value, (String, String)>;

/// judges the report of one finished case
fn judge_yield(v: Value) -> YieldResult {
    if let Some(e) = v.get("execute_error") {
        return Err(("execute_error".into(), format!("execute failed: {e}")));
    }
    let g = |k: &str| v.get(k).and_then(|x| x.as_u64()).unwrap_or(u64::MAX);
    if g("max_gap") > YIELD_BOUND as u64 {
        return Err(("starves_runtime".into(), format!("a source stream handed out {} batches between two polls of the canary task (bound {YIELD_BOUND}): {v}", g("max_gap"))));
    }
    let q = v.get("query").and_then(|x| x.as_str()).unwrap_or("");
    if q != "cancelled" && q != "finished" {
        return Err(("query_failed".into(), format!("the query task ended with {q}: {v}")));
    }
    if g("live_source_streams_after") != 0 {
        return Err(("input_stream_alive".into(), format!("source streams still alive after the query task was aborted: {v}")));
    }
    if g("pool_reserved_after") != 0 {
        return Err(("memory_reserved".into(), format!("memory still reserved after the query task was aborted: {v}")));
    }
    if g("alive_tasks_after") > g("alive_tasks_before") {
        return Err(("task_alive".into(), format!("tasks still alive after the query task was aborted: {v}")));
    }
    Ok(v)
}

/// Runs yield cases in subprocesses under the watchdog: one subprocess works through the list and reports each
/// case on its own line; when the watchdog fires (or the subprocess dies) the case in progress gets the blame and
/// a fresh subprocess continues with the rest, so a hang can never wedge the check.
fn run_yield_group(specs: &[Spec], batches: usize) -> Vec<YieldResult> {
    let mut results: Vec<YieldResult> = vec![];
    let machinery = |e: String| -> YieldResult { Err(("machinery".to_string(), e)) };
    while results.len() < specs.len() {
        let rest = &specs[results.len()..];
        let exe = match std::env::current_exe() {
            Ok(e) => e,
            Err(e) => {
                results.push(machinery(e.to_string()));
                continue;
            }
        };
        let mut child = match std::process::Command::new(exe)
            .arg("--child-yield")
            .arg(batches.to_string())
            .arg(serde_json::to_string(rest).unwrap())
            .stdout(std::process::Stdio::piped())
            .stderr(std::process::Stdio::null())
            .spawn()
        {
            Ok(c) => c,
            Err(e) => {
                results.push(machinery(e.to_string()));
                continue;
            }
        };
        let stdout = child.stdout.take().expect("piped stdout");
        let (tx, rx) = std::sync::mpsc::channel::<String>();
        let reader = std::thread::spawn(move || {
            use std::io::BufRead;
            for line in std::io::BufReader::new(stdout).lines().map_while(Result::ok) {
                if tx.send(line).is_err() {
                    break;
                }
            }
        });
        let mut done_here = 0usize;
        let mut t_case = Instant::now();
        let mut cpu_case = Duration::ZERO;
        loop {
            match rx.recv_timeout(Duration::from_millis(20)) {
                Ok(line) => {
                    if let Some(j) = line.strip_prefix("RESULT ") {
                        match serde_json::from_str::<Value>(j) {
                            Ok(v) => results.push(judge_yield(v)),
                            Err(e) => results.push(machinery(format!("unreadable result line: {e}"))),
                        }
                        done_here += 1;
                        t_case = Instant::now();
                        cpu_case = cpu_time_of(child.id()).unwrap_or(cpu_case);
                        if done_here == rest.len() {
                            break;
                        }
                    }
                }
                Err(std::sync::mpsc::RecvTimeoutError::Timeout) => {
                    let cpu = cpu_time_of(child.id()).unwrap_or(cpu_case).saturating_sub(cpu_case);
                    if cpu > WATCHDOG_CPU || t_case.elapsed() > WATCHDOG_WALL {
                        let _ = child.kill();
                        results.push(Err((
                            "never_yields".into(),
                            format!(
                                "the query task over endless always-ready cooperative sources did not let the canary task / the abort run ({:.0} s of CPU, {:.0} s of wall clock; watchdog {} s CPU / {} s wall): it does not yield to the runtime",
                                cpu.as_secs_f64(), t_case.elapsed().as_secs_f64(), WATCHDOG_CPU.as_secs(), WATCHDOG_WALL.as_secs()
                            ),
                        )));
                        break;
                    }
                }
                Err(std::sync::mpsc::RecvTimeoutError::Disconnected) => {
                    // the subprocess is gone without reporting the case in progress
                    let status = child.wait().ok();
                    results.push(Err((
                        "crash".into(),
                        format!("the subprocess running the query over endless sources died without a result (status {status:?}; address space limited to {} GiB)", CHILD_AS_LIMIT >> 30),
                    )));
                    break;
                }
            }
        }
        let _ = child.kill();
        let _ = child.wait();
        let _ = reader.join();
    }
    results
}

fn explore_yield(ctx: &Ctx) {
    let batches: usize = ctx.pick(800, 4000);
    let mut specs = vec![];
    for s in ALL_SHAPES {
        for endless in ctx.pick(vec![1u8], vec![1u8, 2u8]) {
            let mut sp = Spec::new(*s, None, 8192);
            sp.endless = endless;
            specs.push(sp);
        }
    }
    ctx.set_extra(
        "bounds_yield",
        json!({"cases": specs.len(), "shapes": ALL_SHAPES.len(), "source_declared": ctx.pick("bounded", "bounded | unbounded"), "source_batches_before_abort": batches,
            "yield_bound_batches_per_stream_between_canary_polls": YIELD_BOUND, "watchdog_cpu_s_per_case": WATCHDOG_CPU.as_secs(), "watchdog_wall_s_per_case": WATCHDOG_WALL.as_secs()}),
    );
    let groups: Vec<&[Spec]> = specs.chunks(5).collect();
    groups.par_iter().for_each(|group| {
        if ctx.should_stop() {
            return;
        }
        for (spec, res) in group.iter().zip(run_yield_group(group, batches)) {
            ctx.eval();
            ctx.add_transitions(1);
            match res {
                Ok(v) => {
                    ctx.add_states(1);
                    ctx.count("yield.cases", 1);
                    let q = v.get("query").and_then(|x| x.as_str()).unwrap_or("").to_string();
                    ctx.count(&format!("yield.query_{q}"), 1);
                    let gap = v.get("max_gap").and_then(|x| x.as_u64()).unwrap_or(0);
                    ctx.count(if gap <= 128 { "yield.max_gap_le_128" } else { "yield.max_gap_129_to_256" }, 1);
                    // non-trivial: the canary really ran many times next to a running query
                    if v.get("canary_polls").and_then(|x| x.as_u64()).unwrap_or(0) >= 4 {
                        ctx.nontrivial(&("yield", serde_json::to_string(spec).unwrap()));
                    }
                    if ctx.want_sample() && spec.shape == Shape::SortOverHashJoin {
                        ctx.sample(json!({"part": "yield", "spec": spec, "observed": v}));
                    }
                }
                Err((sym, what)) if sym == "machinery" => ctx.machinery_error(format!("yield case {:?}: {what}", spec.shape)),
                Err((sym, _)) if sym == "execute_error" && spec.endless == 2 => {
                    // the operator refuses the unbounded input at execute time: not a case
                    ctx.count("yield.rejected_unbounded_input", 1);
                }
                Err((sym, what)) => ctx.violation(format!("{:?}|endless_source|{sym}", spec.shape), what, json!({"Yield": {"spec": spec, "batches": batches}})),
            }
        }
    });
}

fn explore(ctx: &Ctx) {
    let part = ctx.part.clone();
    if part.as_deref() != Some("yield") {
        explore_drop(ctx);
    }
    if part.as_deref() != Some("drop") {
        explore_yield(ctx);
    }
    ctx.assume("event orders are explored at poll granularity on a single-threaded runtime; spill files live in the in-memory TempFileFactory (OS temp directory not involved)");
    ctx.assume("task liveness is observed through tokio's num_alive_tasks and the drop of the tracking source streams; Arc strong counts are not inspected separately");
    ctx.assume("RecursiveQueryExec and file scans are not in the shape list");
}

fn replay(v: &Value) -> Result<(), String> {
    let c: Case = serde_json::from_value(v.clone()).map_err(|e| e.to_string())?;
    match c {
        Case::Drop { spec, prefix } => mc_core::catch(|| run_drop(&spec, &prefix).2.map_err(|(_, w)| w)).unwrap_or_else(Err),
        Case::Yield { spec, batches } => run_yield_group(&[spec], batches).remove(0).map(|_| ()).map_err(|(_, w)| w),
    }
}

fn main() {
    let args = mc_core::extra_args();
    if args.len() >= 3 && args[0] == "--child-yield" {
        let batches: usize = args[1].parse().expect("batches");
        let specs: Vec<Spec> = serde_json::from_str(&args[2]).expect("specs");
        unsafe {
            let lim = libc::rlimit { rlim_cur: CHILD_AS_LIMIT, rlim_max: CHILD_AS_LIMIT };
            libc::setrlimit(libc::RLIMIT_AS, &lim);
            let cpu = libc::rlimit { rlim_cur: 3 * WATCHDOG_CPU.as_secs(), rlim_max: 3 * WATCHDOG_CPU.as_secs() };
            libc::setrlimit(libc::RLIMIT_CPU, &cpu);
        }
        for spec in &specs {
            let v = child_yield(spec, batches);
            println!("RESULT {v}");
            use std::io::Write;
            let _ = std::io::stdout().flush();
        }
        std::process::exit(0);
    }
    mc_core::quiet_panics();
    run_check(
        "C19",
        Level::ModelChecking,
        "drop: every plan shape of list P (33) x memory budget {unbounded, calibrated spilling FairSpillPool limit} x {no fault, source error in the middle / at the end of each input} x EVERY crash point \
         (all streams dropped after s driver steps, s = 0..completion; one output dropped after its k-th batch) x every event order within the deviation bound; after the drop and quiescence: 0 live input streams, 0 bytes reserved, 0 spill files, alive tokio tasks back to the pre-query count. \
         yield: every shape over endless always-ready cooperative sources (declared bounded and unbounded) in a subprocess: a self-rescheduling canary task must be polled at least once per 2x128 batches of every source stream, then abort() of the query task must complete and release everything; wall-clock watchdog. \
         states = distinct (scenario, crash point, event order, observable outcome) + yield cases; transitions = driver steps (each runs the real plan to quiescence) + yield cases; \
         non-trivial = distinct abandoned executions in which an output was unfinished or dropped at the crash point, and yield cases in which the canary ran next to the live query",
        explore,
        replay,
    );
}
