//! C05 — every join operator computes exactly its join type's result.
//!
//! Style I (inputs / configurations).  The real join `ExecutionPlan`s are built
//! directly over in-memory inputs (`TestMemoryExec`, optionally behind a hash
//! `RepartitionExec`), executed on a single-threaded tokio runtime and compared,
//! as multisets of rows, with an independent nested-loop evaluation of the join.
//!
//! Operators: HashJoin CollectLeft (dense-key `ArrayMap` forced on / off, 1-2 probe
//! partitions), HashJoin Partitioned (2 / 3 hash partitions), HashJoin null-aware
//! anti, SortMergeJoin (materialising stream for inner/outer, bitwise stream for
//! semi/anti/mark; two sort option sets; memory budgets that make it spill),
//! NestedLoopJoin (memory budgets that trigger the spilling fallback),
//! SymmetricHashJoin (with and without declared ordering -> pruning), CrossJoin,
//! PiecewiseMergeJoin (classic + existence; < <= > >=).
use std::cell::RefCell;
use std::collections::BTreeMap;
use std::sync::{Arc, Mutex};
use std::time::Duration;

use arrow::array::{Array, ArrayRef, BooleanArray, Int32Array, RecordBatch};
use arrow::compute::SortOptions;
use arrow::datatypes::{DataType, Field, Schema, SchemaRef};
use datafusion_common::{DataFusionError, JoinSide, JoinType, NullEquality, ScalarValue};
use datafusion_execution::TaskContext;
use datafusion_execution::config::SessionConfig;
use datafusion_execution::memory_pool::{FairSpillPool, GreedyMemoryPool};
use datafusion_execution::runtime_env::RuntimeEnvBuilder;
use datafusion_expr::Operator;
use datafusion_physical_expr::expressions::{BinaryExpr, Column, Literal};
use datafusion_physical_expr::{LexOrdering, Partitioning, PhysicalExpr, PhysicalSortExpr};
use datafusion_physical_plan::ExecutionPlan;
use datafusion_physical_plan::joins::utils::{ColumnIndex, JoinFilter};
use datafusion_physical_plan::joins::{
    CrossJoinExec, HashJoinExec, NestedLoopJoinExec, PartitionMode, PiecewiseMergeJoinExec, SortMergeJoinExec,
    StreamJoinPartitionMode, SymmetricHashJoinExec,
};
use datafusion_physical_plan::repartition::RepartitionExec;
use datafusion_physical_plan::test::TestMemoryExec;
use mc_core::serde_json::{Value, json};
use mc_core::{Ctx, Level, enumerate, rayon::prelude::*, run_check};
use serde::{Deserialize, Serialize};

/// (k1, k2, v)
type Row = [Option<i32>; 3];

const JOIN_TYPES: [JoinType; 10] = [
    JoinType::Inner,
    JoinType::Left,
    JoinType::Right,
    JoinType::Full,
    JoinType::LeftSemi,
    JoinType::RightSemi,
    JoinType::LeftAnti,
    JoinType::RightAnti,
    JoinType::LeftMark,
    JoinType::RightMark,
];

#[derive(Clone, Debug, PartialEq, Eq, Hash, Serialize, Deserialize)]
enum OpSpec {
    /// HashJoinExec, CollectLeft.  `perfect`: dense-key ArrayMap forced (true) or disabled (false)
    HashCollectLeft { perfect: bool, right_parts: usize },
    /// HashJoinExec, Partitioned; both inputs behind RepartitionExec(Hash(keys), parts)
    HashPartitioned { perfect: bool, parts: usize },
    /// HashJoinExec with null_aware = true (NOT IN semantics); `partitioned` selects the mode
    HashNullAware { partitioned: bool, right_parts: usize },
    /// SortMergeJoinExec over inputs sorted on the keys with these options
    SortMerge { descending: bool, nulls_first: bool },
    NestedLoop { right_parts: usize },
    /// SymmetricHashJoinExec; `sorted`: inputs sorted on v and declared so (enables pruning)
    SymmetricHash { sorted: bool, partitioned: bool },
    Cross { right_parts: usize },
    /// PiecewiseMergeJoinExec on `l.k1 <op> r.k1`; op: 0 `<`, 1 `<=`, 2 `>`, 3 `>=`
    PiecewiseMerge { op: u8, right_parts: usize },
}

impl OpSpec {
    fn family(&self) -> &'static str {
        match self {
            OpSpec::HashCollectLeft { perfect: true, .. } => "HashJoin/CollectLeft/ArrayMap",
            OpSpec::HashCollectLeft { .. } => "HashJoin/CollectLeft",
            OpSpec::HashPartitioned { perfect: true, .. } => "HashJoin/Partitioned/ArrayMap",
            OpSpec::HashPartitioned { .. } => "HashJoin/Partitioned",
            OpSpec::HashNullAware { .. } => "HashJoin/null_aware",
            OpSpec::SortMerge { .. } => "SortMergeJoin",
            OpSpec::NestedLoop { .. } => "NestedLoopJoin",
            OpSpec::SymmetricHash { sorted: true, .. } => "SymmetricHashJoin/pruning",
            OpSpec::SymmetricHash { .. } => "SymmetricHashJoin",
            OpSpec::Cross { .. } => "CrossJoin",
            OpSpec::PiecewiseMerge { .. } => "PiecewiseMergeJoin",
        }
    }
}

/// Residual filter: 0 none; 1 `l.v < r.v`; 2 `l.v + r.v = 3`; 3 literal `false`;
/// 4 `l.k1 = r.k1` (nested-loop join only: the equality expressed as a filter).
#[derive(Clone, Debug, Serialize, Deserialize)]
struct Case {
    op: OpSpec,
    /// index into JOIN_TYPES
    jt: usize,
    /// true: NullEqualsNull
    null_eq: bool,
    filter: u8,
    /// number of equality key columns (1: k1; 2: k1,k2)
    nkeys: usize,
    left: Vec<Row>,
    right: Vec<Row>,
    /// batch lengths (consecutive cut of the - possibly re-sorted - row sequence)
    lsplit: Vec<usize>,
    rsplit: Vec<usize>,
    batch_size: usize,
    /// 0 unbounded, 1 GreedyMemoryPool(mem), 2 FairSpillPool(mem)
    pool: u8,
    mem: usize,
    enforce_batch_size: bool,
}

// ---------------------------------------------------------------------------
// reference: nested-loop definition of every join type
// ---------------------------------------------------------------------------

type OutRow = Vec<Option<i64>>;

fn filter_true(f: u8, l: &Row, r: &Row) -> bool {
    match f {
        0 => true,
        1 => matches!((l[2], r[2]), (Some(a), Some(b)) if a < b),
        2 => matches!((l[2], r[2]), (Some(a), Some(b)) if a + b == 3),
        3 => false,
        4 => matches!((l[0], r[0]), (Some(a), Some(b)) if a == b),
        _ => panic!("harness: unknown filter"),
    }
}

fn keys_equal(nkeys: usize, null_eq: bool, l: &Row, r: &Row) -> bool {
    (0..nkeys).all(|i| match (l[i], r[i]) {
        (Some(a), Some(b)) => a == b,
        (None, None) => null_eq,
        _ => false,
    })
}

fn pair_matches(c: &Case, l: &Row, r: &Row) -> bool {
    match &c.op {
        OpSpec::Cross { .. } => true,
        OpSpec::NestedLoop { .. } => filter_true(c.filter, l, r),
        OpSpec::PiecewiseMerge { op, .. } => match (l[0], r[0]) {
            (Some(a), Some(b)) => match op {
                0 => a < b,
                1 => a <= b,
                2 => a > b,
                _ => a >= b,
            },
            _ => false,
        },
        _ => keys_equal(c.nkeys, c.null_eq, l, r) && filter_true(c.filter, l, r),
    }
}

fn wide(r: &Row) -> Vec<Option<i64>> {
    r.iter().map(|x| x.map(|v| v as i64)).collect()
}

struct Expected {
    rows: Vec<OutRow>,
    any_match: bool,
    any_unmatched: bool,
}

fn reference(c: &Case) -> Expected {
    let jt = JOIN_TYPES[c.jt];
    let (l, r) = (&c.left, &c.right);
    let m: Vec<Vec<bool>> = l.iter().map(|a| r.iter().map(|b| pair_matches(c, a, b)).collect()).collect();
    let l_hit: Vec<bool> = m.iter().map(|row| row.iter().any(|x| *x)).collect();
    let r_hit: Vec<bool> = (0..r.len()).map(|j| m.iter().any(|row| row[j])).collect();
    let nulls = || vec![None; 3];
    let mut out: Vec<OutRow> = vec![];
    if let OpSpec::HashNullAware { .. } = c.op {
        // NOT IN semantics: a row survives iff `key = other.key` is FALSE (not UNKNOWN) for every other-side row
        let (outer, inner) = if jt == JoinType::LeftAnti { (l, r) } else { (r, l) };
        for a in outer {
            let keep = inner.iter().all(|b| matches!((a[0], b[0]), (Some(x), Some(y)) if x != y));
            if keep {
                out.push(wide(a));
            }
        }
    } else {
        match jt {
            JoinType::Inner | JoinType::Left | JoinType::Right | JoinType::Full => {
                for (i, a) in l.iter().enumerate() {
                    for (j, b) in r.iter().enumerate() {
                        if m[i][j] {
                            out.push(wide(a).into_iter().chain(wide(b)).collect());
                        }
                    }
                }
                if matches!(jt, JoinType::Left | JoinType::Full) {
                    for (i, a) in l.iter().enumerate() {
                        if !l_hit[i] {
                            out.push(wide(a).into_iter().chain(nulls()).collect());
                        }
                    }
                }
                if matches!(jt, JoinType::Right | JoinType::Full) {
                    for (j, b) in r.iter().enumerate() {
                        if !r_hit[j] {
                            out.push(nulls().into_iter().chain(wide(b)).collect());
                        }
                    }
                }
            }
            JoinType::LeftSemi => out.extend(l.iter().enumerate().filter(|(i, _)| l_hit[*i]).map(|(_, a)| wide(a))),
            JoinType::LeftAnti => out.extend(l.iter().enumerate().filter(|(i, _)| !l_hit[*i]).map(|(_, a)| wide(a))),
            JoinType::RightSemi => out.extend(r.iter().enumerate().filter(|(j, _)| r_hit[*j]).map(|(_, b)| wide(b))),
            JoinType::RightAnti => out.extend(r.iter().enumerate().filter(|(j, _)| !r_hit[*j]).map(|(_, b)| wide(b))),
            JoinType::LeftMark => {
                out.extend(l.iter().enumerate().map(|(i, a)| wide(a).into_iter().chain([Some(l_hit[i] as i64)]).collect::<OutRow>()))
            }
            JoinType::RightMark => {
                out.extend(r.iter().enumerate().map(|(j, b)| wide(b).into_iter().chain([Some(r_hit[j] as i64)]).collect::<OutRow>()))
            }
        }
    }
    out.sort();
    Expected {
        rows: out,
        any_match: l_hit.iter().any(|x| *x),
        any_unmatched: l_hit.iter().any(|x| !*x) || r_hit.iter().any(|x| !*x),
    }
}

// ---------------------------------------------------------------------------
// building the real plan
// ---------------------------------------------------------------------------

fn side_schema(prefix: &str) -> SchemaRef {
    Arc::new(Schema::new(vec![
        Field::new(format!("{prefix}k1"), DataType::Int32, true),
        Field::new(format!("{prefix}k2"), DataType::Int32, true),
        Field::new(format!("{prefix}v"), DataType::Int32, true),
    ]))
}

fn batch(schema: &SchemaRef, rows: &[Row]) -> RecordBatch {
    let cols: Vec<ArrayRef> = (0..3).map(|c| Arc::new(Int32Array::from(rows.iter().map(|r| r[c]).collect::<Vec<_>>())) as ArrayRef).collect();
    RecordBatch::try_new(Arc::clone(schema), cols).expect("harness: batch")
}

/// Own comparator for pre-sorting inputs (NULL placement by option, then value order).
fn cmp_opt(a: Option<i32>, b: Option<i32>, descending: bool, nulls_first: bool) -> std::cmp::Ordering {
    use std::cmp::Ordering::*;
    match (a, b) {
        (None, None) => Equal,
        (None, Some(_)) => {
            if nulls_first {
                Less
            } else {
                Greater
            }
        }
        (Some(_), None) => {
            if nulls_first {
                Greater
            } else {
                Less
            }
        }
        (Some(x), Some(y)) => {
            if descending {
                y.cmp(&x)
            } else {
                x.cmp(&y)
            }
        }
    }
}

fn sorted_by(rows: &[Row], cols: &[usize], descending: bool, nulls_first: bool) -> Vec<Row> {
    let mut v = rows.to_vec();
    v.sort_by(|a, b| {
        for c in cols {
            let o = cmp_opt(a[*c], b[*c], descending, nulls_first);
            if o != std::cmp::Ordering::Equal {
                return o;
            }
        }
        std::cmp::Ordering::Equal
    });
    v
}

fn cut(rows: &[Row], split: &[usize]) -> Vec<Vec<Row>> {
    assert_eq!(split.iter().sum::<usize>(), rows.len(), "harness: split does not cover the rows");
    enumerate::apply_split(rows, split)
}

/// `parts` partitions: batch j goes to partition j % parts (all partitions exist, possibly empty).
fn source(schema: &SchemaRef, batches: &[Vec<Row>], parts: usize, ordering: Option<LexOrdering>) -> Arc<dyn ExecutionPlan> {
    let mut partitions: Vec<Vec<RecordBatch>> = vec![vec![]; parts];
    for (j, b) in batches.iter().enumerate() {
        partitions[j % parts].push(batch(schema, b));
    }
    let exec = TestMemoryExec::try_new(&partitions, Arc::clone(schema), None).expect("harness: TestMemoryExec");
    let exec = match ordering {
        Some(o) => exec.try_with_sort_information(vec![o]).expect("harness: sort information"),
        None => exec,
    };
    Arc::new(TestMemoryExec::update_cache(&Arc::new(exec)))
}

fn col(name: &str, idx: usize) -> Arc<dyn PhysicalExpr> {
    Arc::new(Column::new(name, idx))
}

fn make_filter(f: u8) -> Option<JoinFilter> {
    let int = |n: &str| Field::new(n, DataType::Int32, true);
    let lv = || ColumnIndex { index: 2, side: JoinSide::Left };
    let rv = || ColumnIndex { index: 2, side: JoinSide::Right };
    match f {
        0 => None,
        1 => Some(JoinFilter::new(
            Arc::new(BinaryExpr::new(col("lv", 0), Operator::Lt, col("rv", 1))),
            vec![lv(), rv()],
            Arc::new(Schema::new(vec![int("lv"), int("rv")])),
        )),
        2 => Some(JoinFilter::new(
            Arc::new(BinaryExpr::new(
                Arc::new(BinaryExpr::new(col("lv", 0), Operator::Plus, col("rv", 1))),
                Operator::Eq,
                Arc::new(Literal::new(ScalarValue::Int32(Some(3)))),
            )),
            vec![lv(), rv()],
            Arc::new(Schema::new(vec![int("lv"), int("rv")])),
        )),
        3 => Some(JoinFilter::new(
            Arc::new(Literal::new(ScalarValue::Boolean(Some(false)))),
            vec![],
            Arc::new(Schema::empty()),
        )),
        4 => Some(JoinFilter::new(
            Arc::new(BinaryExpr::new(col("lk1", 0), Operator::Eq, col("rk1", 1))),
            vec![ColumnIndex { index: 0, side: JoinSide::Left }, ColumnIndex { index: 0, side: JoinSide::Right }],
            Arc::new(Schema::new(vec![int("lk1"), int("rk1")])),
        )),
        _ => panic!("harness: unknown filter"),
    }
}

enum Built {
    Plan(Arc<dyn ExecutionPlan>),
    Rejected(String),
}

fn build_plan(c: &Case) -> Built {
    let ls = side_schema("l");
    let rs = side_schema("r");
    let jt = JOIN_TYPES[c.jt];
    let null_equality = if c.null_eq { NullEquality::NullEqualsNull } else { NullEquality::NullEqualsNothing };
    let on: Vec<(Arc<dyn PhysicalExpr>, Arc<dyn PhysicalExpr>)> =
        (0..c.nkeys).map(|i| (col(&format!("lk{}", i + 1), i), col(&format!("rk{}", i + 1), i))).collect();
    let key_cols: Vec<usize> = (0..c.nkeys).collect();
    let filter = make_filter(c.filter);
    let hash_repart = |input: Arc<dyn ExecutionPlan>, side: &str, parts: usize| -> Arc<dyn ExecutionPlan> {
        let exprs: Vec<Arc<dyn PhysicalExpr>> = (0..c.nkeys).map(|i| col(&format!("{side}k{}", i + 1), i)).collect();
        Arc::new(RepartitionExec::try_new(input, Partitioning::Hash(exprs, parts)).expect("harness: RepartitionExec"))
    };
    let res: datafusion_common::Result<Arc<dyn ExecutionPlan>> = (|| match &c.op {
        OpSpec::HashCollectLeft { right_parts, .. } => {
            let l = source(&ls, &cut(&c.left, &c.lsplit), 1, None);
            let r = source(&rs, &cut(&c.right, &c.rsplit), *right_parts, None);
            Ok(Arc::new(HashJoinExec::try_new(l, r, on.clone(), filter.clone(), &jt, None, PartitionMode::CollectLeft, null_equality, false)?)
                as Arc<dyn ExecutionPlan>)
        }
        OpSpec::HashPartitioned { parts, .. } => {
            let l = hash_repart(source(&ls, &cut(&c.left, &c.lsplit), 1, None), "l", *parts);
            let r = hash_repart(source(&rs, &cut(&c.right, &c.rsplit), 1, None), "r", *parts);
            Ok(Arc::new(HashJoinExec::try_new(l, r, on.clone(), filter.clone(), &jt, None, PartitionMode::Partitioned, null_equality, false)?) as _)
        }
        OpSpec::HashNullAware { partitioned, right_parts } => {
            let (l, r, mode) = if *partitioned {
                (
                    hash_repart(source(&ls, &cut(&c.left, &c.lsplit), 1, None), "l", 2),
                    hash_repart(source(&rs, &cut(&c.right, &c.rsplit), 1, None), "r", 2),
                    PartitionMode::Partitioned,
                )
            } else {
                (
                    source(&ls, &cut(&c.left, &c.lsplit), 1, None),
                    source(&rs, &cut(&c.right, &c.rsplit), *right_parts, None),
                    PartitionMode::CollectLeft,
                )
            };
            Ok(Arc::new(HashJoinExec::try_new(l, r, on.clone(), filter.clone(), &jt, None, mode, null_equality, true)?) as _)
        }
        OpSpec::SortMerge { descending, nulls_first } => {
            let opts = SortOptions { descending: *descending, nulls_first: *nulls_first };
            let ord = |side: &str| {
                LexOrdering::new((0..c.nkeys).map(|i| PhysicalSortExpr::new(col(&format!("{side}k{}", i + 1), i), opts)).collect::<Vec<_>>())
            };
            let l = source(&ls, &cut(&sorted_by(&c.left, &key_cols, *descending, *nulls_first), &c.lsplit), 1, ord("l"));
            let r = source(&rs, &cut(&sorted_by(&c.right, &key_cols, *descending, *nulls_first), &c.rsplit), 1, ord("r"));
            Ok(Arc::new(SortMergeJoinExec::try_new(l, r, on.clone(), filter.clone(), jt, vec![opts; c.nkeys], null_equality)?) as _)
        }
        OpSpec::NestedLoop { right_parts } => {
            let l = source(&ls, &cut(&c.left, &c.lsplit), 1, None);
            let r = source(&rs, &cut(&c.right, &c.rsplit), *right_parts, None);
            Ok(Arc::new(NestedLoopJoinExec::try_new(l, r, filter.clone(), &jt, None)?) as _)
        }
        OpSpec::SymmetricHash { sorted, partitioned } => {
            let opts = SortOptions { descending: false, nulls_first: false };
            let (lrows, rrows, lo, ro) = if *sorted {
                (
                    sorted_by(&c.left, &[2], false, false),
                    sorted_by(&c.right, &[2], false, false),
                    LexOrdering::new(vec![PhysicalSortExpr::new(col("lv", 2), opts)]),
                    LexOrdering::new(vec![PhysicalSortExpr::new(col("rv", 2), opts)]),
                )
            } else {
                (c.left.clone(), c.right.clone(), None, None)
            };
            let mut l = source(&ls, &cut(&lrows, &c.lsplit), 1, lo.clone());
            let mut r = source(&rs, &cut(&rrows, &c.rsplit), 1, ro.clone());
            let mode = if *partitioned {
                l = hash_repart(l, "l", 2);
                r = hash_repart(r, "r", 2);
                StreamJoinPartitionMode::Partitioned
            } else {
                StreamJoinPartitionMode::SinglePartition
            };
            Ok(Arc::new(SymmetricHashJoinExec::try_new(l, r, on.clone(), filter.clone(), &jt, null_equality, lo, ro, mode)?) as _)
        }
        OpSpec::Cross { right_parts } => {
            let l = source(&ls, &cut(&c.left, &c.lsplit), 1, None);
            let r = source(&rs, &cut(&c.right, &c.rsplit), *right_parts, None);
            Ok(Arc::new(CrossJoinExec::new(l, r)) as _)
        }
        OpSpec::PiecewiseMerge { op, right_parts } => {
            let operator = [Operator::Lt, Operator::LtEq, Operator::Gt, Operator::GtEq][*op as usize];
            let on1 = (col("lk1", 0), col("rk1", 0));
            // first construction only to learn the ordering the operator requires of its buffered input
            let probe = PiecewiseMergeJoinExec::try_new(
                source(&ls, &[], 1, None),
                source(&rs, &[], *right_parts, None),
                on1.clone(),
                operator,
                jt,
                *right_parts,
            )?;
            let so = *probe.sort_options();
            let lord = LexOrdering::new(vec![PhysicalSortExpr::new(col("lk1", 0), so)]);
            let l = source(&ls, &cut(&sorted_by(&c.left, &[0], so.descending, so.nulls_first), &c.lsplit), 1, lord);
            let r = source(&rs, &cut(&c.right, &c.rsplit), *right_parts, None);
            Ok(Arc::new(PiecewiseMergeJoinExec::try_new(l, r, on1, operator, jt, *right_parts)?) as _)
        }
    })();
    match res {
        Ok(p) => Built::Plan(p),
        Err(e) => Built::Rejected(e.to_string()),
    }
}

fn task_ctx(c: &Case) -> Arc<TaskContext> {
    let mut cfg = SessionConfig::new().with_batch_size(c.batch_size);
    let perfect = match &c.op {
        OpSpec::HashCollectLeft { perfect, .. } | OpSpec::HashPartitioned { perfect, .. } => *perfect,
        _ => true,
    };
    {
        let ex = &mut cfg.options_mut().execution;
        if perfect {
            ex.perfect_hash_join_small_build_threshold = 819200;
            ex.perfect_hash_join_min_key_density = 0.0;
        } else {
            ex.perfect_hash_join_small_build_threshold = 0;
            ex.perfect_hash_join_min_key_density = f64::INFINITY;
        }
        ex.enforce_batch_size_in_joins = c.enforce_batch_size;
    }
    let rb = RuntimeEnvBuilder::new();
    let rb = match c.pool {
        0 => rb,
        1 => rb.with_memory_pool(Arc::new(GreedyMemoryPool::new(c.mem))),
        _ => rb.with_memory_pool(Arc::new(FairSpillPool::new(c.mem))),
    };
    let rt = rb.build_arc().expect("harness: runtime env");
    Arc::new(TaskContext::default().with_session_config(cfg).with_runtime(rt))
}

thread_local! {
    static RT: RefCell<Option<tokio::runtime::Runtime>> = const { RefCell::new(None) };
}

fn block_on<F: std::future::Future>(f: F) -> F::Output {
    RT.with(|cell| {
        let mut slot = cell.borrow_mut();
        let rt = slot.get_or_insert_with(|| {
            tokio::runtime::Builder::new_current_thread().enable_all().build().expect("harness: tokio runtime")
        });
        rt.block_on(f)
    })
}

fn decode(batches: &[RecordBatch]) -> Result<Vec<OutRow>, String> {
    let mut rows = vec![];
    for b in batches {
        let cols: Vec<Vec<Option<i64>>> = b
            .columns()
            .iter()
            .map(|a| {
                if let Some(x) = a.as_any().downcast_ref::<Int32Array>() {
                    Ok((0..x.len()).map(|i| if x.is_null(i) { None } else { Some(x.value(i) as i64) }).collect())
                } else if let Some(x) = a.as_any().downcast_ref::<BooleanArray>() {
                    Ok((0..x.len()).map(|i| if x.is_null(i) { None } else { Some(x.value(i) as i64) }).collect())
                } else {
                    Err(format!("unexpected output column type {}", a.data_type()))
                }
            })
            .collect::<Result<_, String>>()?;
        for i in 0..b.num_rows() {
            rows.push(cols.iter().map(|c| c[i]).collect());
        }
    }
    rows.sort();
    Ok(rows)
}

#[derive(Default, Debug)]
struct Stats {
    rejected: Option<String>,
    resources_exhausted: bool,
    spills: usize,
    array_maps: usize,
    nontrivial: bool,
    out_rows: usize,
}

fn metric_sum(plan: &Arc<dyn ExecutionPlan>, name: &str) -> usize {
    plan.metrics()
        .map(|m| m.aggregate_by_name().iter().filter(|x| x.value().name() == name).map(|x| x.value().as_usize()).sum())
        .unwrap_or(0)
}

fn run_case(c: &Case) -> Result<Stats, String> {
    let exp = reference(c);
    let mut st = Stats { nontrivial: exp.any_match && exp.any_unmatched, ..Default::default() };
    let plan = match build_plan(c) {
        Built::Plan(p) => p,
        Built::Rejected(why) => {
            st.rejected = Some(why);
            return Ok(st);
        }
    };
    let ctx = task_ctx(c);
    let plan2 = Arc::clone(&plan);
    let res: Result<datafusion_common::Result<Vec<RecordBatch>>, tokio::time::error::Elapsed> = block_on(async move {
        tokio::time::timeout(Duration::from_secs(20), async move {
            let streams = datafusion_physical_plan::execute_stream_partitioned(plan2, ctx)?;
            let parts = futures::future::join_all(streams.into_iter().map(datafusion_physical_plan::common::collect)).await;
            let mut all = vec![];
            for p in parts {
                all.extend(p?);
            }
            Ok(all)
        })
        .await
    });
    let batches = match res {
        Err(_) => return Err("the join did not finish within 20 s (deadlock / lost wake-up)".into()),
        Ok(Err(e)) => {
            let root = e.find_root();
            if matches!(root, DataFusionError::ResourcesExhausted(_)) && c.pool != 0 {
                st.resources_exhausted = true;
                return Ok(st);
            }
            if matches!(root, DataFusionError::NotImplemented(_)) {
                st.rejected = Some(format!("at execute: {e}"));
                return Ok(st);
            }
            return Err(format!("execution failed: {e}"));
        }
        Ok(Ok(b)) => b,
    };
    st.spills = metric_sum(&plan, "spill_count");
    if std::env::var("VERIF_DEBUG").is_ok() {
        eprintln!("debug: spill_count={} metrics={}", st.spills, plan.metrics().map(|m| m.aggregate_by_name().to_string()).unwrap_or_default());
    }
    st.array_maps = metric_sum(&plan, "array_map_created_count");
    let got = decode(&batches)?;
    st.out_rows = got.len();
    if got != exp.rows {
        return Err(format!("{} {:?}: output multiset {:?} differs from nested-loop reference {:?}", c.op.family(), JOIN_TYPES[c.jt], got, exp.rows));
    }
    Ok(st)
}

// ---------------------------------------------------------------------------
// enumeration
// ---------------------------------------------------------------------------

fn row_values(nkeys: usize, payload_null: bool) -> Vec<Row> {
    let mut out = vec![];
    if nkeys == 1 {
        for k in [None, Some(1), Some(2)] {
            let mut vs = vec![Some(1), Some(2)];
            if payload_null {
                vs.insert(0, None);
            }
            for v in vs {
                out.push([k, Some(0), v]);
            }
        }
    } else {
        for k1 in [None, Some(1)] {
            for k2 in [None, Some(1), Some(2)] {
                out.push([k1, k2, Some(1)]);
            }
        }
    }
    out
}

struct Dims {
    max_rows: usize,
    batch_sizes: Vec<usize>,
    all_splits: bool,
    /// only input pairs whose larger side has at least this many rows
    min_big: usize,
}

/// One family of cases: a prototype (operator, join type, ...) crossed with all inputs.
struct Gen {
    proto: Case,
    dims: Dims,
    nkeys: usize,
    payload_null: bool,
}

fn push_inputs(gens: &mut Vec<Gen>, proto: &Case, d: &Dims, nkeys: usize, payload_null: bool) {
    gens.push(Gen { proto: proto.clone(), dims: Dims { max_rows: d.max_rows, batch_sizes: d.batch_sizes.clone(), all_splits: d.all_splits, min_big: d.min_big }, nkeys, payload_null });
}

/// Inputs of one side.  Operators that consume their inputs incrementally in arrival
/// order (symmetric hash join) get every row *sequence*; for the others the row order
/// inside a side is immaterial (or fixed by the required pre-sort) and canonical
/// multisets are enumerated.
fn tables_of(g: &Gen) -> Vec<Vec<Row>> {
    let vals = row_values(g.nkeys, g.payload_null);
    if matches!(g.proto.op, OpSpec::SymmetricHash { sorted: false, .. }) && g.dims.max_rows <= 2 {
        enumerate::sequences(&vals, 0, g.dims.max_rows)
    } else {
        enumerate::multisets(&vals, 0, g.dims.max_rows)
    }
}

fn splits_of(d: &Dims, n: usize) -> Vec<Vec<usize>> {
    // `splits` lists the coarsest cut first; without `all_splits` only the finest cut (<= 2 batches) is used
    let all = enumerate::splits(n, 2);
    if d.all_splits { all } else { vec![all.last().unwrap().clone()] }
}

/// All cases of `g` whose left input is `tables[li]`.
fn for_each_case(g: &Gen, tables: &[Vec<Row>], li: usize, mut f: impl FnMut(&Case)) {
    let l = &tables[li];
    let mut c = g.proto.clone();
    c.nkeys = g.nkeys;
    c.left = l.clone();
    for r in tables {
        if l.len().max(r.len()) < g.dims.min_big {
            continue;
        }
        c.right = r.clone();
        for ls in splits_of(&g.dims, l.len()) {
            c.lsplit = ls;
            for rs in splits_of(&g.dims, r.len()) {
                c.rsplit = rs;
                for bs in &g.dims.batch_sizes {
                    c.batch_size = *bs;
                    f(&c);
                }
            }
        }
    }
}

fn explore(ctx: &Ctx) {
    let quick = ctx.quick();
    // passes over the main operator x join type x ... product: (input dimensions, include the two-key row domain)
    let passes: Vec<(Dims, bool)> = if quick {
        vec![(Dims { max_rows: 2, batch_sizes: vec![1, 8192], all_splits: false, min_big: 0 }, true)]
    } else {
        vec![
            (Dims { max_rows: 2, batch_sizes: vec![1, 2, 8192], all_splits: true, min_big: 0 }, true),
            (Dims { max_rows: 3, batch_sizes: vec![1, 8192], all_splits: false, min_big: 3 }, false),
        ]
    };
    let proto = Case {
        op: OpSpec::Cross { right_parts: 1 },
        jt: 0,
        null_eq: false,
        filter: 0,
        nkeys: 1,
        left: vec![],
        right: vec![],
        lsplit: vec![],
        rsplit: vec![],
        batch_size: 8192,
        pool: 0,
        mem: 0,
        enforce_batch_size: false,
    };
    let mut cases: Vec<Gen> = vec![];
    let mut ops_equi: Vec<OpSpec> = vec![
        OpSpec::HashCollectLeft { perfect: true, right_parts: 1 },
        OpSpec::HashCollectLeft { perfect: false, right_parts: 2 },
        OpSpec::HashPartitioned { perfect: false, parts: 2 },
        OpSpec::SortMerge { descending: false, nulls_first: false },
        OpSpec::SortMerge { descending: true, nulls_first: true },
        OpSpec::SymmetricHash { sorted: false, partitioned: false },
    ];
    if !quick {
        ops_equi.extend([
            OpSpec::HashCollectLeft { perfect: false, right_parts: 1 },
            OpSpec::HashCollectLeft { perfect: true, right_parts: 2 },
            OpSpec::HashPartitioned { perfect: true, parts: 2 },
            OpSpec::HashPartitioned { perfect: false, parts: 3 },
            OpSpec::SortMerge { descending: false, nulls_first: true },
            OpSpec::SortMerge { descending: true, nulls_first: false },
            OpSpec::SymmetricHash { sorted: false, partitioned: true },
        ]);
    }
    for (d, two_key) in &passes {
        // equi-joins: operator x join type x NULL equality x residual filter x key columns x inputs
        for op in &ops_equi {
            for jt in 0..JOIN_TYPES.len() {
                for null_eq in [false, true] {
                    for filter in [0u8, 1, 2, 3] {
                        for nkeys in [1usize, 2] {
                            if nkeys == 2 && (!*two_key || filter == 2 || (quick && filter == 3)) {
                                continue; // two-key inputs carry a single payload value
                            }
                            let mut p = proto.clone();
                            p.op = op.clone();
                            p.jt = jt;
                            p.null_eq = null_eq;
                            p.filter = filter;
                            push_inputs(&mut cases, &p, d, nkeys, false);
                        }
                    }
                }
            }
        }
        // symmetric hash join with declared ordering on v and a range filter on it (pruning path)
        for jt in 0..JOIN_TYPES.len() {
            for null_eq in [false, true] {
                for filter in [1u8, 2] {
                    let mut p = proto.clone();
                    p.op = OpSpec::SymmetricHash { sorted: true, partitioned: false };
                    p.jt = jt;
                    p.null_eq = null_eq;
                    p.filter = filter;
                    push_inputs(&mut cases, &p, d, 1, false);
                }
            }
        }
        // null-aware anti joins (single key, no filter, NullEqualsNothing); wrong join types must be rejected
        // (Partitioned mode is accepted by the builder for LeftAnti but documented as unsupported - the planner
        //  and JoinSelection always force CollectLeft - so it is not explored.)
        for (partitioned, right_parts) in [(false, 1usize), (false, 2)] {
            for jt in 0..JOIN_TYPES.len() {
                let mut p = proto.clone();
                p.op = OpSpec::HashNullAware { partitioned, right_parts };
                p.jt = jt;
                let dd = Dims { max_rows: d.max_rows, batch_sizes: d.batch_sizes.clone(), all_splits: d.all_splits && matches!(JOIN_TYPES[jt], JoinType::LeftAnti | JoinType::RightAnti), min_big: d.min_big };
                push_inputs(&mut cases, &p, &dd, 1, false);
            }
        }
        // nested loop join: the whole condition is the filter
        for right_parts in [1usize, 2] {
            for jt in 0..JOIN_TYPES.len() {
                for filter in [0u8, 1, 2, 3, 4] {
                    let mut p = proto.clone();
                    p.op = OpSpec::NestedLoop { right_parts };
                    p.jt = jt;
                    p.filter = filter;
                    push_inputs(&mut cases, &p, d, 1, false);
                }
            }
        }
        // cross join
        for right_parts in [1usize, 2] {
            let mut p = proto.clone();
            p.op = OpSpec::Cross { right_parts };
            push_inputs(&mut cases, &p, d, 1, false);
        }
        // piecewise merge join
        for op in 0..4u8 {
            for right_parts in [1usize, 2] {
                for jt in 0..JOIN_TYPES.len() {
                    let mut p = proto.clone();
                    p.op = OpSpec::PiecewiseMerge { op, right_parts };
                    p.jt = jt;
                    // every batch cut also in the quick tier: the classic stream scan keeps per-row state
                    // (`found`, resume cursors) across the rows of ONE stream batch, which the finest cut
                    // (one row per batch) never exercises
                    let dp = Dims { max_rows: d.max_rows, batch_sizes: d.batch_sizes.clone(), all_splits: true, min_big: d.min_big };
                    push_inputs(&mut cases, &p, &dp, 1, false);
                }
            }
        }
    }
    // payload NULLs (the filter sees NULL operands)
    if !quick {
        let dn = Dims { max_rows: 2, batch_sizes: vec![1, 8192], all_splits: false, min_big: 0 };
        for op in [
            OpSpec::HashCollectLeft { perfect: true, right_parts: 1 },
            OpSpec::HashPartitioned { perfect: false, parts: 2 },
            OpSpec::SortMerge { descending: false, nulls_first: false },
            OpSpec::SymmetricHash { sorted: false, partitioned: false },
            OpSpec::NestedLoop { right_parts: 1 },
        ] {
            for jt in 0..JOIN_TYPES.len() {
                for null_eq in [false, true] {
                    for filter in [1u8, 2] {
                        let mut p = proto.clone();
                        p.op = op.clone();
                        p.jt = jt;
                        p.null_eq = null_eq;
                        p.filter = filter;
                        push_inputs(&mut cases, &p, &dn, 1, true);
                    }
                }
            }
        }
    }
    // memory budgets for the spillable operators
    let budgets: Vec<(u8, usize)> = if quick { vec![(1, 600), (2, 1500)] } else { vec![(1, 0), (1, 300), (1, 600), (1, 1000), (1, 1500), (2, 600), (2, 1500), (2, 3000)] };
    let dm = Dims { max_rows: 2, batch_sizes: vec![1, 8192], all_splits: !quick, min_big: 0 };
    for (pool, mem) in &budgets {
        for op in [OpSpec::SortMerge { descending: false, nulls_first: false }, OpSpec::NestedLoop { right_parts: 1 }] {
            for jt in 0..JOIN_TYPES.len() {
                for filter in [0u8, 1] {
                    let mut p = proto.clone();
                    p.op = op.clone();
                    p.jt = jt;
                    p.filter = if matches!(op, OpSpec::NestedLoop { .. }) && filter == 0 { 4 } else { filter };
                    p.pool = *pool;
                    p.mem = *mem;
                    push_inputs(&mut cases, &p, &dm, 1, false);
                }
            }
        }
    }
    // enforce_batch_size_in_joins for the operators that read it
    if !quick {
        let de = Dims { max_rows: 2, batch_sizes: vec![1, 2], all_splits: false, min_big: 0 };
        for op in [OpSpec::SymmetricHash { sorted: false, partitioned: false }, OpSpec::NestedLoop { right_parts: 1 }, OpSpec::Cross { right_parts: 1 }] {
            for jt in 0..JOIN_TYPES.len() {
                if matches!(op, OpSpec::Cross { .. }) && jt != 0 {
                    continue;
                }
                let mut p = proto.clone();
                p.op = op.clone();
                p.jt = jt;
                p.filter = if matches!(op, OpSpec::Cross { .. }) { 0 } else { 1 };
                p.enforce_batch_size = true;
                push_inputs(&mut cases, &p, &de, 1, false);
            }
        }
    }
    // work items: (family, left table), smallest left tables first
    let gens = cases;
    let tables: Vec<Vec<Vec<Row>>> = gens.iter().map(tables_of).collect();
    let mut items: Vec<(usize, usize)> = vec![];
    for (gi, ts) in tables.iter().enumerate() {
        for li in 0..ts.len() {
            items.push((gi, li));
        }
    }
    items.sort_by_key(|(gi, li)| (tables[*gi][*li].len(), *li, *gi));
    let n_cases: u64 = gens
        .iter()
        .zip(&tables)
        .map(|(g, ts)| {
            let mut n = 0u64;
            for l in ts {
                for r in ts {
                    if l.len().max(r.len()) >= g.dims.min_big {
                        n += (splits_of(&g.dims, l.len()).len() * splits_of(&g.dims, r.len()).len() * g.dims.batch_sizes.len()) as u64;
                    }
                }
            }
            n
        })
        .sum();

    ctx.set_extra(
        "bounds",
        json!({
            "rows_per_side": if quick { "all multisets of <= 2 rows (all sequences for the unsorted symmetric hash join, which consumes batches in arrival order)" } else { "pass 1: as quick, with every batch cut and batch_size {1,2,8192}; pass 2: all multisets with a 3-row side (one-key domain), finest cut, batch_size {1,8192}" },
            "row_domain_1key": "k1 in {NULL,1,2}, v in {1,2} (thorough adds v = NULL for <= 2 rows)",
            "row_domain_2key": "k1 in {NULL,1}, k2 in {NULL,1,2}, v = 1",
            "batch_splits": if quick { "finest cut of each side into <= 2 batches" } else { "every cut of each side into <= 2 batches (pass 1), finest (pass 2)" },
            "batch_size": if quick { "1, 8192" } else { "1, 2, 8192 (pass 1); 1, 8192 (pass 2)" },
            "join_types": JOIN_TYPES.iter().map(|j| j.to_string()).collect::<Vec<_>>(),
            "null_equality": ["NullEqualsNothing", "NullEqualsNull"],
            "filters": "none | l.v < r.v | l.v + r.v = 3 | literal false | (nested loop) l.k1 = r.k1",
            "operators": ops_equi.iter().map(|o| format!("{o:?}")).collect::<Vec<_>>(),
            "other_operators": "SymmetricHash{sorted} | HashNullAware(CollectLeft, 1-2 probe partitions) | NestedLoop{1,2 right partitions} | Cross{1,2} | PiecewiseMerge{< <= > >=}x{1,2 streamed partitions}",
            "memory_budgets(pool,bytes)": budgets,
            "cases": n_cases,
        }),
    );
    ctx.assume("null-aware anti joins are checked in CollectLeft mode only (the planner never builds the Partitioned form), without residual filter and with NullEqualsNothing (NOT IN semantics; the property does not define the other combinations)");
    ctx.assume("a run that ends in ResourcesExhausted under a finite memory budget is counted, not compared");

    let found: Mutex<BTreeMap<String, ((usize, usize, String), String, Case)>> = Mutex::new(BTreeMap::new());
    items.par_iter().for_each(|(gi, li)| {
        for_each_case(&gens[*gi], &tables[*gi], *li, |c| {
            if ctx.out_of_time() {
                return;
            }
            ctx.eval();
            let fam = c.op.family();
            match mc_core::catch(|| run_case(c)).unwrap_or_else(Err) {
                Ok(st) => {
                    if st.rejected.is_some() {
                        ctx.count(&format!("rejected[{fam} {}]", JOIN_TYPES[c.jt]), 1);
                        return;
                    }
                    if st.resources_exhausted {
                        ctx.count(&format!("resources_exhausted[{fam} pool={} mem={}]", c.pool, c.mem), 1);
                        return;
                    }
                    ctx.count(&format!("compared[{fam}]"), 1);
                    if c.pool != 0 {
                        let bucket = match st.spills {
                            0 => "0",
                            1 => "1",
                            _ => ">=2",
                        };
                        ctx.count(&format!("budget_runs[{fam} pool={} mem={}] spills={bucket}", c.pool, c.mem), 1);
                    }
                    if st.array_maps > 0 {
                        ctx.count(&format!("array_map_used[{fam}]"), 1);
                    }
                    if st.nontrivial {
                        ctx.nontrivial(&(fam, c.jt, c.null_eq, c.filter, c.nkeys, &c.left, &c.right));
                        if c.left.len() + c.right.len() >= 4 && c.lsplit.len() == 2 && c.filter == 1 && c.jt >= 3 && ctx.want_sample() {
                            ctx.sample(json!({"case": c, "join_type": JOIN_TYPES[c.jt].to_string(), "output_rows": st.out_rows}));
                        }
                    }
                }
                Err(what) => {
                    // one finding per (operator family, join type, filter class, NULL equality, budgeted?); keep the smallest case
                    let fclass = match c.filter {
                        0 => "no-filter",
                        3 => "column-free-filter",
                        _ => "column-filter",
                    };
                    let jgroup = match JOIN_TYPES[c.jt] {
                        JoinType::Inner | JoinType::Left | JoinType::Right | JoinType::Full => "inner/outer",
                        JoinType::LeftMark | JoinType::RightMark => "mark",
                        _ => "semi/anti",
                    };
                    let key = format!(
                        "{fam}|{jgroup}|{fclass}|{}{}",
                        if c.null_eq { "NullEqualsNull" } else { "NullEqualsNothing" },
                        if c.pool != 0 { "|memory-budget" } else { "" }
                    );
                    let rank = (c.left.len() + c.right.len(), c.lsplit.len() + c.rsplit.len(), serde_json::to_string(c).unwrap());
                    ctx.count("violating_cases", 1);
                    let mut f = found.lock().unwrap();
                    if f.get(&key).map(|old: &(_, String, Case)| old.0 > rank).unwrap_or(true) {
                        f.insert(key, (rank, what, c.clone()));
                    }
                }
            }
        });
    });
    for (key, (_, what, case)) in found.into_inner().unwrap() {
        ctx.violation(key, what, serde_json::to_value(&case).unwrap());
    }
}

fn replay(v: &Value) -> Result<(), String> {
    let c: Case = serde_json::from_value(v.get("case").cloned().unwrap_or(v.clone())).map_err(|e| format!("bad case: {e}"))?;
    mc_core::catch(|| run_case(&c)).unwrap_or_else(Err).map(|_| ())
}

fn main() {
    if std::env::var("VERIF_LOUD_PANICS").is_err() {
        mc_core::quiet_panics();
    }
    run_check(
        "C05",
        Level::Exploration,
        "every (join operator variant, join type, NULL equality, residual filter, key column count, left multiset, right multiset, batch cut, batch_size[, memory budget]) within the bounds; \
         each built as the real ExecutionPlan over in-memory inputs, executed, and its output compared as a multiset with a nested-loop reference; \
         unsupported combinations must be refused (counted); non-trivial = some pair of rows matches and some row of either side has no match",
        explore,
        replay,
    );
}
