//! Engine E (`evt`): deviation-bounded exploration of the *environment event
//! orders* of a real physical plan.
//!
//! The plan's leaves are [`GatedSourceExec`]s whose partition streams stay
//! `Pending` until the driver grants a permit; its roots are polled (or
//! dropped) explicitly by the driver.  Everything runs on a single-threaded
//! tokio runtime with a paused clock: after each driver action the driver
//! sleeps 1 ns of *virtual* time, which completes exactly when every spawned
//! task is idle — "one action, then run to quiescence" is one transition.
//! Executions are lists of choices; choice 0 is the default (poll ready outputs
//! first, otherwise release the next source item round-robin); every other
//! choice costs one deviation.

use arrow::array::{Array, Int64Array, RecordBatch};
use arrow::datatypes::{DataType, Field, Schema, SchemaRef};
use datafusion_common::tree_node::TreeNodeRecursion;
use datafusion_common::{DataFusionError, Result, internal_err};
use datafusion_execution::{RecordBatchStream, SendableRecordBatchStream, TaskContext};
use datafusion_physical_expr::{EquivalenceProperties, LexOrdering, Partitioning, PhysicalExpr};
use datafusion_physical_plan::execution_plan::{
    Boundedness, ChildrenPropertiesMode, EmissionType, ReplaceChildrenOptions,
};
use datafusion_physical_plan::{DisplayAs, DisplayFormatType, ExecutionPlan, ExecutionPlanProperties, PlanProperties};
use futures::{Stream, StreamExt};
use mc_core::explore::Trace;
use parking_lot::Mutex;
use std::pin::Pin;
use std::sync::Arc;
use std::sync::atomic::{AtomicBool, AtomicUsize, Ordering};
use std::task::{Context, Poll, Wake, Waker};
use std::time::Duration;

// ------------------------------------------------------------------ gated source

#[derive(Clone, Debug)]
pub enum Item {
    Batch(RecordBatch),
    Error(String),
}

#[derive(Debug, Default)]
pub struct GateState {
    script: Vec<Item>,
    next: usize,
    permits: usize,
    waker: Option<Waker>,
    /// streams currently alive for this partition
    pub live: usize,
    /// streams ever opened
    pub opened: usize,
    pub polls: usize,
    /// the end-of-stream (or an error) has been delivered
    pub ended: bool,
}

impl GateState {
    /// items (incl. the final end-of-stream) not yet released
    pub fn unreleased(&self) -> usize {
        (self.script.len() + 1).saturating_sub(self.next + self.permits)
    }
}

pub type Gate = Arc<Mutex<GateState>>;

#[derive(Debug)]
pub struct GatedSourceExec {
    schema: SchemaRef,
    pub gates: Vec<Gate>,
    cache: Arc<PlanProperties>,
    label: String,
}

impl GatedSourceExec {
    pub fn new(label: &str, schema: SchemaRef, scripts: Vec<Vec<Item>>, ordering: Option<LexOrdering>) -> Arc<Self> {
        Self::new_opts(label, schema, scripts, ordering, Boundedness::Bounded)
    }
    pub fn new_opts(
        label: &str,
        schema: SchemaRef,
        scripts: Vec<Vec<Item>>,
        ordering: Option<LexOrdering>,
        boundedness: Boundedness,
    ) -> Arc<Self> {
        let n = scripts.len();
        let mut eq = EquivalenceProperties::new(Arc::clone(&schema));
        if let Some(o) = ordering {
            eq.add_ordering(o);
        }
        let cache = PlanProperties::new(eq, Partitioning::UnknownPartitioning(n), EmissionType::Incremental, boundedness);
        Arc::new(GatedSourceExec {
            schema,
            gates: scripts
                .into_iter()
                .map(|s| Arc::new(Mutex::new(GateState { script: s, ..Default::default() })))
                .collect(),
            cache: Arc::new(cache),
            label: label.to_string(),
        })
    }
    /// grant one permit to partition `p` (delivers the next scripted item, or end-of-stream)
    pub fn release(&self, p: usize) {
        let w = {
            let mut g = self.gates[p].lock();
            g.permits += 1;
            g.waker.take()
        };
        if let Some(w) = w {
            w.wake();
        }
    }
    pub fn live_streams(&self) -> usize {
        self.gates.iter().map(|g| g.lock().live).sum()
    }
}

impl DisplayAs for GatedSourceExec {
    fn fmt_as(&self, _t: DisplayFormatType, f: &mut std::fmt::Formatter) -> std::fmt::Result {
        write!(f, "GatedSourceExec({})", self.label)
    }
}

impl ExecutionPlan for GatedSourceExec {
    fn name(&self) -> &'static str {
        "GatedSourceExec"
    }
    fn properties(&self) -> &Arc<PlanProperties> {
        &self.cache
    }
    fn children(&self) -> Vec<&Arc<dyn ExecutionPlan>> {
        vec![]
    }
    fn replace_children(
        self: Arc<Self>,
        children: Vec<Arc<dyn ExecutionPlan>>,
        _: ReplaceChildrenOptions,
    ) -> Result<Arc<dyn ExecutionPlan>> {
        if children.is_empty() { Ok(self) } else { internal_err!("GatedSourceExec has no children") }
    }
    fn apply_expressions(
        &self,
        _f: &mut dyn FnMut(&Arc<dyn PhysicalExpr>) -> Result<TreeNodeRecursion>,
    ) -> Result<TreeNodeRecursion> {
        Ok(TreeNodeRecursion::Continue)
    }
    fn with_new_children(self: Arc<Self>, children: Vec<Arc<dyn ExecutionPlan>>) -> Result<Arc<dyn ExecutionPlan>> {
        self.replace_children(children, ReplaceChildrenOptions::new(ChildrenPropertiesMode::Recompute))
    }
    fn execute(&self, partition: usize, _context: Arc<TaskContext>) -> Result<SendableRecordBatchStream> {
        let gate = Arc::clone(&self.gates[partition]);
        {
            let mut g = gate.lock();
            g.live += 1;
            g.opened += 1;
        }
        Ok(Box::pin(GatedStream { schema: Arc::clone(&self.schema), gate, done: false }))
    }
}

struct GatedStream {
    schema: SchemaRef,
    gate: Gate,
    done: bool,
}

impl Stream for GatedStream {
    type Item = Result<RecordBatch>;
    fn poll_next(mut self: Pin<&mut Self>, cx: &mut Context<'_>) -> Poll<Option<Self::Item>> {
        if self.done {
            return Poll::Ready(None);
        }
        let mut g = self.gate.lock();
        g.polls += 1;
        if g.permits == 0 {
            g.waker = Some(cx.waker().clone());
            return Poll::Pending;
        }
        g.permits -= 1;
        let i = g.next;
        g.next += 1;
        match g.script.get(i).cloned() {
            Some(Item::Batch(b)) => Poll::Ready(Some(Ok(b))),
            Some(Item::Error(e)) => {
                g.ended = true;
                drop(g);
                self.done = true;
                Poll::Ready(Some(Err(DataFusionError::Execution(e))))
            }
            None => {
                g.ended = true;
                drop(g);
                self.done = true;
                Poll::Ready(None)
            }
        }
    }
}

impl Drop for GatedStream {
    fn drop(&mut self) {
        self.gate.lock().live -= 1;
    }
}

impl RecordBatchStream for GatedStream {
    fn schema(&self) -> SchemaRef {
        Arc::clone(&self.schema)
    }
}

// ------------------------------------------------------------------ driver

struct Flag(AtomicBool, AtomicUsize);
impl Wake for Flag {
    fn wake(self: Arc<Self>) {
        self.0.store(true, Ordering::SeqCst);
        self.1.fetch_add(1, Ordering::SeqCst);
    }
}

#[derive(Clone, Debug, PartialEq, Eq, serde::Serialize, serde::Deserialize)]
pub enum Action {
    Poll(usize),
    Release(usize, usize),
    Drop(usize),
}

#[derive(Debug, Default, Clone)]
pub struct OutRecord {
    pub batches: Vec<RecordBatch>,
    /// number of batches delivered before the error
    pub error: Option<String>,
    pub finished: bool,
    pub dropped: bool,
    pub polls: usize,
    /// items yielded after `None` or after being finished (must stay 0)
    pub after_end: usize,
}

#[derive(Debug, Default, Clone)]
pub struct RunRecord {
    pub outputs: Vec<OutRecord>,
    pub actions: Vec<Action>,
    pub deadlock: bool,
    /// execute() failed for an output partition
    pub execute_error: Option<String>,
    /// measured after every output was finished or dropped and the runtime went idle
    pub live_source_streams_end: usize,
    pub pool_reserved_end: usize,
    pub alive_tasks_end: usize,
    pub alive_tasks_start: usize,
    pub live_spill_files_end: usize,
    pub spill_files_created: usize,
    pub spill_writes: usize,
    pub steps: usize,
    pub diverged: bool,
    pub panicked: Option<String>,
    /// per step: what the action observed (poll results), for debugging / samples
    pub log: Vec<String>,
}

/// What a scenario builds for one execution (everything fresh).
pub struct World {
    pub plan: Arc<dyn ExecutionPlan>,
    pub sources: Vec<Arc<GatedSourceExec>>,
    pub ctx: Arc<TaskContext>,
    /// explore dropping outputs as an action
    pub allow_drop: bool,
    /// drop output j right after it delivered this many batches (crash-point enumeration), if set
    pub drop_after: Option<(usize, usize)>,
    /// maximum number of driver steps (horizon)
    pub max_steps: usize,
    /// statistics of the in-memory spill backend, if the scenario uses one
    pub spill: Option<Arc<MemSpillStats>>,
}

async fn quiesce() {
    tokio::time::sleep(Duration::from_nanos(1)).await;
}

/// Runs one execution: replays `prefix`, then default choices.  Returns the
/// choice trace and the record.
pub fn run_one(build: &dyn Fn() -> World, prefix: &[usize]) -> (Trace, RunRecord) {
    // one runtime per worker thread, reused across executions (creating a runtime - and its
    // blocking-pool threads for spill file I/O - per execution dominated the cost); every
    // execution ends with all of its tasks finished or aborted, checked via `alive_tasks_*`.
    thread_local! {
        static RT: tokio::runtime::Runtime = tokio::runtime::Builder::new_current_thread()
            .enable_time()
            .start_paused(true)
            .build()
            .expect("runtime");
    }
    RT.with(|rt| rt.block_on(async move { drive(build, prefix).await }))
}

async fn drive(build: &dyn Fn() -> World, prefix: &[usize]) -> (Trace, RunRecord) {
    let mut rec = RunRecord::default();
    let mut trace = Trace { choices: vec![], enabled: vec![] };
    let handle = tokio::runtime::Handle::current();
    rec.alive_tasks_start = handle.metrics().num_alive_tasks();
    let world = build();
    let n_out = world.plan.output_partitioning().partition_count();
    let mut streams: Vec<Option<SendableRecordBatchStream>> = vec![];
    for j in 0..n_out {
        match world.plan.execute(j, Arc::clone(&world.ctx)) {
            Ok(s) => streams.push(Some(s)),
            Err(e) => {
                rec.execute_error = Some(e.to_string());
                streams.push(None);
            }
        }
    }
    rec.outputs = vec![OutRecord::default(); n_out];
    if rec.execute_error.is_some() {
        for o in rec.outputs.iter_mut() {
            o.finished = true;
        }
    }
    let flags: Vec<Arc<Flag>> = (0..n_out).map(|_| Arc::new(Flag(AtomicBool::new(true), AtomicUsize::new(0)))).collect();
    let wakers: Vec<Waker> = flags.iter().map(|f| Waker::from(Arc::clone(f))).collect();
    let mut rr = 0usize; // round-robin cursor over source partitions
    let src_parts: Vec<(usize, usize)> =
        world.sources.iter().enumerate().flat_map(|(s, src)| (0..src.gates.len()).map(move |p| (s, p))).collect();
    quiesce().await;
    loop {
        if rec.steps >= world.max_steps {
            break;
        }
        // enabled actions in canonical order
        let mut enabled: Vec<Action> = vec![];
        for j in 0..n_out {
            if streams[j].is_some() && !rec.outputs[j].finished && flags[j].0.load(Ordering::SeqCst) {
                enabled.push(Action::Poll(j));
            }
        }
        for k in 0..src_parts.len() {
            let (s, p) = src_parts[(rr + k) % src_parts.len()];
            if world.sources[s].gates[p].lock().unreleased() > 0 {
                enabled.push(Action::Release(s, p));
            }
        }
        if world.allow_drop {
            for j in 0..n_out {
                if streams[j].is_some() && !rec.outputs[j].finished {
                    enabled.push(Action::Drop(j));
                }
            }
        }
        let all_done = (0..n_out).all(|j| streams[j].is_none() || rec.outputs[j].finished);
        if all_done {
            break;
        }
        // nothing but releases left and no one listening is fine; no action at all with unfinished outputs = deadlock
        if enabled.is_empty() {
            rec.deadlock = true;
            break;
        }
        let pos = trace.choices.len();
        let choice = if pos < prefix.len() { prefix[pos] } else { 0 };
        if choice >= enabled.len() {
            // replay diverged (nondeterminism inside the subject, e.g. HashMap iteration order): stop here;
            // the caller sees a trace that does not reproduce its prefix
            rec.diverged = true;
            break;
        }
        trace.choices.push(choice);
        trace.enabled.push(enabled.len());
        let act = enabled[choice].clone();
        rec.actions.push(act.clone());
        rec.steps += 1;
        match act {
            Action::Poll(j) => {
                // macro step: poll until the stream yields an item / ends, or stays Pending with no
                // wake-up once the runtime is idle again (intermediate Pending+wake rounds - cooperative
                // yields, per-syscall blocking file reads - are internal to the operator, not choices)
                let mut rounds = 0;
                loop {
                    rounds += 1;
                    flags[j].0.store(false, Ordering::SeqCst);
                    let mut cx = Context::from_waker(&wakers[j]);
                    let s = streams[j].as_mut().unwrap();
                    rec.outputs[j].polls += 1;
                    match s.poll_next_unpin(&mut cx) {
                        Poll::Ready(Some(Ok(b))) => {
                            rec.log.push(format!("poll({j})=batch[{}]", b.num_rows()));
                            rec.outputs[j].batches.push(b);
                            flags[j].0.store(true, Ordering::SeqCst);
                            if let Some((dj, k)) = world.drop_after {
                                if dj == j && rec.outputs[j].batches.len() >= k {
                                    streams[j] = None;
                                    rec.outputs[j].dropped = true;
                                }
                            }
                            break;
                        }
                        Poll::Ready(Some(Err(e))) => {
                            rec.log.push(format!("poll({j})=err"));
                            if rec.outputs[j].error.is_none() {
                                rec.outputs[j].error = Some(e.to_string());
                            }
                            flags[j].0.store(true, Ordering::SeqCst);
                            break;
                        }
                        Poll::Ready(None) => {
                            rec.log.push(format!("poll({j})=end"));
                            rec.outputs[j].finished = true;
                            break;
                        }
                        Poll::Pending => {
                            quiesce().await;
                            if !flags[j].0.load(Ordering::SeqCst) || rounds > 256 {
                                rec.log.push(format!("poll({j})=pending"));
                                break;
                            }
                        }
                    }
                }
            }
            Action::Release(s, p) => {
                world.sources[s].release(p);
                rr = (src_parts.iter().position(|x| *x == (s, p)).unwrap() + 1) % src_parts.len();
            }
            Action::Drop(j) => {
                streams[j] = None;
                rec.outputs[j].dropped = true;
            }
        }
        quiesce().await;
    }
    // post-mortem: drop everything that is left (streams *and* the plan, as a caller that
    // abandons a query does), let background work wind down
    for s in streams.iter_mut() {
        *s = None;
    }
    let World { plan, sources, ctx: task_ctx, spill, .. } = world;
    drop(plan);
    for _ in 0..8 {
        quiesce().await;
        tokio::task::yield_now().await;
    }
    rec.live_source_streams_end = sources.iter().map(|s| s.live_streams()).sum();
    rec.pool_reserved_end = task_ctx.runtime_env().memory_pool.reserved();
    rec.alive_tasks_end = handle.metrics().num_alive_tasks();
    drop(task_ctx);
    if let Some(sp) = spill {
        rec.live_spill_files_end = sp.live_files.load(Ordering::SeqCst);
        rec.spill_files_created = sp.created.load(Ordering::SeqCst);
        rec.spill_writes = sp.writes.load(Ordering::SeqCst);
    }
    (trace, rec)
}

// ------------------------------------------------------------------ small data helpers

pub fn int_schema(cols: &[&str]) -> SchemaRef {
    Arc::new(Schema::new(cols.iter().map(|c| Field::new(*c, DataType::Int64, true)).collect::<Vec<_>>()))
}

/// rows of nullable i64 -> batch
pub fn int_batch(schema: &SchemaRef, rows: &[Vec<Option<i64>>]) -> RecordBatch {
    let ncol = schema.fields().len();
    let cols: Vec<Arc<dyn Array>> =
        (0..ncol).map(|c| Arc::new(Int64Array::from(rows.iter().map(|r| r[c]).collect::<Vec<_>>())) as Arc<dyn Array>).collect();
    RecordBatch::try_new(Arc::clone(schema), cols).expect("batch")
}

/// batch -> rows of nullable i64 (all columns must be Int64)
pub fn int_rows(b: &RecordBatch) -> Vec<Vec<Option<i64>>> {
    let cols: Vec<&Int64Array> =
        b.columns().iter().map(|c| c.as_any().downcast_ref::<Int64Array>().expect("Int64 column")).collect();
    (0..b.num_rows()).map(|i| cols.iter().map(|c| if c.is_null(i) { None } else { Some(c.value(i)) }).collect()).collect()
}

pub fn all_rows(batches: &[RecordBatch]) -> Vec<Vec<Option<i64>>> {
    batches.iter().flat_map(int_rows).collect()
}

// ------------------------------------------------------------------ in-memory, fault-injecting spill backend

/// Which call (0-based, over the whole factory) of each operation fails.
#[derive(Clone, Copy, Debug, Default, serde::Serialize, serde::Deserialize, Hash, PartialEq, Eq)]
pub struct SpillFaults {
    pub create: Option<usize>,
    pub write: Option<usize>,
    pub finish: Option<usize>,
}

#[derive(Debug, Default)]
pub struct MemSpillStats {
    pub created: AtomicUsize,
    pub writes: AtomicUsize,
    pub finishes: AtomicUsize,
    pub live_files: AtomicUsize,
    pub bytes_written: AtomicUsize,
}

/// A `TempFileFactory` (public seam: `DiskManagerMode::Custom`) that keeps spill
/// files in memory: no blocking-pool thread ever runs, every operation is
/// synchronous and deterministic, and the *k*-th create / write / finish can be
/// made to fail.  A read stream yields a snapshot of the bytes written so far
/// (what reading a real file up to its current end gives).
pub struct MemSpillFactory {
    pub stats: Arc<MemSpillStats>,
    faults: SpillFaults,
}

impl MemSpillFactory {
    pub fn new(faults: SpillFaults) -> Arc<Self> {
        Arc::new(MemSpillFactory { stats: Arc::new(MemSpillStats::default()), faults })
    }
}

fn injected(n: &AtomicUsize, at: Option<usize>, what: &str) -> Result<()> {
    let k = n.fetch_add(1, Ordering::SeqCst);
    if Some(k) == at {
        return Err(DataFusionError::Execution(format!("INJECTED spill failure: {what} #{k}")));
    }
    Ok(())
}

struct MemSpillFile {
    content: Arc<Mutex<Vec<u8>>>,
    stats: Arc<MemSpillStats>,
    faults: SpillFaults,
}

impl Drop for MemSpillFile {
    fn drop(&mut self) {
        self.stats.live_files.fetch_sub(1, Ordering::SeqCst);
    }
}

impl datafusion_execution::SpillFile for MemSpillFile {
    fn size(&self) -> Option<u64> {
        Some(self.content.lock().len() as u64)
    }
    fn read_stream(&self) -> Result<Pin<Box<dyn Stream<Item = Result<bytes::Bytes>> + Send>>> {
        // Mirrors the OS backend (tokio_util::io::ReaderStream over the file): the first poll is
        // `Pending` with an immediate wake-up (asynchronous open), every later poll returns the bytes
        // appended since the previous one (<= 128 KiB), and a poll that finds nothing new is EOF,
        // after which the stream stays finished.
        Ok(Box::pin(MemReadStream { content: Arc::clone(&self.content), offset: 0, opened: false, done: false }))
    }
    fn open_writer(&self) -> Result<Box<dyn datafusion_execution::SpillWriter>> {
        Ok(Box::new(MemSpillWriter { content: Arc::clone(&self.content), stats: Arc::clone(&self.stats), faults: self.faults }))
    }
}

struct MemReadStream {
    content: Arc<Mutex<Vec<u8>>>,
    offset: usize,
    opened: bool,
    done: bool,
}

impl Stream for MemReadStream {
    type Item = Result<bytes::Bytes>;
    fn poll_next(mut self: Pin<&mut Self>, cx: &mut Context<'_>) -> Poll<Option<Self::Item>> {
        if self.done {
            return Poll::Ready(None);
        }
        if !self.opened {
            self.opened = true;
            cx.waker().wake_by_ref();
            return Poll::Pending;
        }
        let chunk = {
            let c = self.content.lock();
            let end = c.len().min(self.offset + 128 * 1024);
            c[self.offset..end].to_vec()
        };
        if chunk.is_empty() {
            self.done = true;
            return Poll::Ready(None);
        }
        self.offset += chunk.len();
        Poll::Ready(Some(Ok(bytes::Bytes::from(chunk))))
    }
}

struct MemSpillWriter {
    content: Arc<Mutex<Vec<u8>>>,
    stats: Arc<MemSpillStats>,
    faults: SpillFaults,
}

impl std::io::Write for MemSpillWriter {
    fn write(&mut self, buf: &[u8]) -> std::io::Result<usize> {
        if let Err(e) = injected(&self.stats.writes, self.faults.write, "write") {
            return Err(std::io::Error::other(e.to_string()));
        }
        self.content.lock().extend_from_slice(buf);
        self.stats.bytes_written.fetch_add(buf.len(), Ordering::SeqCst);
        Ok(buf.len())
    }
    fn flush(&mut self) -> std::io::Result<()> {
        Ok(())
    }
}

impl datafusion_execution::SpillWriter for MemSpillWriter {
    fn finish(&mut self) -> Result<()> {
        injected(&self.stats.finishes, self.faults.finish, "finish")
    }
}

impl datafusion_execution::TempFileFactory for MemSpillFactory {
    fn create_temp_file(&self, _description: &str) -> Result<Arc<dyn datafusion_execution::SpillFile>> {
        injected(&self.stats.created, self.faults.create, "create_temp_file")?;
        self.stats.live_files.fetch_add(1, Ordering::SeqCst);
        Ok(Arc::new(MemSpillFile { content: Arc::new(Mutex::new(vec![])), stats: Arc::clone(&self.stats), faults: self.faults }))
    }
}
