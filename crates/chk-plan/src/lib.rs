// shared helpers for physical-plan level checks
