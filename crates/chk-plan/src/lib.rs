// shared helpers for physical-plan level checks
pub mod evt;
