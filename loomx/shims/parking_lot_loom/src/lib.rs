//! The subset of `parking_lot`'s API used by the DataFusion concurrency cores,
//! implemented over `loom::sync` so that every lock operation is a scheduling
//! point of the model checker.  Semantics: same as parking_lot (no poisoning).
use std::fmt;

pub struct Mutex<T>(loom::sync::Mutex<T>);
pub type MutexGuard<'a, T> = loom::sync::MutexGuard<'a, T>;

impl<T> Mutex<T> {
    pub fn new(t: T) -> Self {
        Mutex(loom::sync::Mutex::new(t))
    }
    pub fn lock(&self) -> MutexGuard<'_, T> {
        match self.0.lock() {
            Ok(g) => g,
            Err(e) => e.into_inner(),
        }
    }
    pub fn try_lock(&self) -> Option<MutexGuard<'_, T>> {
        self.0.try_lock().ok()
    }
    pub fn into_inner(self) -> T {
        match self.0.into_inner() {
            Ok(g) => g,
            Err(e) => e.into_inner(),
        }
    }
    pub fn get_mut(&mut self) -> &mut T {
        match self.0.get_mut() {
            Ok(g) => g,
            Err(e) => e.into_inner(),
        }
    }
}
impl<T: Default> Default for Mutex<T> {
    fn default() -> Self {
        Mutex::new(T::default())
    }
}
impl<T> fmt::Debug for Mutex<T> {
    fn fmt(&self, f: &mut fmt::Formatter<'_>) -> fmt::Result {
        f.write_str("Mutex { .. }")
    }
}

pub struct RwLock<T>(loom::sync::RwLock<T>);
pub type RwLockReadGuard<'a, T> = loom::sync::RwLockReadGuard<'a, T>;
pub type RwLockWriteGuard<'a, T> = loom::sync::RwLockWriteGuard<'a, T>;

impl<T> RwLock<T> {
    pub fn new(t: T) -> Self {
        RwLock(loom::sync::RwLock::new(t))
    }
    pub fn read(&self) -> RwLockReadGuard<'_, T> {
        match self.0.read() {
            Ok(g) => g,
            Err(e) => e.into_inner(),
        }
    }
    pub fn write(&self) -> RwLockWriteGuard<'_, T> {
        match self.0.write() {
            Ok(g) => g,
            Err(e) => e.into_inner(),
        }
    }
    pub fn into_inner(self) -> T {
        match self.0.into_inner() {
            Ok(g) => g,
            Err(e) => e.into_inner(),
        }
    }
}
impl<T: Default> Default for RwLock<T> {
    fn default() -> Self {
        RwLock::new(T::default())
    }
}
impl<T> fmt::Debug for RwLock<T> {
    fn fmt(&self, f: &mut fmt::Formatter<'_>) -> fmt::Result {
        f.write_str("RwLock { .. }")
    }
}
