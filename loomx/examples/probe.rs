use loom::sync::atomic::{AtomicUsize, Ordering};
use std::sync::Arc;
fn main() {
    let seen = Arc::new(std::sync::Mutex::new(std::collections::BTreeSet::new()));
    let s2 = seen.clone();
    loom::model(move || {
        let a = Arc::new(AtomicUsize::new(0));
        let (a2, a3) = (a.clone(), a.clone());
        let h = loom::thread::spawn(move || {
            let r = a2.fetch_update(Ordering::Relaxed, Ordering::Relaxed, |u| (u + 5 <= 8).then_some(u + 5));
            let l = a2.load(Ordering::Relaxed);
            assert!(l <= 8);
            r.is_ok()
        });
        let h2 = loom::thread::spawn(move || {
            let r = a3.fetch_update(Ordering::Relaxed, Ordering::Relaxed, |u| (u + 5 <= 8).then_some(u + 5));
            r.is_ok()
        });
        let v = a.load(Ordering::Relaxed);
        let r1 = h.join().unwrap();
        let r2 = h2.join().unwrap();
        s2.lock().unwrap().insert((v, r1, r2));
    });
    println!("{:?}", seen.lock().unwrap());
}
