//! Orchestration: every loom configuration runs in its own subprocess (a loom
//! failure can abort the process); the parent collects schedules / distinct
//! outcomes and turns a failing child into a replayable violation.
use mc_core::serde_json::{Value, json};
use mc_core::{Ctx, Level, rayon::prelude::*};
use std::collections::BTreeSet;
use std::process::{Command, Stdio};
use std::sync::Mutex;
use std::sync::atomic::{AtomicU64, Ordering};
use std::time::{Duration, Instant};

pub struct Config {
    pub name: &'static str,
    pub desc: &'static str,
    /// preemption bounds: (quick, thorough); `None` = unbounded
    pub bound: (Option<usize>, Option<usize>),
    pub body: fn(),
}

static SCHEDULES: AtomicU64 = AtomicU64::new(0);
static OUTCOMES: Mutex<BTreeSet<String>> = Mutex::new(BTreeSet::new());

/// Called by a model body at the end of each execution with its observable outcome vector.
pub fn outcome(s: String) {
    OUTCOMES.lock().unwrap().insert(s);
}

fn run_child(cfg: &Config) -> ! {
    let mut b = loom::model::Builder::new(); // reads LOOM_MAX_PREEMPTIONS, LOOM_CHECKPOINT_FILE, …
    b.max_branches = 100_000;
    if let Ok(f) = std::env::var("LOOMX_REPLAY_CHECKPOINT") {
        b.checkpoint_file = Some(f.into());
    }
    let body = cfg.body;
    b.check(move || {
        SCHEDULES.fetch_add(1, Ordering::Relaxed);
        body();
    });
    let outs = OUTCOMES.lock().unwrap();
    let sample: Vec<&String> = outs.iter().take(4).collect();
    println!(
        "LOOMX-RESULT {}",
        json!({"schedules": SCHEDULES.load(Ordering::Relaxed), "outcomes": outs.len(), "sample_outcomes": sample})
    );
    std::process::exit(0)
}

struct ChildResult {
    ok: bool,
    timed_out: bool,
    schedules: u64,
    outcomes: u64,
    sample_outcomes: Value,
    stderr_tail: String,
    /// first panic message (the assertion text / loom's deadlock report): identifies *what* failed
    first_msg: String,
    wall: f64,
}

fn spawn_child(name: &str, bound: Option<usize>, timeout: Duration, checkpoint: Option<&str>) -> ChildResult {
    let exe = std::env::current_exe().expect("current_exe");
    let mut cmd = Command::new(exe);
    cmd.arg("--loom-config").arg(name);
    cmd.env_remove("LOOM_MAX_PREEMPTIONS");
    cmd.env_remove("LOOM_CHECKPOINT_FILE");
    cmd.env_remove("LOOM_LOG");
    if let Some(b) = bound {
        cmd.env("LOOM_MAX_PREEMPTIONS", b.to_string());
    }
    if let Some(c) = checkpoint {
        cmd.env("LOOM_CHECKPOINT_FILE", c);
        cmd.env("LOOM_CHECKPOINT_INTERVAL", "5000");
    }
    cmd.stdout(Stdio::piped()).stderr(Stdio::piped());
    let t0 = Instant::now();
    let mut child = cmd.spawn().expect("spawn loom child");
    // read pipes on helper threads so that a chatty child cannot block
    let mut so = child.stdout.take().unwrap();
    let mut se = child.stderr.take().unwrap();
    let ho = std::thread::spawn(move || {
        let mut s = String::new();
        let _ = std::io::Read::read_to_string(&mut so, &mut s);
        s
    });
    let he = std::thread::spawn(move || {
        let mut s = Vec::new();
        let _ = std::io::Read::read_to_end(&mut se, &mut s);
        String::from_utf8_lossy(&s).to_string()
    });
    let mut timed_out = false;
    let status = loop {
        match child.try_wait() {
            Ok(Some(st)) => break Some(st),
            Ok(None) => {
                if t0.elapsed() > timeout {
                    let _ = child.kill();
                    let _ = child.wait();
                    timed_out = true;
                    break None;
                }
                std::thread::sleep(Duration::from_millis(20));
            }
            Err(_) => break None,
        }
    };
    let stdout = ho.join().unwrap_or_default();
    let stderr = he.join().unwrap_or_default();
    let mut r = ChildResult {
        ok: false,
        timed_out,
        schedules: 0,
        outcomes: 0,
        sample_outcomes: json!([]),
        stderr_tail: String::new(),
        first_msg: String::new(),
        wall: t0.elapsed().as_secs_f64(),
    };
    if let Some(line) = stdout.lines().find(|l| l.starts_with("LOOMX-RESULT ")) {
        if let Ok(v) = mc_core::serde_json::from_str::<Value>(&line["LOOMX-RESULT ".len()..]) {
            r.schedules = v["schedules"].as_u64().unwrap_or(0);
            r.outcomes = v["outcomes"].as_u64().unwrap_or(0);
            r.sample_outcomes = v["sample_outcomes"].clone();
            r.ok = status.map(|s| s.success()).unwrap_or(false);
        }
    }
    // the informative lines: panic messages, assertion operands, loom's deadlock report
    let lines: Vec<&str> = stderr.lines().collect();
    let mut picked: Vec<String> = vec![];
    for (i, l) in lines.iter().enumerate() {
        let t = l.trim();
        if t.contains("panicked at") || t.to_lowercase().contains("deadlock") {
            picked.push(t.to_string());
            if let Some(n) = lines.get(i + 1) {
                picked.push(n.trim().to_string());
            }
        } else if t.starts_with("left:") || t.starts_with("right:") {
            picked.push(t.to_string());
        }
        if picked.len() >= 8 {
            break;
        }
    }
    if picked.is_empty() {
        let tail: Vec<&str> = lines.iter().cloned().filter(|l| !l.trim().is_empty()).collect();
        let keep = tail.len().saturating_sub(6);
        picked = tail[keep..].iter().map(|s| s.to_string()).collect();
    }
    r.first_msg = lines
        .iter()
        .position(|l| l.contains("panicked at"))
        .and_then(|i| lines.get(i + 1))
        .map(|l| l.trim().to_string())
        .unwrap_or_default();
    r.stderr_tail = picked.join(" | ");
    if r.stderr_tail.len() > 1500 {
        let cut = r.stderr_tail.len() - 1500;
        let mut i = cut;
        while !r.stderr_tail.is_char_boundary(i) {
            i += 1;
        }
        r.stderr_tail = r.stderr_tail[i..].to_string();
    }
    r
}

fn bound_str(b: Option<usize>) -> String {
    b.map(|x| x.to_string()).unwrap_or_else(|| "unbounded".into())
}

pub fn main_with(property: &'static str, rule: &'static str, configs: &'static [Config]) -> ! {
    let args: Vec<String> = std::env::args().collect();
    if let Some(i) = args.iter().position(|a| a == "--loom-config") {
        let name = &args[i + 1];
        let cfg = configs.iter().find(|c| c.name == name).expect("unknown loom config");
        run_child(cfg);
    }
    let explore = |ctx: &Ctx| {
        let timeout = Duration::from_secs(ctx.pick(150, 40 * 60));
        let results: Vec<(usize, Option<usize>, ChildResult)> = configs
            .par_iter()
            .enumerate()
            .map(|(i, c)| {
                let bound = ctx.pick(c.bound.0, c.bound.1);
                let dir = mc_core::verif_root().join("replays").join(property);
                let _ = std::fs::create_dir_all(&dir);
                let ck = dir.join(format!("{}.loom-checkpoint.json", c.name));
                let _ = std::fs::remove_file(&ck);
                (i, bound, spawn_child(c.name, bound, timeout, ck.to_str()))
            })
            .collect();
        let mut per_config = vec![];
        for (i, bound, r) in results {
            let c = &configs[i];
            ctx.evals(r.schedules);
            ctx.add_transitions(r.schedules);
            ctx.add_states(r.outcomes);
            for k in 0..r.outcomes {
                ctx.nontrivial(&(c.name, k));
            }
            per_config.push(json!({"config": c.name, "what": c.desc, "preemption_bound": bound_str(bound),
                "schedules": r.schedules, "distinct_outcomes": r.outcomes, "wall_s": r.wall, "completed": r.ok}));
            ctx.sample(json!({"config": c.name, "preemption_bound": bound_str(bound), "what": c.desc, "some_observed_outcomes": r.sample_outcomes}));
            if r.timed_out {
                ctx.mark_capped(&format!("config {} hit the per-configuration wall cap", c.name));
                continue;
            }
            if !r.ok {
                ctx.violation(
                    format!("{}@{}: {}", c.name, bound_str(bound), r.first_msg),
                    format!("loom reports a failing schedule in configuration {} ({}): {}", c.name, c.desc, r.stderr_tail),
                    json!({"config": c.name, "preemption_bound": bound}),
                );
            }
        }
        ctx.set_extra("configurations", Value::Array(per_config));
        ctx.assume("loom explores the C11 memory model for the atomics/locks it intercepts (std::sync::atomic and parking_lot in the copied source are routed to loom); std Arc reference counts and tokio::sync::watch internals are not scheduling points");
        ctx.assume("function bodies in loomx/src/gen are byte-identical to /repo (only import lines are rewritten by sync_sources.py)");
    };
    let replay = |case: &Value| -> Result<(), String> {
        let name = case["config"].as_str().ok_or("bad case")?;
        let bound = case["preemption_bound"].as_u64().map(|x| x as usize);
        let r = spawn_child(name, bound, Duration::from_secs(40 * 60), None);
        if r.timed_out {
            return Ok(()); // cannot decide: treated as not reproduced
        }
        if r.ok { Ok(()) } else { Err(format!("loom failure in {name}: {}", r.stderr_tail)) }
    };
    mc_core::run_check(property, Level::ModelChecking, rule, explore, replay)
}

// ------------------------------------------------------------------ helpers for model bodies

use std::future::Future;
use std::pin::Pin;
use std::task::{Context, Poll};

/// Wraps a future and records whether its first poll returned `Pending`.
pub struct Traced<F> {
    inner: F,
    polled: bool,
    pub first_pending: std::sync::Arc<std::sync::atomic::AtomicBool>,
}
impl<F> Traced<F> {
    pub fn new(inner: F) -> (Self, std::sync::Arc<std::sync::atomic::AtomicBool>) {
        let flag = std::sync::Arc::new(std::sync::atomic::AtomicBool::new(false));
        (Traced { inner, polled: false, first_pending: flag.clone() }, flag)
    }
}
impl<F: Future + Unpin> Future for Traced<F> {
    type Output = F::Output;
    fn poll(mut self: Pin<&mut Self>, cx: &mut Context<'_>) -> Poll<F::Output> {
        let r = Pin::new(&mut self.inner).poll(cx);
        if !self.polled {
            self.polled = true;
            if r.is_pending() {
                self.first_pending.store(true, std::sync::atomic::Ordering::Relaxed);
            }
        }
        r
    }
}
