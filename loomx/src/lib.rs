//! loomx: exhaustive (preemption-bounded, DPOR) exploration of the *real source
//! text* of DataFusion's concurrency cores under loom.  `src/gen/*` is produced
//! by `sync_sources.py` from the repository on every run.
#![allow(dead_code, unused_imports, clippy::all)]

#[path = "gen/distributor_channels.rs"]
pub mod distributor_channels;

#[path = "gen/memory_pool/mod.rs"]
pub mod memory_pool;

pub mod orch;
