//! loomx: exhaustive (preemption-bounded, DPOR) exploration of the *real source
//! text* of DataFusion's concurrency cores under loom.  `src/gen/*` is produced
//! by `sync_sources.py` from the repository on every run.
#![allow(dead_code, unused_imports, clippy::all)]

#[path = "gen/distributor_channels.rs"]
pub mod distributor_channels;

#[path = "gen/memory_pool/mod.rs"]
pub mod memory_pool;

#[path = "gen/spill_pool.rs"]
pub mod spill_pool;
pub mod spill_env;

#[path = "gen/dynamic_filters/mod.rs"]
pub mod dynamic_filters;
/// `crate::PhysicalExpr` as the copied dynamic-filter source expects it.
pub use datafusion_physical_expr_common::physical_expr::PhysicalExpr;

pub mod orch;
