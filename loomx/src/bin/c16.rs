//! C16 (schedule part) — spill channels under every interleaving.
//! Subject: the real text of physical-plan/src/spill/spill_pool.rs over the
//! in-memory `spill_env` stand-ins for SpillManager / InProgressSpillFile.
use arrow::array::Int32Array;
use arrow::datatypes::{DataType, Field, Schema, SchemaRef};
use arrow::record_batch::RecordBatch;
use datafusion_execution::SendableRecordBatchStream;
use futures::StreamExt;
use loom::future::block_on;
use loom::thread;
use loomx::orch::{Config, main_with, outcome};
use loomx::spill_env::{Faults, SpillManager};
use loomx::spill_pool::{mpsc_channel, spsc_channel};
use std::sync::Arc;

fn schema() -> SchemaRef {
    Arc::new(Schema::new(vec![Field::new("v", DataType::Int32, false)]))
}
fn batch(v: i32) -> RecordBatch {
    RecordBatch::try_new(schema(), vec![Arc::new(Int32Array::from(vec![v]))]).unwrap()
}
fn empty() -> RecordBatch {
    RecordBatch::try_new(schema(), vec![Arc::new(Int32Array::from(Vec::<i32>::new()))]).unwrap()
}
fn val(b: &RecordBatch) -> i32 {
    b.column(0).as_any().downcast_ref::<Int32Array>().unwrap().value(0)
}

/// Drains the reader; returns (values, error seen).
fn drain(mut rx: SendableRecordBatchStream) -> (Vec<i32>, bool) {
    block_on(async move {
        let mut got = vec![];
        let mut err = false;
        // horizon: a stream that yields more items than were ever pushed is a violation in itself
        for _ in 0..16 {
            match rx.next().await {
                Some(Ok(b)) => got.push(val(&b)),
                Some(Err(_)) => {
                    err = true;
                    break;
                }
                None => return (got, err),
            }
        }
        panic!("reader yielded more than 16 items or did not terminate: {got:?}");
    })
}

const NEVER: usize = usize::MAX;
const ALWAYS: usize = 0;

fn spsc(threshold: usize, pushes: &'static [i32], faults: Faults, expect_exact: bool) {
    let mgr = Arc::new(SpillManager::new(schema(), faults));
    let (tx, rx) = spsc_channel(threshold, mgr.clone());
    let h = thread::spawn(move || {
        let mut ok = vec![];
        for v in pushes {
            let b = if *v == 0 { empty() } else { batch(*v) };
            if tx.push_batch(&b).is_ok() {
                if *v != 0 {
                    ok.push(*v);
                }
            }
        }
        drop(tx);
        ok
    });
    let (got, err) = drain(rx); // loom deadlock here = reader left waiting forever
    let ok = h.join().unwrap();
    let attempted: Vec<i32> = pushes.iter().cloned().filter(|v| *v != 0).collect();
    check_delivery(&got, &ok, &attempted, err, true, expect_exact);
    outcome(format!("{got:?} ok={ok:?} err={err}"));
}

/// `ordered`: SPSC (sequence) vs MPSC (multiset).  `exact`: no fault injected,
/// every successful push must be delivered.  `attempted`: every non-empty batch
/// a push was called with (a push that reported an error *after* its batch was
/// appended - e.g. a failing `finish` during rotation - may or may not be
/// delivered; the property does not say).
fn check_delivery(got: &[i32], ok: &[i32], attempted: &[i32], err: bool, ordered: bool, exact: bool) {
    // never invent or duplicate
    let mut g = got.to_vec();
    g.sort();
    let mut o = ok.to_vec();
    o.sort();
    let mut gi = g.clone();
    gi.dedup();
    assert_eq!(gi.len(), g.len(), "a batch was delivered twice: {got:?}");
    assert!(g.iter().all(|x| attempted.contains(x)), "delivered a batch that was never pushed: {got:?} vs {attempted:?}");
    if ordered {
        // delivered values respect push order
        let idx: Vec<usize> = got.iter().map(|x| attempted.iter().position(|y| y == x).unwrap()).collect();
        assert!(idx.windows(2).all(|w| w[0] < w[1]), "push order not preserved: {got:?} vs {attempted:?}");
    }
    if exact {
        assert!(!err, "reader reported an error although nothing failed");
        assert_eq!(g, o, "reader ended without delivering every pushed batch: got {got:?}, pushed {ok:?}");
    }
}

fn mpsc(threshold: usize, a: &'static [i32], b: &'static [i32], faults: Faults, exact: bool) {
    let mgr = Arc::new(SpillManager::new(schema(), faults));
    let (w1, rx) = mpsc_channel(threshold, mgr.clone());
    let w2 = w1.clone();
    let run = |w: loomx::spill_pool::SpillPoolWriter, vals: &'static [i32]| {
        thread::spawn(move || {
            let mut ok = vec![];
            for v in vals {
                if w.push_batch(&batch(*v)).is_ok() {
                    ok.push(*v);
                }
            }
            drop(w);
            ok
        })
    };
    let h1 = run(w1, a);
    let h2 = run(w2, b);
    let (got, err) = drain(rx);
    let mut ok = h1.join().unwrap();
    ok.extend(h2.join().unwrap());
    let attempted: Vec<i32> = a.iter().chain(b.iter()).cloned().collect();
    check_delivery(&got, &ok, &attempted, err, false, exact);
    outcome(format!("{got:?} err={err}"));
}

fn s1() { spsc(NEVER, &[1, 2], Faults::default(), true) }
fn s2() { spsc(ALWAYS, &[1, 2], Faults::default(), true) }
fn s3() { spsc(NEVER, &[1, 0, 2], Faults::default(), true) }
fn s4() { spsc(ALWAYS, &[1, 2, 3], Faults::default(), true) }
fn m1() { mpsc(NEVER, &[1, 2], &[11], Faults::default(), true) }
fn m2() { mpsc(ALWAYS, &[1], &[11, 12], Faults::default(), true) }
fn m3() { mpsc(NEVER, &[1], &[], Faults::default(), true) }
// fault injection: the reader must still terminate and deliver nothing wrong
fn f_append0() { spsc(NEVER, &[1, 2], Faults { append: Some(0), ..Default::default() }, false) }
fn f_append1() { spsc(NEVER, &[1, 2, 3], Faults { append: Some(1), ..Default::default() }, false) }
fn f_append1_rot() { spsc(ALWAYS, &[1, 2, 3], Faults { append: Some(1), ..Default::default() }, false) }
fn f_flush0() { spsc(NEVER, &[1, 2], Faults { flush: Some(0), ..Default::default() }, false) }
fn f_finish0() { spsc(ALWAYS, &[1, 2], Faults { finish: Some(0), ..Default::default() }, false) }
fn f_create1() { spsc(ALWAYS, &[1, 2, 3], Faults { create: Some(1), ..Default::default() }, false) }
fn f_mpsc_append() { mpsc(NEVER, &[1, 2], &[11], Faults { append: Some(1), ..Default::default() }, false) }

static CONFIGS: &[Config] = &[
    Config { name: "S1", desc: "SPSC, no rotation: writer thread pushes 2 batches then drops; reader drains", bound: (Some(3), Some(5)), body: s1 },
    Config { name: "S2", desc: "SPSC, rotate after every push: 2 batches", bound: (Some(3), Some(5)), body: s2 },
    Config { name: "S3", desc: "SPSC, no rotation: batch, empty batch (skipped), batch", bound: (Some(3), Some(5)), body: s3 },
    Config { name: "S4", desc: "SPSC, rotate after every push: 3 batches", bound: (Some(3), Some(5)), body: s4 },
    Config { name: "M1", desc: "MPSC, no rotation: writer (2 pushes) + clone (1 push) in two threads; reader drains", bound: (Some(3), Some(5)), body: m1 },
    Config { name: "M2", desc: "MPSC, rotate after every push: writer (1 push) + clone (2 pushes)", bound: (Some(3), Some(5)), body: m2 },
    Config { name: "M3", desc: "MPSC: clone dropped without pushing while the writer pushes once", bound: (Some(3), Some(5)), body: m3 },
    Config { name: "F-append0", desc: "SPSC, first append_batch fails (file created, nothing written), second push succeeds", bound: (Some(3), Some(5)), body: f_append0 },
    Config { name: "F-append1", desc: "SPSC no rotation, second append_batch fails after a successful one; third push succeeds", bound: (Some(3), Some(5)), body: f_append1 },
    Config { name: "F-append1-rot", desc: "SPSC rotating, second append_batch fails; third push succeeds", bound: (Some(3), Some(5)), body: f_append1_rot },
    Config { name: "F-flush0", desc: "SPSC, first flush fails (batch appended, counters not updated)", bound: (Some(3), Some(5)), body: f_flush0 },
    Config { name: "F-finish0", desc: "SPSC rotating, first finish fails during rotation", bound: (Some(3), Some(5)), body: f_finish0 },
    Config { name: "F-create1", desc: "SPSC rotating, second file creation fails", bound: (Some(3), Some(5)), body: f_create1 },
    Config { name: "F-mpsc-append", desc: "MPSC no rotation, second append_batch (whichever writer) fails", bound: (Some(3), Some(5)), body: f_mpsc_append },
];

fn main() {
    main_with(
        "C16",
        "loom DPOR over the real spill_pool.rs (in-memory spill files): every interleaving (up to the stated preemption bound) of 1-2 writer threads (push / drop) and the reader thread draining the stream, for rotation thresholds {0, inf} and injected failures of create/append/flush/finish at a given call; \
         oracle: SPSC delivers exactly the successful non-empty pushes in order, MPSC the multiset, no batch twice or invented, end-of-stream only after all writers dropped and everything was read, and (fault runs) the reader always terminates - loom's deadlock detection is the liveness oracle; \
         evaluations/transitions = complete schedules, states/distinct = distinct outcome vectors",
        CONFIGS,
    )
}
