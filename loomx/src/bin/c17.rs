//! C17 (schedule part) — memory pool accounting under every interleaving.
//! Subject: the real text of execution/src/memory_pool/{mod,pool,peak_recording}.rs.
use loom::thread;
use loomx::memory_pool::{
    FairSpillPool, GreedyMemoryPool, MemoryConsumer, MemoryPool, MemoryReservation, PeakRecordingPool,
    TrackConsumersPool,
};
use loomx::orch::{Config, main_with, outcome};
use std::num::NonZeroUsize;
use std::sync::Arc;

const LIMIT: usize = 8;

fn greedy() -> Arc<dyn MemoryPool> {
    Arc::new(GreedyMemoryPool::new(LIMIT))
}

/// GA: two consumers, each its own reservation, fallible growth only; an
/// observer reads `reserved()` concurrently.  Greedy must never exceed the
/// limit; at quiescence reserved = sum of live sizes; 0 after drops.
fn cfg_ga() {
    let pool = greedy();
    let r1 = MemoryConsumer::new("a").register(&pool);
    let r2 = MemoryConsumer::new("b").register(&pool);
    let p1 = pool.clone();
    let h1 = thread::spawn(move || {
        let ok = r1.try_grow(5).is_ok();
        assert!(p1.reserved() <= LIMIT, "greedy pool over its limit through try_grow");
        if ok {
            r1.shrink(2);
        }
        (ok, r1)
    });
    let h2 = thread::spawn(move || {
        let ok = r2.try_grow(5).is_ok();
        let ok2 = r2.try_grow(3).is_ok();
        (ok, ok2, r2)
    });
    let seen = pool.reserved();
    assert!(seen <= LIMIT, "observer saw reserved() = {seen} > limit");
    let (ok1, r1) = h1.join().unwrap();
    let (ok2, ok3, r2) = h2.join().unwrap();
    assert_eq!(r1.size(), if ok1 { 3 } else { 0 });
    assert_eq!(r2.size(), (if ok2 { 5 } else { 0 }) + (if ok3 { 3 } else { 0 }));
    assert_eq!(pool.reserved(), r1.size() + r2.size(), "reserved() != sum of live reservations");
    assert!(pool.reserved() <= LIMIT);
    // a refused growth must have been impossible at *some* point: at least one grant succeeded overall
    assert!(ok1 || ok2, "both first growths of 5 refused on an empty pool of 8");
    drop(r1);
    drop(r2);
    assert_eq!(pool.reserved(), 0, "reserved() != 0 after all reservations dropped");
    outcome(format!("{ok1} {ok2} {ok3} seen={seen}"));
}

/// GS: one reservation shared by two threads (grow/shrink/free race on the
/// reservation's own atomic size vs the pool counter).
fn cfg_gs() {
    let pool = greedy();
    let r = Arc::new(MemoryConsumer::new("a").register(&pool));
    let (ra, rb) = (r.clone(), r.clone());
    let h1 = thread::spawn(move || {
        let ok = ra.try_grow(3).is_ok();
        ra.grow(1);
        ok
    });
    let h2 = thread::spawn(move || {
        let ok = rb.try_grow(4).is_ok();
        let freed = rb.free();
        (ok, freed)
    });
    let seen = pool.reserved();
    let ok1 = h1.join().unwrap();
    let (ok2, freed) = h2.join().unwrap();
    assert_eq!(pool.reserved(), r.size(), "reserved() != size of the only live reservation");
    let granted = (if ok1 { 3 } else { 0 }) + 1 + (if ok2 { 4 } else { 0 });
    assert_eq!(r.size() + freed, granted, "bytes granted != bytes held + bytes freed");
    drop(r);
    assert_eq!(pool.reserved(), 0);
    outcome(format!("{ok1} {ok2} freed={freed} seen={seen}"));
}

/// SP: split / take / new_empty racing with growth on the parent.
fn cfg_sp() {
    let pool = greedy();
    let r = Arc::new(MemoryConsumer::new("a").register(&pool));
    r.grow(4);
    let (ra, rb) = (r.clone(), r.clone());
    let h1 = thread::spawn(move || {
        let child = ra.split(3);
        let e = ra.new_empty();
        e.grow(1);
        (child, e)
    });
    let h2 = thread::spawn(move || {
        let ok = rb.try_grow(2).is_ok();
        rb.shrink(1);
        ok
    });
    let (child, e) = h1.join().unwrap();
    let ok = h2.join().unwrap();
    assert_eq!(child.size(), 3);
    assert_eq!(e.size(), 1);
    assert_eq!(r.size(), 4 - 3 - 1 + if ok { 2 } else { 0 });
    assert_eq!(pool.reserved(), r.size() + child.size() + e.size(), "reserved() != sum of live reservations after split");
    drop(child);
    assert_eq!(pool.reserved(), r.size() + e.size());
    drop(e);
    drop(r);
    assert_eq!(pool.reserved(), 0);
    outcome(format!("{ok}"));
}

/// FA: fair pool, two spillable consumers and one unspillable, separate reservations.
fn cfg_fa() {
    let pool: Arc<dyn MemoryPool> = Arc::new(FairSpillPool::new(LIMIT));
    let s1 = MemoryConsumer::new("s1").with_can_spill(true).register(&pool);
    let s2 = MemoryConsumer::new("s2").with_can_spill(true).register(&pool);
    let u = MemoryConsumer::new("u").register(&pool);
    let h1 = thread::spawn(move || {
        let a = s1.try_grow(3).is_ok();
        let b = s1.try_grow(2).is_ok();
        (a, b, s1)
    });
    let h2 = thread::spawn(move || {
        let a = s2.try_grow(4).is_ok();
        (a, s2)
    });
    let uok = u.try_grow(2).is_ok();
    let (a1, b1, s1) = h1.join().unwrap();
    let (a2, s2) = h2.join().unwrap();
    // fair share with 2 spillers: (8 - unspillable)/2, unspillable in {0, 2} during the run
    assert!(s1.size() <= LIMIT / 2, "spillable reservation {} beyond the most permissive fair share {}", s1.size(), LIMIT / 2);
    assert!(s2.size() <= LIMIT / 2);
    assert!(a1, "3 <= fair share (8-2)/2 must always be granted");
    assert_eq!(pool.reserved(), s1.size() + s2.size() + u.size(), "reserved() != sum of live reservations");
    // NOTE: the fair pool bounds each spiller by its share at grant time; the *total* may exceed the pool size
    // (e.g. s2 granted 4 of 8/2, then u granted 2, then s1 granted 3 of (8-2)/2) - not demanded by the property.
    drop(s1);
    drop(s2);
    drop(u);
    assert_eq!(pool.reserved(), 0);
    outcome(format!("{a1} {b1} {a2} {uok}"));
}

/// TC: TrackConsumersPool<Greedy>: per-consumer reserved = that consumer's reservations; peak >= current.
fn cfg_tc() {
    let tracked = Arc::new(TrackConsumersPool::new(GreedyMemoryPool::new(LIMIT), NonZeroUsize::new(3).unwrap()));
    let pool: Arc<dyn MemoryPool> = tracked.clone();
    let c1 = MemoryConsumer::new("a");
    let r1 = Arc::new(c1.register(&pool));
    let c2 = MemoryConsumer::new("b");
    let r2 = c2.register(&pool);
    let (ra, rb) = (r1.clone(), r1.clone());
    let h1 = thread::spawn(move || {
        let ok = ra.try_grow(3).is_ok();
        let child = ra.split(if ok { 2 } else { 0 });
        (ok, child)
    });
    let h2 = thread::spawn(move || {
        let ok = rb.try_grow(2).is_ok();
        if ok {
            rb.shrink(1);
        }
        let ok2 = r2.try_grow(4).is_ok();
        (ok, ok2, r2)
    });
    let (ok1, child) = h1.join().unwrap();
    let (ok2, ok3, r2) = h2.join().unwrap();
    let m = tracked.metrics();
    let get = |name: &str| m.iter().find(|x| x.name == name).map(|x| (x.reserved, x.peak));
    let (res1, peak1) = get("a").expect("consumer a tracked");
    let (res2, peak2) = get("b").expect("consumer b tracked");
    assert_eq!(res1, r1.size() + child.size(), "per-consumer usage != sum of that consumer's reservations");
    assert_eq!(res2, r2.size());
    assert!(peak1 >= res1 && peak2 >= res2, "peak below current");
    assert_eq!(pool.reserved(), r1.size() + child.size() + r2.size());
    drop(child);
    drop(r1);
    drop(r2);
    assert_eq!(pool.reserved(), 0);
    outcome(format!("{ok1} {ok2} {ok3} peaks={peak1},{peak2}"));
}

/// PK: PeakRecordingPool<Greedy>: peak >= every quiescent total, = max total.
fn cfg_pk() {
    let peak = Arc::new(PeakRecordingPool::new(greedy()));
    let pool: Arc<dyn MemoryPool> = peak.clone();
    let r1 = MemoryConsumer::new("a").register(&pool);
    let r2 = MemoryConsumer::new("b").register(&pool);
    let h1 = thread::spawn(move || {
        let ok = r1.try_grow(4).is_ok();
        if ok {
            r1.shrink(3);
        }
        (ok, r1)
    });
    let h2 = thread::spawn(move || {
        let ok = r2.try_grow(4).is_ok();
        // 4 (own) + 6 > 8 whatever the other thread does: must be refused and must change nothing
        let refused = r2.try_grow(6).is_err();
        assert!(refused, "growth beyond the limit granted");
        (ok, r2)
    });
    let (ok1, r1) = h1.join().unwrap();
    let (ok2, r2) = h2.join().unwrap();
    assert!(ok1 && ok2, "4 + 4 <= 8 must both be granted");
    let total = pool.reserved();
    assert_eq!(total, r1.size() + r2.size());
    let pk = peak.peak_reserved();
    let mx = peak.max_reserved();
    // the running total went through 4 at least, through 8 only if both grants preceded the shrink
    assert!(pk >= total && mx >= pk, "peak {pk} / max {mx} below current total {total}");
    assert!(pk >= 4 && pk <= 8, "peak {pk} outside the possible range of the running total");
    peak.reset_peak();
    assert_eq!(peak.peak_reserved(), total, "reset_peak must set the peak to the current total");
    drop(r1);
    drop(r2);
    assert_eq!(pool.reserved(), 0);
    assert_eq!(peak.peak_reserved(), total);
    assert!(peak.max_reserved() == mx);
    outcome(format!("peak={pk}"));
}

/// FS: fair pool, ONE spillable reservation shared by two threads, a second
/// spillable consumer registered (fair share = 8/2 = 4): the two concurrent
/// growths of 3 must not both be granted (3 + 3 > 4).
fn cfg_fs() {
    let pool: Arc<dyn MemoryPool> = Arc::new(FairSpillPool::new(LIMIT));
    let s1 = Arc::new(MemoryConsumer::new("s1").with_can_spill(true).register(&pool));
    let _s2 = MemoryConsumer::new("s2").with_can_spill(true).register(&pool);
    let (ra, rb) = (s1.clone(), s1.clone());
    let h1 = thread::spawn(move || ra.try_grow(3).is_ok());
    let h2 = thread::spawn(move || rb.try_grow(3).is_ok());
    let ok1 = h1.join().unwrap();
    let ok2 = h2.join().unwrap();
    assert_eq!(pool.reserved(), s1.size());
    assert!(ok1 || ok2, "3 <= fair share 4 must be granted to the first caller");
    assert!(
        s1.size() <= LIMIT / 2,
        "fair pool granted fallible growth to {} beyond the consumer's fair share {} (two threads sharing one reservation)",
        s1.size(),
        LIMIT / 2
    );
    outcome(format!("{ok1} {ok2}"));
}

static CONFIGS: &[Config] = &[
    Config { name: "GA", desc: "Greedy(8): two consumers with own reservations (try_grow/shrink), observer reads reserved()", bound: (None, None), body: cfg_ga },
    Config { name: "GS", desc: "Greedy(8): one reservation shared by two threads (try_grow/grow vs try_grow/free)", bound: (None, None), body: cfg_gs },
    Config { name: "SP", desc: "Greedy(8): split/new_empty on a shared reservation racing with try_grow/shrink", bound: (None, None), body: cfg_sp },
    Config { name: "FA", desc: "FairSpill(8): two spillable consumers + one unspillable, separate reservations", bound: (None, None), body: cfg_fa },
    Config { name: "TC", desc: "TrackConsumers<Greedy(8)>: shared reservation + split + second consumer; metrics() per consumer", bound: (None, None), body: cfg_tc },
    Config { name: "PK", desc: "PeakRecording<Greedy(8)>: two consumers; peak/max vs running total; reset_peak", bound: (None, None), body: cfg_pk },
    Config { name: "FS", desc: "FairSpill(8): one spillable reservation shared by two threads, each try_grow(3) with fair share 4", bound: (None, None), body: cfg_fs },
];

fn main() {
    main_with(
        "C17",
        "loom DPOR over the real memory_pool/{mod,pool,peak_recording}.rs: every interleaving (up to the stated preemption bound) of 2 worker threads + main observer operating on reservations (own, shared through Arc, split); \
         oracle at quiescence: reserved() = sum of live reservation sizes, 0 after all drops, greedy/fair never over the limit through fallible growth, per-consumer metrics = that consumer's reservations, peak >= current; \
         evaluations/transitions = complete schedules, states/distinct = distinct outcome vectors (which growths were granted, observed values)",
        CONFIGS,
    )
}
