//! C31 (object part) — concurrent update/read interleavings of the dynamic filter object.
//! Subject: the real text of physical-expr/src/expressions/dynamic_filters/mod.rs
//! (its parking_lot RwLocks routed to loom; tokio::sync::watch stays opaque).
use datafusion_expr::Operator;
use datafusion_physical_expr::expressions::{BinaryExpr, Column, lit};
use datafusion_physical_expr_common::physical_expr::PhysicalExpr;
use loom::thread;
use loomx::dynamic_filters::DynamicFilterPhysicalExpr;
use loomx::orch::{Config, main_with, outcome};
use std::sync::Arc;

fn col(name: &str, idx: usize) -> Arc<dyn PhysicalExpr> {
    Arc::new(Column::new(name, idx))
}
/// predicate published at logical step g: `a@0 > g`
fn pred(g: i64) -> Arc<dyn PhysicalExpr> {
    Arc::new(BinaryExpr::new(col("a", 0), Operator::Gt, lit(g)))
}
/// parse "a@<idx> > <g>" -> (idx, g)
fn parse(e: &Arc<dyn PhysicalExpr>) -> (usize, i64) {
    let s = format!("{e}");
    let (l, r) = s.split_once(" > ").unwrap_or_else(|| panic!("unexpected filter text {s}"));
    let idx = l.trim_start_matches("a@").parse().unwrap_or_else(|_| panic!("unexpected column {s}"));
    (idx, r.trim().parse().unwrap_or_else(|_| panic!("unexpected literal {s}")))
}

/// One read: generation before, expression, generation after.
/// The filter starts at generation 1 with literal 1; update k publishes
/// literal k+1 as generation k+1, so literal == generation of the expression.
fn read(f: &Arc<DynamicFilterPhysicalExpr>, want_col: usize) -> (u64, i64, u64) {
    let g0 = f.snapshot_generation();
    let e = f.current().expect("current()");
    let g1 = f.snapshot_generation();
    let (c, lit) = parse(&e);
    assert_eq!(c, want_col, "children were not remapped in the returned expression");
    assert!(
        lit as u64 >= g0,
        "read returned generation {lit}, older than generation {g0} visible when the read started"
    );
    assert!(lit as u64 <= g1, "read returned generation {lit} that was not yet published (after-read generation {g1})");
    (g0, lit, g1)
}

fn reader(f: Arc<DynamicFilterPhysicalExpr>, want_col: usize) -> Vec<i64> {
    let (_, a, _) = read(&f, want_col);
    let (_, b, _) = read(&f, want_col);
    assert!(b >= a, "a later read returned an older generation ({a} then {b})");
    vec![a, b]
}

fn updater(f: Arc<DynamicFilterPhysicalExpr>, n: i64) {
    for g in 2..=n {
        f.update(pred(g)).expect("update");
    }
    f.mark_complete();
}

/// same object read by two threads while a third updates twice
fn cfg_same() {
    let f = Arc::new(DynamicFilterPhysicalExpr::new(vec![col("a", 0)], pred(1)));
    let (f1, f2, f3) = (f.clone(), f.clone(), f.clone());
    let u = thread::spawn(move || updater(f1, 3));
    let r1 = thread::spawn(move || reader(f2, 0));
    let a = reader(f3, 0);
    let b = r1.join().unwrap();
    u.join().unwrap();
    let (_, last, g) = read(&f, 0);
    assert_eq!((last, g), (3, 3), "after completion every read returns the last generation");
    outcome(format!("{a:?} {b:?}"));
}

/// two `with_new_children` derivatives (own caches, shared inner) with remapped columns
fn cfg_derived() {
    let f = Arc::new(DynamicFilterPhysicalExpr::new(vec![col("a", 0)], pred(1)));
    let as_expr: Arc<dyn PhysicalExpr> = f.clone();
    let d1 = as_expr.clone().with_new_children(vec![col("a", 1)]).unwrap();
    let d2 = as_expr.with_new_children(vec![col("a", 2)]).unwrap();
    let down = |e: Arc<dyn PhysicalExpr>| -> Arc<DynamicFilterPhysicalExpr> {
        let any: Arc<dyn std::any::Any + Send + Sync> = e;
        any.downcast::<DynamicFilterPhysicalExpr>().expect("derived filter type")
    };
    let (d1, d2) = (down(d1), down(d2));
    let fu = f.clone();
    let u = thread::spawn(move || updater(fu, 2));
    let r1 = thread::spawn(move || reader(d1, 1));
    let a = reader(d2.clone(), 2);
    let b = r1.join().unwrap();
    u.join().unwrap();
    let (_, last, _) = read(&d2, 2);
    assert_eq!(last, 2);
    outcome(format!("{a:?} {b:?}"));
}

/// one derivative shared by two readers (shared cache) + updater
fn cfg_shared_cache() {
    let f = Arc::new(DynamicFilterPhysicalExpr::new(vec![col("a", 0)], pred(1)));
    let as_expr: Arc<dyn PhysicalExpr> = f.clone();
    let d = as_expr.with_new_children(vec![col("a", 1)]).unwrap();
    let any: Arc<dyn std::any::Any + Send + Sync> = d;
    let d = any.downcast::<DynamicFilterPhysicalExpr>().expect("derived filter type");
    let (d1, d2) = (d.clone(), d.clone());
    let fu = f.clone();
    let u = thread::spawn(move || updater(fu, 3));
    let r1 = thread::spawn(move || reader(d1, 1));
    let a = reader(d2, 1);
    let b = r1.join().unwrap();
    u.join().unwrap();
    let (_, last, _) = read(&d, 1);
    assert_eq!(last, 3);
    outcome(format!("{a:?} {b:?}"));
}

static CONFIGS: &[Config] = &[
    Config { name: "same", desc: "one filter object: updater (2 updates + mark_complete) vs two readers (2 bracketed current() each)", bound: (Some(4), Some(6)), body: cfg_same },
    Config { name: "derived", desc: "two with_new_children derivatives (own caches, shared inner, remapped column): updater (1 update) vs one reader per derivative", bound: (Some(4), Some(7)), body: cfg_derived },
    Config { name: "shared-cache", desc: "one derivative (one cache) read by two threads while the original is updated twice", bound: (Some(4), Some(6)), body: cfg_shared_cache },
];

fn main() {
    main_with(
        "C31",
        "loom DPOR over the real dynamic_filters/mod.rs: every interleaving (up to the stated preemption bound) of one updater (update x1-2, mark_complete) and two readers calling current() twice each, bracketed by snapshot_generation(); \
         oracle: the returned expression is exactly the (column-remapped) expression of one published generation g with g_before <= g <= g_after, per-reader results are monotone, after completion the last generation is returned; \
         evaluations/transitions = complete schedules, states/distinct = distinct vectors of generations observed by the readers",
        CONFIGS,
    )
}
