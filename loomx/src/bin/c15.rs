//! C15 — exchange (distribution) channels under every interleaving.
//! Subject: the real text of physical-plan/src/repartition/distributor_channels.rs.
use loom::future::block_on;
use loom::sync::atomic::{AtomicBool, Ordering};
use loom::thread;
use loomx::distributor_channels::{DistributionReceiver, DistributionSender, channels, partition_aware_channels};
use loomx::orch::{Config, Traced, main_with, outcome};
use std::sync::Arc;

async fn drain(mut rx: DistributionReceiver<u32>) -> Vec<u32> {
    let mut got = vec![];
    while let Some(v) = rx.recv().await {
        got.push(v);
    }
    got
}

/// Sends `vals` on `tx`; returns (per-send Ok?, per-send "first poll was Pending").
async fn send_all(tx: &DistributionSender<u32>, vals: &[u32]) -> (Vec<bool>, Vec<bool>) {
    let mut oks = vec![];
    let mut pend = vec![];
    for v in vals {
        let (f, flag) = Traced::new(tx.send(*v));
        let r = f.await;
        if let Err(e) = &r {
            assert_eq!(e.0, *v, "SendError must hand back the value that was not sent");
        }
        oks.push(r.is_ok());
        pend.push(flag.load(std::sync::atomic::Ordering::Relaxed));
    }
    (oks, pend)
}

fn is_interleaving_of(got: &[u32], a: &[u32], b: &[u32]) -> bool {
    // got must contain exactly a ∪ b with each sub-sequence in order
    let ga: Vec<u32> = got.iter().cloned().filter(|x| a.contains(x)).collect();
    let gb: Vec<u32> = got.iter().cloned().filter(|x| b.contains(x)).collect();
    ga == a && gb == b && got.len() == a.len() + b.len()
}

/// A: two channels, one sender thread each (2 sends), main drains both receivers concurrently.
fn cfg_a() {
    let (txs, rxs) = channels::<u32>(2);
    let mut hs = vec![];
    for (i, tx) in txs.into_iter().enumerate() {
        hs.push(thread::spawn(move || {
            let vals = [i as u32 * 10 + 1, i as u32 * 10 + 2];
            let r = block_on(send_all(&tx, &vals));
            drop(tx);
            r
        }));
    }
    let mut it = rxs.into_iter();
    let (rx0, rx1) = (it.next().unwrap(), it.next().unwrap());
    let (g0, g1) = block_on(async { futures::join!(drain(rx0), drain(rx1)) });
    let rs: Vec<_> = hs.into_iter().map(|h| h.join().unwrap()).collect();
    assert_eq!(g0, vec![1, 2], "channel 0 must deliver its values exactly once in order");
    assert_eq!(g1, vec![11, 12], "channel 1 must deliver its values exactly once in order");
    for (oks, _) in &rs {
        assert!(oks.iter().all(|x| *x), "send failed although the receiver was alive");
    }
    outcome(format!("{:?}", rs.iter().map(|r| &r.1).collect::<Vec<_>>()));
}

/// B: one channel, sender + clone in two threads (2 sends each), main drains.
fn cfg_b() {
    let (mut txs, mut rxs) = channels::<u32>(1);
    let tx0 = txs.pop().unwrap();
    let tx1 = tx0.clone();
    let rx = rxs.pop().unwrap();
    let h0 = thread::spawn(move || {
        let r = block_on(send_all(&tx0, &[1, 2]));
        drop(tx0);
        r
    });
    let h1 = thread::spawn(move || {
        let r = block_on(send_all(&tx1, &[11, 12]));
        drop(tx1);
        r
    });
    let got = block_on(drain(rx));
    let r0 = h0.join().unwrap();
    let r1 = h1.join().unwrap();
    assert!(is_interleaving_of(&got, &[1, 2], &[11, 12]), "per-sender FIFO / exactly-once violated: {got:?}");
    assert!(r0.0.iter().chain(r1.0.iter()).all(|x| *x), "send failed although the receiver was alive");
    outcome(format!("{got:?} {:?} {:?}", r0.1, r1.1));
}

/// C: receiver 0 takes one value then is dropped while sender 0 keeps sending;
/// sender 1 (possibly parked behind the closed gate) must still complete.
fn cfg_c() {
    let (txs, rxs) = channels::<u32>(2);
    let mut txs = txs.into_iter();
    let (tx0, tx1) = (txs.next().unwrap(), txs.next().unwrap());
    let mut rxs = rxs.into_iter();
    let (mut rx0, rx1) = (rxs.next().unwrap(), rxs.next().unwrap());
    let dropping = Arc::new(AtomicBool::new(false));
    let d2 = dropping.clone();
    let h0 = thread::spawn(move || {
        block_on(async {
            let mut oks = vec![];
            for v in [1u32, 2, 3] {
                let r = tx0.send(v).await;
                if r.is_err() {
                    assert!(d2.load(Ordering::SeqCst), "send failed before the receiver began to drop");
                }
                oks.push(r.is_ok());
            }
            oks
        })
    });
    let h1 = thread::spawn(move || {
        let r = block_on(send_all(&tx1, &[11, 12]));
        drop(tx1);
        r
    });
    let first = block_on(rx0.recv());
    dropping.store(true, Ordering::SeqCst);
    drop(rx0);
    let g1 = block_on(drain(rx1));
    let oks0 = h0.join().unwrap();
    let r1 = h1.join().unwrap();
    assert_eq!(first, Some(1), "first value of channel 0");
    assert_eq!(g1, vec![11, 12]);
    assert!(oks0[0], "the delivered value's send must have succeeded");
    // once a send failed every later one fails
    let first_err = oks0.iter().position(|x| !*x).unwrap_or(oks0.len());
    assert!(oks0[first_err..].iter().all(|x| !*x), "send succeeded after a failure: {oks0:?}");
    assert!(r1.0.iter().all(|x| *x));
    outcome(format!("{oks0:?} {:?}", r1.1));
}

/// D: both ends of an *empty* channel 0 are dropped concurrently (the
/// drop-order rule for the empty-channel counter); channel 1 must keep working:
/// with the counter double-decremented the gate would close on an empty channel
/// and the sender would park forever (loom: deadlock).
fn cfg_d() {
    let (txs, rxs) = channels::<u32>(2);
    let mut txs = txs.into_iter();
    let (tx0, tx1) = (txs.next().unwrap(), txs.next().unwrap());
    let mut rxs = rxs.into_iter();
    let (rx0, rx1) = (rxs.next().unwrap(), rxs.next().unwrap());
    let h0 = thread::spawn(move || drop(tx0));
    let h1 = thread::spawn(move || {
        let r = block_on(send_all(&tx1, &[11, 12, 13]));
        drop(tx1);
        r
    });
    drop(rx0);
    let g1 = block_on(drain(rx1));
    h0.join().unwrap();
    let r1 = h1.join().unwrap();
    assert_eq!(g1, vec![11, 12, 13]);
    assert!(r1.0.iter().all(|x| *x));
    outcome(format!("{:?}", r1.1));
}

/// E: a sender clone is dropped without sending while the original still
/// sends; the receiver may see `None` only after both are gone.
fn cfg_e() {
    let (mut txs, mut rxs) = channels::<u32>(1);
    let tx0 = txs.pop().unwrap();
    let tx1 = tx0.clone();
    let rx = rxs.pop().unwrap();
    let all_gone = Arc::new(loom::sync::atomic::AtomicUsize::new(0));
    let (a0, a1) = (all_gone.clone(), all_gone.clone());
    let h0 = thread::spawn(move || {
        let r = block_on(send_all(&tx0, &[1, 2]));
        a0.fetch_add(1, Ordering::SeqCst);
        drop(tx0);
        r
    });
    let h1 = thread::spawn(move || {
        a1.fetch_add(1, Ordering::SeqCst);
        drop(tx1);
    });
    let got = block_on(drain(rx));
    // `None` was observed: both senders must at least have *started* dropping
    assert_eq!(all_gone.load(Ordering::SeqCst), 2, "end-of-stream before every sender was dropped");
    let r0 = h0.join().unwrap();
    h1.join().unwrap();
    assert_eq!(got, vec![1, 2]);
    assert!(r0.0.iter().all(|x| *x));
    outcome(format!("{:?}", r0.1));
}

/// F: partition-aware channels (2 inputs × 2 outputs): each input thread sends
/// one value to each output; main drains all four receivers concurrently.
fn cfg_f() {
    let (txs, rxs) = partition_aware_channels::<u32>(2, 2);
    let mut hs = vec![];
    for (i, tx_row) in txs.into_iter().enumerate() {
        hs.push(thread::spawn(move || {
            block_on(async {
                let mut pend = vec![];
                for (j, tx) in tx_row.iter().enumerate() {
                    let (f, flag) = Traced::new(tx.send((i * 10 + j) as u32));
                    assert!(f.await.is_ok());
                    pend.push(flag.load(std::sync::atomic::Ordering::Relaxed));
                }
                drop(tx_row);
                pend
            })
        }));
    }
    let mut flat: Vec<DistributionReceiver<u32>> = rxs.into_iter().flatten().collect();
    let (r11, r10, r01, r00) = (flat.pop().unwrap(), flat.pop().unwrap(), flat.pop().unwrap(), flat.pop().unwrap());
    let (a, b, c, d) = block_on(async { futures::join!(drain(r00), drain(r01), drain(r10), drain(r11)) });
    let ps: Vec<_> = hs.into_iter().map(|h| h.join().unwrap()).collect();
    assert_eq!((a, b, c, d), (vec![0], vec![1], vec![10], vec![11]));
    outcome(format!("{ps:?}"));
}

/// G: gate closure with a slow receiver: one sender thread fills both channels
/// and tries a third send (must park); two receiver threads each take from one
/// channel. Whoever empties a channel first must wake the sender.
fn cfg_g() {
    let (txs, rxs) = channels::<u32>(2);
    let mut rxs = rxs.into_iter();
    let (rx0, rx1) = (rxs.next().unwrap(), rxs.next().unwrap());
    let hs = thread::spawn(move || {
        block_on(async {
            let mut pend = vec![];
            for (c, v) in [(0usize, 1u32), (1, 11), (0, 2), (1, 12)] {
                let (f, flag) = Traced::new(txs[c].send(v));
                assert!(f.await.is_ok());
                pend.push(flag.load(std::sync::atomic::Ordering::Relaxed));
            }
            drop(txs);
            pend
        })
    });
    let h1 = thread::spawn(move || block_on(drain(rx1)));
    let g0 = block_on(drain(rx0));
    let g1 = h1.join().unwrap();
    let p = hs.join().unwrap();
    assert_eq!(g0, vec![1, 2]);
    assert_eq!(g1, vec![11, 12]);
    outcome(format!("{p:?}"));
}

/// H: both channels non-empty (gate closed), sender 0 parked on its second send;
/// receiver 0 is dropped *without* receiving: the parked sender of the closed
/// channel must be woken (and fail) even though the gate stays closed — main
/// joins it before draining channel 1.
fn cfg_h() {
    let (txs, rxs) = channels::<u32>(2);
    let mut txs = txs.into_iter();
    let (tx0, tx1) = (txs.next().unwrap(), txs.next().unwrap());
    let mut rxs = rxs.into_iter();
    let (rx0, rx1) = (rxs.next().unwrap(), rxs.next().unwrap());
    let h0 = thread::spawn(move || {
        let r = block_on(send_all(&tx0, &[1, 2]));
        drop(tx0);
        r
    });
    let h1 = thread::spawn(move || {
        let r = block_on(send_all(&tx1, &[11]));
        drop(tx1);
        r
    });
    let r1 = h1.join().unwrap();
    drop(rx0);
    let r0 = h0.join().unwrap(); // must not hang
    let g1 = block_on(drain(rx1));
    assert_eq!(g1, vec![11]);
    assert!(r1.0[0]);
    outcome(format!("{:?} {:?}", r0, r1.1));
}

/// I: gate closed with TWO parked senders of the same channel (a sender and its
/// clone); receiver 0 is dropped without receiving while the gate stays closed:
/// every parked sender of the closed channel must be woken (and fail).
fn cfg_i() {
    let (txs, rxs) = channels::<u32>(2);
    let mut txs = txs.into_iter();
    let (tx0, tx1) = (txs.next().unwrap(), txs.next().unwrap());
    let mut rxs = rxs.into_iter();
    let (rx0, rx1) = (rxs.next().unwrap(), rxs.next().unwrap());
    // close the gate from the main thread: both channels non-empty
    block_on(async {
        assert!(tx1.send(11).await.is_ok());
        assert!(tx0.send(1).await.is_ok());
    });
    let tx0b = tx0.clone();
    let ha = thread::spawn(move || {
        let r = block_on(send_all(&tx0, &[2]));
        drop(tx0);
        r
    });
    let hb = thread::spawn(move || {
        let r = block_on(send_all(&tx0b, &[3]));
        drop(tx0b);
        r
    });
    drop(rx0);
    let ra = ha.join().unwrap(); // must not hang
    let rb = hb.join().unwrap(); // must not hang
    drop(tx1);
    let g1 = block_on(drain(rx1));
    assert_eq!(g1, vec![11]);
    outcome(format!("{:?} {:?}", ra, rb));
}

static CONFIGS: &[Config] = &[
    Config { name: "A", desc: "channels(2): 2 sender threads x 2 sends, main drains both receivers concurrently", bound: (Some(2), Some(3)), body: cfg_a },
    Config { name: "B", desc: "channels(1): sender + clone in 2 threads x 2 sends, main drains (per-sender FIFO, exactly once)", bound: (Some(1), Some(2)), body: cfg_b },
    Config { name: "C", desc: "channels(2): receiver 0 dropped after one value while sender 0 keeps sending; sender 1 behind the gate must finish", bound: (Some(3), Some(4)), body: cfg_c },
    Config { name: "D", desc: "channels(2): both ends of empty channel 0 dropped concurrently; channel 1 keeps working (counter drop-order rule)", bound: (Some(3), Some(4)), body: cfg_d },
    Config { name: "E", desc: "channels(1): clone dropped without sending while original sends; None only after all senders gone", bound: (Some(4), Some(5)), body: cfg_e },
    Config { name: "F", desc: "partition_aware_channels(2,2): 2 input threads, main drains 4 receivers", bound: (Some(2), Some(3)), body: cfg_f },
    Config { name: "G", desc: "channels(2): one sender fills both channels and parks on the gate; two receiver threads; whoever empties first must wake it", bound: (Some(2), Some(3)), body: cfg_g },
    Config { name: "H", desc: "channels(2): gate closed, sender 0 parked; receiver 0 dropped without receiving must wake it (SendError) although the gate stays closed", bound: (Some(3), Some(5)), body: cfg_h },
    Config { name: "I", desc: "channels(2): gate closed, a sender AND its clone both parked on channel 0; receiver 0 dropped without receiving must wake both", bound: (Some(3), Some(5)), body: cfg_i },
];

fn main() {
    main_with(
        "C15",
        "loom DPOR over the real distributor_channels.rs: every interleaving (up to the stated preemption bound per configuration) of sender/receiver/drop threads; \
         oracle per schedule at join: exactly-once + per-sender FIFO delivery, None only after all senders dropped, SendError only after receiver drop began, loom deadlock detection = liveness; \
         evaluations/transitions = complete schedules explored, states/distinct = distinct observed outcome vectors (which sends parked on the gate, send results, delivered order)",
        CONFIGS,
    )
}
