//! In-memory, fault-injecting stand-ins for `SpillManager` / `InProgressSpillFile`
//! with the method signatures `spill_pool.rs` uses.  A "file" is an append-only
//! list of batches; the unbuffered read stream returns batch *i* iff it has been
//! appended, else end-of-stream (which the code under test turns into a visible
//! early EOF, exactly as a short read of a real file would).  Internal state
//! uses `std` locks held only for the duration of one call: they add no
//! scheduling points and no happens-before edges that real file I/O would not
//! have.
use arrow::datatypes::SchemaRef;
use arrow::record_batch::RecordBatch;
use datafusion_common::{DataFusionError, Result};
use datafusion_execution::{RecordBatchStream, SendableRecordBatchStream, SpillFile};
use futures::Stream;
use std::pin::Pin;
use std::sync::atomic::{AtomicUsize, Ordering};
use std::sync::{Arc, Mutex};
use std::task::{Context, Poll};

type Content = Arc<Mutex<Vec<RecordBatch>>>;

/// Which call (0-based, counted over the whole pool) of each operation fails.
#[derive(Clone, Copy, Default, Debug)]
pub struct Faults {
    pub create: Option<usize>,
    pub append: Option<usize>,
    pub flush: Option<usize>,
    pub finish: Option<usize>,
}

#[derive(Default)]
struct Counters {
    create: AtomicUsize,
    append: AtomicUsize,
    flush: AtomicUsize,
    finish: AtomicUsize,
}

pub struct MemFile {
    content: Content,
}

impl SpillFile for MemFile {
    fn size(&self) -> Option<u64> {
        None
    }
    fn read_stream(
        &self,
    ) -> Result<Pin<Box<dyn Stream<Item = Result<bytes::Bytes>> + Send>>> {
        Err(DataFusionError::Internal("MemFile::read_stream is not used".into()))
    }
    fn open_writer(&self) -> Result<Box<dyn datafusion_execution::SpillWriter>> {
        Err(DataFusionError::Internal("MemFile::open_writer is not used".into()))
    }
}

pub struct SpillManager {
    schema: SchemaRef,
    faults: Faults,
    counters: Arc<Counters>,
    /// registry: address of the `Arc<dyn SpillFile>` allocation -> content
    registry: Mutex<Vec<(usize, Content)>>,
}

fn fail(n: &AtomicUsize, at: Option<usize>, what: &str) -> Result<()> {
    let k = n.fetch_add(1, Ordering::Relaxed);
    if Some(k) == at {
        return Err(DataFusionError::ResourcesExhausted(format!("injected failure of {what} #{k}")));
    }
    Ok(())
}

impl SpillManager {
    pub fn new(schema: SchemaRef, faults: Faults) -> Self {
        SpillManager { schema, faults, counters: Arc::new(Counters::default()), registry: Mutex::new(vec![]) }
    }
    pub fn schema(&self) -> &SchemaRef {
        &self.schema
    }
    pub fn create_in_progress_file(&self, _request: &str) -> Result<InProgressSpillFile> {
        fail(&self.counters.create, self.faults.create, "create_in_progress_file")?;
        let content: Content = Arc::new(Mutex::new(vec![]));
        let file: Arc<dyn SpillFile> = Arc::new(MemFile { content: content.clone() });
        self.registry.lock().unwrap().push((Arc::as_ptr(&file) as *const () as usize, content.clone()));
        Ok(InProgressSpillFile {
            file: Some(file),
            content,
            faults: self.faults,
            counters: self.counters.clone(),
            finished: false,
        })
    }
    pub fn read_spill_as_stream_unbuffered(
        &self,
        file: Arc<dyn SpillFile>,
        _max_record_batch_memory: Option<usize>,
    ) -> Result<SendableRecordBatchStream> {
        let key = Arc::as_ptr(&file) as *const () as usize;
        let content = self
            .registry
            .lock()
            .unwrap()
            .iter()
            .rev() // an address can be reused after a file was freed: the latest registration is the live one
            .find(|(k, _)| *k == key)
            .map(|(_, c)| c.clone())
            .expect("unknown spill file");
        Ok(Box::pin(MemReadStream { schema: self.schema.clone(), content, next: 0, _keep: file }))
    }
    /// Total batches ever appended (for oracles).
    pub fn appended(&self) -> usize {
        self.registry.lock().unwrap().iter().map(|(_, c)| c.lock().unwrap().len()).sum()
    }
}

pub struct InProgressSpillFile {
    file: Option<Arc<dyn SpillFile>>,
    content: Content,
    faults: Faults,
    counters: Arc<Counters>,
    finished: bool,
}

impl InProgressSpillFile {
    pub fn append_batch(&mut self, batch: &RecordBatch) -> Result<usize> {
        assert!(!self.finished, "append_batch after finish");
        fail(&self.counters.append, self.faults.append, "append_batch")?;
        self.content.lock().unwrap().push(batch.clone());
        Ok(batch.get_array_memory_size())
    }
    pub fn flush(&mut self) -> Result<()> {
        fail(&self.counters.flush, self.faults.flush, "flush")
    }
    pub fn file(&self) -> Option<&Arc<dyn SpillFile>> {
        self.file.as_ref()
    }
    pub fn finish(&mut self) -> Result<Option<Arc<dyn SpillFile>>> {
        fail(&self.counters.finish, self.faults.finish, "finish")?;
        self.finished = true;
        Ok(self.file.take())
    }
}

struct MemReadStream {
    schema: SchemaRef,
    content: Content,
    next: usize,
    _keep: Arc<dyn SpillFile>,
}

impl Stream for MemReadStream {
    type Item = Result<RecordBatch>;
    fn poll_next(mut self: Pin<&mut Self>, _cx: &mut Context<'_>) -> Poll<Option<Self::Item>> {
        let b = self.content.lock().unwrap().get(self.next).cloned();
        match b {
            Some(b) => {
                self.next += 1;
                Poll::Ready(Some(Ok(b)))
            }
            None => Poll::Ready(None),
        }
    }
}

impl RecordBatchStream for MemReadStream {
    fn schema(&self) -> SchemaRef {
        self.schema.clone()
    }
}
