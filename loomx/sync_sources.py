#!/usr/bin/env python3
"""Copy the real source text of the concurrency cores out of the repository into
loomx/src/gen/ and apply a fixed, audited list of *import* rewrites so that the
synchronisation primitives resolve to loom's.  Function bodies stay
byte-identical, so a property-breaking edit in the repository is what loom
explores.  Every rewrite must match exactly the expected number of times and no
un-rewritten `std::sync::atomic` / real `parking_lot` path may survive; otherwise
this script fails (the caller reports a machinery error, never a verdict).

REPO root is taken from $VERIF_REPO (default /repo).
"""
import os, re, sys

REPO = os.environ.get("VERIF_REPO", "/repo")
HERE = os.path.dirname(os.path.abspath(__file__))
GEN = os.path.join(HERE, "src", "gen")


class Fail(Exception):
    pass


def sub(text, old, new, count, what):
    n = text.count(old)
    if n != count:
        raise Fail(f"{what}: expected {count} occurrence(s) of {old!r}, found {n}")
    return text.replace(old, new)


def strip_test_modules(text):
    """Drop trailing `#[cfg(test)] mod …` blocks (never compiled in our bins anyway;
    removed so that dev-dependencies they import are not needed)."""
    m = re.search(r"\n#\[cfg\(test\)\]\nmod \w+ \{", text)
    if m:
        return text[: m.start()] + "\n"
    return text


def distributor_channels():
    src = open(f"{REPO}/datafusion/physical-plan/src/repartition/distributor_channels.rs").read()
    src = strip_test_modules(src)
    src = sub(src,
              "    sync::{\n        Arc,\n        atomic::{AtomicUsize, Ordering},\n    },\n",
              "    sync::Arc,\n", 1, "distributor_channels std::sync import")
    src = sub(src, "use parking_lot::Mutex;\n",
              "use parking_lot::Mutex; // = loomx shim over loom::sync::Mutex\nuse loom::sync::atomic::{AtomicUsize, Ordering};\n",
              1, "distributor_channels parking_lot import")
    if "std::sync::atomic" in src or "sync::atomic" in src.replace("loom::sync::atomic", ""):
        raise Fail("distributor_channels: an un-rewritten atomic path survives")
    return {"distributor_channels.rs": src}


def memory_pool():
    base = f"{REPO}/datafusion/execution/src/memory_pool"
    out = {}
    # mod.rs ---------------------------------------------------------------
    src = strip_test_modules(open(f"{base}/mod.rs").read())
    src = sub(src, "use std::{cmp::Ordering, sync::Arc, sync::atomic};\n",
              "use std::{cmp::Ordering, sync::Arc};\nuse loom::sync::atomic; // loom atomics for MemoryReservation::size\n",
              1, "memory_pool/mod.rs std import")
    # the process-wide id counter must be a `static`: loom atomics are not const; ids are not part of the property
    src = sub(src, "        static ID: atomic::AtomicUsize = atomic::AtomicUsize::new(0);\n",
              "        static ID: std::sync::atomic::AtomicUsize = std::sync::atomic::AtomicUsize::new(0);\n",
              1, "memory_pool/mod.rs static ID")
    if "std::sync::atomic" in src.replace("static ID: std::sync::atomic::AtomicUsize = std::sync::atomic::AtomicUsize::new(0);", ""):
        raise Fail("memory_pool/mod.rs: an un-rewritten std atomic path survives")
    out["memory_pool/mod.rs"] = src
    # pool.rs --------------------------------------------------------------
    src = strip_test_modules(open(f"{base}/pool.rs").read())
    src = sub(src, "use std::{\n    num::NonZeroUsize,\n    sync::atomic::{AtomicUsize, Ordering},\n};\n",
              "use std::num::NonZeroUsize;\nuse loom::sync::atomic::{AtomicUsize, Ordering};\n",
              1, "memory_pool/pool.rs std import")
    src = sub(src, "use parking_lot::Mutex;\n", "use parking_lot::Mutex; // = loomx shim over loom::sync::Mutex\n", 1,
              "memory_pool/pool.rs parking_lot import")
    if "std::sync::atomic" in src or "sync::atomic" in src.replace("loom::sync::atomic", ""):
        raise Fail("memory_pool/pool.rs: an un-rewritten atomic path survives")
    out["memory_pool/pool.rs"] = src
    # peak_recording.rs ----------------------------------------------------
    src = strip_test_modules(open(f"{base}/peak_recording.rs").read())
    src = sub(src, "    sync::{\n        Arc,\n        atomic::{AtomicUsize, Ordering},\n    },\n};\n",
              "    sync::Arc,\n};\nuse loom::sync::atomic::{AtomicUsize, Ordering};\n",
              1, "memory_pool/peak_recording.rs std import")
    if "sync::atomic" in src.replace("loom::sync::atomic", ""):
        raise Fail("memory_pool/peak_recording.rs: an un-rewritten atomic path survives")
    out["memory_pool/peak_recording.rs"] = src
    return out


def spill_pool():
    src = open(f"{REPO}/datafusion/physical-plan/src/spill/spill_pool.rs").read()
    src = strip_test_modules(src)
    src = sub(src, "use parking_lot::Mutex;\n", "use parking_lot::Mutex; // = loomx shim over loom::sync::Mutex\n", 1,
              "spill_pool parking_lot import")
    src = sub(src, "use super::in_progress_spill_file::InProgressSpillFile;\n",
              "use crate::spill_env::InProgressSpillFile; // in-memory, fault-injecting stand-in (same method signatures)\n", 1,
              "spill_pool InProgressSpillFile import")
    src = sub(src, "use super::spill_manager::SpillManager;\n",
              "use crate::spill_env::SpillManager; // in-memory, fault-injecting stand-in (same method signatures)\n", 1,
              "spill_pool SpillManager import")
    if "std::sync::atomic" in src or "std::sync::Mutex" in src or "std::sync::RwLock" in src:
        raise Fail("spill_pool: unexpected std synchronisation primitive")
    return {"spill_pool.rs": src}


def dynamic_filters():
    base = f"{REPO}/datafusion/physical-expr/src/expressions/dynamic_filters"
    out = {}
    src = strip_test_modules(open(f"{base}/mod.rs").read())
    # parking_lot::RwLock resolves to the loomx shim through cargo's dependency renaming (no text change);
    # `crate::PhysicalExpr` resolves to the re-export at the root of the loomx crate.
    sub(src, "use parking_lot::RwLock;\n", "", 1, "dynamic_filters parking_lot import")
    sub(src, "use crate::PhysicalExpr;\n", "", 1, "dynamic_filters crate::PhysicalExpr import")
    # the only atomic is the process-wide expression-id source (a `static`, const-initialised): stays on std
    sub(src, "use std::sync::atomic::{AtomicU64, Ordering};\n", "", 1, "dynamic_filters atomic import")
    if src.count("AtomicU64") != 3:
        raise Fail(f"dynamic_filters: AtomicU64 is used in {src.count('AtomicU64')} places, expected 3 (import + id counter only)")
    out["dynamic_filters/mod.rs"] = src
    src = strip_test_modules(open(f"{base}/tracker.rs").read())
    out["dynamic_filters/tracker.rs"] = src
    return out


def main():
    os.makedirs(GEN, exist_ok=True)
    files = {}
    try:
        for f in GENERATORS:
            files.update(f())
    except (Fail, FileNotFoundError) as e:
        print(f"sync_sources: {e}")
        sys.exit(2)
    for name, text in files.items():
        path = os.path.join(GEN, name)
        os.makedirs(os.path.dirname(path), exist_ok=True)
        old = open(path).read() if os.path.exists(path) else None
        if old != text:  # keep mtime stable when unchanged (no needless rebuild)
            open(path, "w").write(text)
    print(f"sync_sources: {len(files)} file(s) in {GEN}")


GENERATORS = [distributor_channels, memory_pool, spill_pool, dynamic_filters]

if __name__ == "__main__":
    main()
