#!/usr/bin/env python3
"""Copy the real source text of the concurrency cores out of the repository into
loomx/src/gen/ and apply a fixed, audited list of *import* rewrites so that the
synchronisation primitives resolve to loom's.  Function bodies stay
byte-identical, so a property-breaking edit in the repository is what loom
explores.  Every rewrite must match exactly the expected number of times and no
un-rewritten `std::sync::atomic` / real `parking_lot` path may survive; otherwise
this script fails (the caller reports a machinery error, never a verdict).

REPO root is taken from $VERIF_REPO (default /repo).
"""
import os, re, sys

REPO = os.environ.get("VERIF_REPO", "/repo")
HERE = os.path.dirname(os.path.abspath(__file__))
GEN = os.path.join(HERE, "src", "gen")


class Fail(Exception):
    pass


def sub(text, old, new, count, what):
    n = text.count(old)
    if n != count:
        raise Fail(f"{what}: expected {count} occurrence(s) of {old!r}, found {n}")
    return text.replace(old, new)


def strip_test_modules(text):
    """Drop trailing `#[cfg(test)] mod …` blocks (never compiled in our bins anyway;
    removed so that dev-dependencies they import are not needed)."""
    m = re.search(r"\n#\[cfg\(test\)\]\nmod \w+ \{", text)
    if m:
        return text[: m.start()] + "\n"
    return text


def distributor_channels():
    src = open(f"{REPO}/datafusion/physical-plan/src/repartition/distributor_channels.rs").read()
    src = strip_test_modules(src)
    src = sub(src,
              "    sync::{\n        Arc,\n        atomic::{AtomicUsize, Ordering},\n    },\n",
              "    sync::Arc,\n", 1, "distributor_channels std::sync import")
    src = sub(src, "use parking_lot::Mutex;\n",
              "use parking_lot::Mutex; // = loomx shim over loom::sync::Mutex\nuse loom::sync::atomic::{AtomicUsize, Ordering};\n",
              1, "distributor_channels parking_lot import")
    if "std::sync::atomic" in src or "sync::atomic" in src.replace("loom::sync::atomic", ""):
        raise Fail("distributor_channels: an un-rewritten atomic path survives")
    return {"distributor_channels.rs": src}


def memory_pool():
    base = f"{REPO}/datafusion/execution/src/memory_pool"
    out = {}
    # mod.rs ---------------------------------------------------------------
    src = strip_test_modules(open(f"{base}/mod.rs").read())
    src = sub(src, "use std::{cmp::Ordering, sync::Arc, sync::atomic};\n",
              "use std::{cmp::Ordering, sync::Arc};\nuse loom::sync::atomic; // loom atomics for MemoryReservation::size\n",
              1, "memory_pool/mod.rs std import")
    # the process-wide id counter must be a `static`: loom atomics are not const; ids are not part of the property
    src = sub(src, "        static ID: atomic::AtomicUsize = atomic::AtomicUsize::new(0);\n",
              "        static ID: std::sync::atomic::AtomicUsize = std::sync::atomic::AtomicUsize::new(0);\n",
              1, "memory_pool/mod.rs static ID")
    if "std::sync::atomic" in src.replace("static ID: std::sync::atomic::AtomicUsize = std::sync::atomic::AtomicUsize::new(0);", ""):
        raise Fail("memory_pool/mod.rs: an un-rewritten std atomic path survives")
    out["memory_pool/mod.rs"] = src
    # pool.rs --------------------------------------------------------------
    src = strip_test_modules(open(f"{base}/pool.rs").read())
    src = sub(src, "use std::{\n    num::NonZeroUsize,\n    sync::atomic::{AtomicUsize, Ordering},\n};\n",
              "use std::num::NonZeroUsize;\nuse loom::sync::atomic::{AtomicUsize, Ordering};\n",
              1, "memory_pool/pool.rs std import")
    src = sub(src, "use parking_lot::Mutex;\n", "use parking_lot::Mutex; // = loomx shim over loom::sync::Mutex\n", 1,
              "memory_pool/pool.rs parking_lot import")
    if "std::sync::atomic" in src or "sync::atomic" in src.replace("loom::sync::atomic", ""):
        raise Fail("memory_pool/pool.rs: an un-rewritten atomic path survives")
    out["memory_pool/pool.rs"] = src
    # peak_recording.rs ----------------------------------------------------
    src = strip_test_modules(open(f"{base}/peak_recording.rs").read())
    src = sub(src, "    sync::{\n        Arc,\n        atomic::{AtomicUsize, Ordering},\n    },\n};\n",
              "    sync::Arc,\n};\nuse loom::sync::atomic::{AtomicUsize, Ordering};\n",
              1, "memory_pool/peak_recording.rs std import")
    if "sync::atomic" in src.replace("loom::sync::atomic", ""):
        raise Fail("memory_pool/peak_recording.rs: an un-rewritten atomic path survives")
    out["memory_pool/peak_recording.rs"] = src
    return out


def main():
    os.makedirs(GEN, exist_ok=True)
    files = {}
    try:
        for f in GENERATORS:
            files.update(f())
    except (Fail, FileNotFoundError) as e:
        print(f"sync_sources: {e}")
        sys.exit(2)
    for name, text in files.items():
        path = os.path.join(GEN, name)
        os.makedirs(os.path.dirname(path), exist_ok=True)
        old = open(path).read() if os.path.exists(path) else None
        if old != text:  # keep mtime stable when unchanged (no needless rebuild)
            open(path, "w").write(text)
    print(f"sync_sources: {len(files)} file(s) in {GEN}")


GENERATORS = [distributor_channels, memory_pool]

if __name__ == "__main__":
    main()
